"""Shared by c04 / c05 / c06: integer projections of recorded element crossings (Roadm, Fiber, Edfa), recording of
gnpy.topology.request.propagate on the shipped networks, and the TLC judge (spec/Trace_LineElements.tla).

Nothing here decides whether an observation is right: the functions read configuration numbers off the element,
convert units (dB <-> linear, vector sums, squares, 10*log10 of configuration inputs such as baud rate / slot width /
h*f*B) and write integer events; every clause is evaluated by TLC.
"""
import copy
import json

import numpy as np

from harness import tlc
from harness.core import Machinery
from harness.gnpy_util import udb, EX, TD, INF, NONE
from harness.record import Recording, snapshot as snapshot_of      # noqa: F401 (snapshot_of is used by the checks)

H_PLANCK = 6.62607015e-34


# ------------------------------------------------------------------------------------------------ unit conversions
def db(x):
    with np.errstate(divide='ignore'):
        return 10 * np.log10(x)


def dbm(w):
    with np.errstate(divide='ignore'):
        return 10 * np.log10(np.asarray(w, dtype=float)) + 30


def iround(x):
    """nearest integer, saturating at the +/-Inf sentinels of GnpyBase (TLC integers are 32 bit)"""
    x = float(x)
    if x != x:
        return -INF + 1
    return int(max(-INF, min(INF, round(x))))


def mhz(f):
    return iround(float(f) / 1e6)


def cd_units(x):      # s/m (gnpy) -> 1e-3 ps/nm
    return iround(float(x) * 1e6)


def ns(x):
    return iround(float(x) * 1e9)


def fs2(x):           # s -> fs^2 (quadrature becomes addition)
    return iround((float(x) * 1e15) ** 2)


def mdb2(x):          # dB -> mdB^2
    return iround((float(x) * 1e3) ** 2)


def pick_channels(n, max_ch):
    """indices of the channels projected per channel (all when n <= max_ch, else spread incl. first and last)"""
    if n <= max_ch:
        return list(range(n))
    return sorted({int(round(k * (n - 1) / (max_ch - 1))) for k in range(max_ch)})


# --------------------------------------------------------------------------------------------------- ROADM events
def roadm_node_policy(el):
    """(npol, [kind, v]) from the element's node-level attributes"""
    pols = []
    if el.target_pch_out_dbm is not None:
        pols.append(dict(kind='pch', v=udb(el.target_pch_out_dbm)))
    if el.target_psd_out_mWperGHz is not None:
        pols.append(dict(kind='psd', v=udb(db(el.target_psd_out_mWperGHz))))
    if el.target_out_mWperSlotWidth is not None:
        pols.append(dict(kind='psw', v=udb(db(el.target_out_mWperSlotWidth))))
    return len(pols), (pols[0] if pols else dict(kind='pch', v=0))


def roadm_degree_setting(el, degree):
    """(count, [has, kind, v]) of the settings written for this egress degree"""
    s = []
    if degree in el.per_degree_pch_out_dbm:
        s.append(dict(has=True, kind='pch', v=udb(el.per_degree_pch_out_dbm[degree])))
    if degree in el.per_degree_pch_psd:
        s.append(dict(has=True, kind='psd', v=udb(db(el.per_degree_pch_psd[degree]))))
    if degree in el.per_degree_pch_psw:
        s.append(dict(has=True, kind='psw', v=udb(db(el.per_degree_pch_psw[degree]))))
    return len(s), (s[0] if s else dict(has=False, kind='pch', v=0))


def roadm_path_maxloss(el, from_degree, degree, freqs):
    """path loss configured for the crossed internal path, per channel (configuration lookup, default 0)"""
    path = next((p for p in el.roadm_paths if p.from_degree == from_degree and p.to_degree == degree), None)
    if path is None:
        return None
    out = []
    for f in freqs:
        v = 0.0
        for item in path.impairment.impairments:
            fr = item.get('frequency-range', {})
            lo, hi = fr.get('lower-frequency'), fr.get('upper-frequency')
            if lo is None or lo <= f <= hi:
                v = item.get('roadm-maxloss', 0) or 0
                break
        out.append(v)
    return out


def launched_offsets(req):
    """per-channel power offset of the LAUNCHED request, keyed by channel frequency (Hz): the user spectrum's delta_pdb
    of each carrier, or the request's uniform offset.  This is the configuration input; the spectral information's own
    delta_pdb_per_channel array is an observation that travels with the channels and may be corrupted on the way."""
    if getattr(req, 'initial_spectrum', None):
        return {float(f): float(c.delta_pdb) for f, c in req.initial_spectrum.items()}
    return float(getattr(req, 'offset_db', 0.0) or 0.0)


def roadm_event(ev, max_ch=12, offset_of=None, reported=True):
    """Recording event of a Roadm crossing -> integer event (or None when the configuration is outside the domain the
    property decides: the egress degree carries settings of two kinds).  offset_of: launched_offsets(req) when the
    crossing happened inside propagate(); None: the offsets are those of the spectral information handed to the ROADM
    (direct calls with a harness-built spectral information)"""
    el, pre, post = ev['el'], ev['pre'], ev['post']
    degree, from_degree = ev['args']['degree'], ev['args']['from_degree']
    npol, node = roadm_node_policy(el)
    ndeg, deg = roadm_degree_setting(el, degree)
    if ndeg > 1:
        return None
    ml = roadm_path_maxloss(el, from_degree, degree, pre['frequency'])
    if ml is None:
        return None
    pin, pout = dbm(pre['pch']), dbm(post['pch'])
    ch = []
    for k in pick_channels(len(pin), max_ch):
        if offset_of is None:
            off = pre['delta_pdb_per_channel'][k]
        elif isinstance(offset_of, dict):
            off = offset_of[float(pre['frequency'][k])]
        else:
            off = offset_of
        ch.append({'baudDb': udb(db(pre['baud_rate'][k] / 1e9)), 'slotDb': udb(db(pre['slot_width'][k] / 1e9)),
                   'offset': udb(off), 'in': udb(pin[k]), 'maxloss': udb(ml[k]),
                   'out': udb(pout[k]),
                   # what the element reports about this crossing (must be projected before it is crossed again)
                   'lossRep': udb(el.loss_pch_db[k]), 'poutRep': udb(el.pch_out_dbm[k])})
    return {'k': 'Roadm', 'uid': el.uid, 'npol': npol, 'node': node, 'deg': deg, 'rep': 1 if reported else 0, 'ch': ch}


# --------------------------------------------------------------------------------------- accumulators (C05 clauses)
def acc_fields(pre, post, d, idx_pre, idx_post):
    """accumulators before / after the crossing and the element's own contribution d (measured alone from zero)"""
    return {'cd0': [cd_units(pre['chromatic_dispersion'][i]) for i in idx_pre],
            'cd1': [cd_units(post['chromatic_dispersion'][j]) for j in idx_post],
            'dCd': [cd_units(d['chromatic_dispersion'][j]) for j in idx_post],
            'lat0': [ns(pre['latency'][i]) for i in idx_pre], 'lat1': [ns(post['latency'][j]) for j in idx_post],
            'dLat': [ns(d['latency'][j]) for j in idx_post],
            'pmd0': [fs2(pre['pmd'][i]) for i in idx_pre], 'pmd1': [fs2(post['pmd'][j]) for j in idx_post],
            'dPmd': [fs2(d['pmd'][j]) for j in idx_post],
            'pdl0': [mdb2(pre['pdl'][i]) for i in idx_pre], 'pdl1': [mdb2(post['pdl'][j]) for j in idx_post],
            'dPdl': [mdb2(d['pdl'][j]) for j in idx_post]}


def zero_state_si(pre, select=None):
    """a spectral information with the channels / powers of snapshot `pre` and all accumulators at zero"""
    from gnpy.core.info import create_arbitrary_spectral_information
    sel = slice(None) if select is None else select
    return create_arbitrary_spectral_information(
        frequency=pre['frequency'][sel], pch=pre['pch'][sel], baud_rate=pre['baud_rate'][sel],
        slot_width=pre['slot_width'][sel], tx_osnr=pre['tx_osnr'][sel], tx_power=pre['tx_power'][sel],
        delta_pdb_per_channel=pre['delta_pdb_per_channel'][sel], roll_off=pre['roll_off'][sel],
        label=pre['label'][sel])


def alone_contribution(ev):
    """the element's own contribution: a deep copy of the element crossed alone from a zero state (same channels and
    powers as in the recorded crossing); returns the accumulators it leaves"""
    el = copy.deepcopy(ev['el'])
    si = zero_state_si(ev['pre'])
    out = el(si, **ev['args']) if ev['args'] else el(si)
    return {k: np.array(getattr(out, k), copy=True) for k in ('chromatic_dispersion', 'latency', 'pmd', 'pdl',
                                                               'frequency')}


class Contributions:
    """own contributions of the elements, each measured ONCE by crossing a deep copy of the element alone from a zero
    state (keyed by element, crossing arguments and channel plan)"""

    def __init__(self):
        self.cache = {}
        self.measured = 0

    def get(self, ev):
        f = ev['pre']['frequency']
        key = (ev['cls'], ev['uid'], id(ev.get('el')), tuple(sorted(ev['args'].items())), len(f), float(f[0]), float(f[-1]))
        if key not in self.cache:
            self.cache[key] = alone_contribution(ev)
            self.measured += 1
        return self.cache[key]


def match_channels(pre, post):
    """index pairs (i in pre, j in post) of the channels that left the element (an amplifier drops out-of-band ones)"""
    pos = {float(f): i for i, f in enumerate(pre['frequency'])}
    return [(pos[float(f)], j) for j, f in enumerate(post['frequency']) if float(f) in pos]


# --------------------------------------------------------------------------------------------------- fibre events
def fiber_alpha_l(el, freqs):
    """configured (loss coefficient x length) per channel in dB: scalar, or linear interpolation of the table"""
    p = el.params
    lc = np.atleast_1d(np.asarray(p.loss_coef, dtype=float))
    if lc.size > 1:
        fr = np.asarray(p.f_loss_ref, dtype=float)
        order = np.argsort(fr)                                # the table is a set of (frequency, value) pairs
        a = np.interp(np.asarray(freqs, dtype=float), fr[order], lc[order])
    else:
        a = np.full(len(freqs), lc[0])
    return a * p.length


def fiber_event(ev, raman_on, max_ch=12, with_acc=True, contrib=None, declared=None):
    el, pre, post = ev['el'], ev['pre'], ev['post']
    p = el.params
    n = len(pre['frequency'])
    sel = pick_channels(n, max_ch)
    al = fiber_alpha_l(el, pre['frequency'])
    pin, pout = dbm(pre['pch']), dbm(post['pch'])
    e = {'k': 'Fiber', 'uid': el.uid, 'attIn': udb(p.att_in), 'conIn': udb(p.con_in), 'conOut': udb(p.con_out),
         'lumped': udb(sum(float(x['loss']) for x in p.lumped_losses)), 'raman': 1 if raman_on else 0,
         'fresh': 0, 'acc': 1 if with_acc else 0, 'cfg': 0, 'decl': 0,
         'ch': [{'alphaL': udb(al[k]), 'in': udb(pin[k]), 'out': udb(pout[k])} for k in sel]}
    if declared and el.uid in declared:
        # connector figures as DECLARED by the topology document (None = not declared) and the library's Span defaults
        d_in, d_out, def_in, def_out = declared[el.uid]
        e.update({'decl': 1, 'conInDecl': udb(d_in), 'conOutDecl': udb(d_out), 'conInDef': udb(def_in), 'conOutDef': udb(def_out)})
    if with_acc:
        d = contrib.get(ev) if contrib else alone_contribution(ev)
        e.update(acc_fields(pre, post, d, sel, sel))
        # the span's own contributions as its OWN configuration gives them (unit conversions of configuration inputs):
        # latency = length / (c / n), group index n of the fibre model; PMD^2 = pmd_coef^2 x length
        n_group = float(getattr(p, '_n1', 1.468))
        e.update({'cfg': 1, 'latCfg': ns(p.length * n_group / 299792458.0),
                  'pmdCfg': iround((float(p.pmd_coef) * 1e15) ** 2 * p.length)})
        # CD: a single-value dispersion without slope gives dispersion x length for every channel (whatever the reference
        # wavelength of the fibre parameters); a dispersion table or a slope leaves the span's CD undecided (NONE)
        disp = np.atleast_1d(np.asarray(p.dispersion, dtype=float))
        e['cdCfg'] = cd_units(disp[0] * p.length) if disp.size == 1 and p.dispersion_slope is None else NONE
    return e


def with_fresh_fiber_reference(e, e_fresh):
    """attach to fibre crossing e the per-channel output of the same crossing made on a FRESH fibre (NoMemory)"""
    if len(e['ch']) != len(e_fresh['ch']):
        raise Machinery('fresh reference crossing has another channel set')
    for c, f in zip(e['ch'], e_fresh['ch']):
        c['outFresh'] = f['out']
    e['fresh'] = 1
    return e


def acc_event(ev, max_ch=12, contrib=None):
    """accumulators around a Roadm / Edfa crossing (channels matched by frequency: an amplifier drops out-of-band
    channels), with the element's own contribution measured alone"""
    pre, post = ev['pre'], ev['post']
    pairs = match_channels(pre, post)
    pick = [pairs[k] for k in pick_channels(len(pairs), max_ch)]
    d = contrib.get(ev) if contrib else alone_contribution(ev)
    dpos = {float(f): i for i, f in enumerate(d['frequency'])}
    e = {'k': 'Acc', 'uid': ev['uid'], 'cls': ev['cls'], 'cfg': 0}
    if ev['cls'] in ('Roadm', 'Edfa', 'Multiband_amplifier'):
        fq = [post['frequency'][j] for _, j in pick]
        c = roadm_config_contribution(ev['el'], ev['args']['from_degree'], ev['args']['degree'], fq) \
            if ev['cls'] == 'Roadm' else amplifier_config_contribution(ev['el'], fq)
        if c is not None:
            e.update({'cfg': 1, 'pmdCfg': [fs2(x) for x in c['pmd']], 'pdlCfg': [mdb2(x) for x in c['pdl']]})
    ip = [i for i, _ in pick]
    jp = [j for _, j in pick]
    kd = [dpos[float(post['frequency'][j])] for j in jp]
    e.update({'cd0': [cd_units(pre['chromatic_dispersion'][i]) for i in ip],
              'cd1': [cd_units(post['chromatic_dispersion'][j]) for j in jp],
              'dCd': [cd_units(d['chromatic_dispersion'][k]) for k in kd],
              'lat0': [ns(pre['latency'][i]) for i in ip], 'lat1': [ns(post['latency'][j]) for j in jp],
              'dLat': [ns(d['latency'][k]) for k in kd],
              'pmd0': [fs2(pre['pmd'][i]) for i in ip], 'pmd1': [fs2(post['pmd'][j]) for j in jp],
              'dPmd': [fs2(d['pmd'][k]) for k in kd],
              'pdl0': [mdb2(pre['pdl'][i]) for i in ip], 'pdl1': [mdb2(post['pdl'][j]) for j in jp],
              'dPdl': [mdb2(d['pdl'][k]) for k in kd]})
    return e


def roadm_config_contribution(el, from_degree, degree, freqs):
    """PMD (s) and PDL (dB) the CONFIGURATION gives a ROADM crossing, per channel: the value the impairment profile of the
    crossed internal path defines for the channel's frequency range where it defines one, else the ROADM-level value -
    each quantity on its own (configuration lookup only)"""
    path = next((p for p in el.roadm_paths if p.from_degree == from_degree and p.to_degree == degree), None)
    if path is None:
        return None
    out = {'pmd': [], 'pdl': []}
    for f in freqs:
        item = {}
        for it in path.impairment.impairments:
            fr = it.get('frequency-range', {})
            lo, hi = fr.get('lower-frequency'), fr.get('upper-frequency')
            if lo is None or lo <= f <= hi:
                item = it
                break
        for key, name, fallback in (('pmd', 'roadm-pmd', el.params.pmd), ('pdl', 'roadm-pdl', el.params.pdl)):
            v = item.get(name)
            out[key].append(fallback if v is None else v)
    return out


def amplifier_config_contribution(el, freqs):
    """PMD (s) and PDL (dB) the CONFIGURATION gives an amplifier crossing, per channel: the type's pmd / pdl; for a
    multiband amplifier those of the member amplifier whose band holds the channel"""
    members = list(el.amplifiers.values()) if hasattr(el, 'amplifiers') else [el]
    out = {'pmd': [], 'pdl': []}
    for f in freqs:
        m = next((a for a in members if a.params.bands[0]['f_min'] <= f <= a.params.bands[0]['f_max']), None)
        if m is None:
            return None
        out['pmd'].append(m.params.pmd)
        out['pdl'].append(m.params.pdl)
    return out


def end_event(si_snapshot, loss_db, max_ch=12):
    """final accumulators of one ordering (C05 OrderIndependent); loss_db: per-channel total loss of the fibres"""
    sel = pick_channels(len(si_snapshot['frequency']), max_ch)
    return {'k': 'End', 'cd': [cd_units(si_snapshot['chromatic_dispersion'][k]) for k in sel],
            'lat': [ns(si_snapshot['latency'][k]) for k in sel], 'pmd': [fs2(si_snapshot['pmd'][k]) for k in sel],
            'pdl': [mdb2(si_snapshot['pdl'][k]) for k in sel], 'loss': [udb(loss_db[k]) for k in sel]}


# ----------------------------------------------------------------------------------------------- amplifier events
def edfa_event(ev, gain_set, max_ch=12):
    """Recording event of an Edfa crossing -> integer event.  gain_set: the gain the amplifier was SET to (operational
    gain_target / the value the design wrote), captured before any propagation."""
    el, pre, post = ev['el'], ev['pre'], ev['post']
    pairs = match_channels(pre, post)
    ip = np.array([i for i, _ in pairs], dtype=int)
    jp = np.array([j for _, j in pairs], dtype=int)
    in_voa = float(el.in_voa or 0.0)
    out_voa = float(el.out_voa or 0.0)
    v = 10 ** (-in_voa / 10)
    pin = pre['pch'][ip]
    with np.errstate(divide='ignore', invalid='ignore'):
        gch = post['signal'][jp] / pre['signal'][ip]                 # per-channel gain incl. both VOAs (linear)
        ase_in = post['ase'][jp] * v / gch - pre['ase'][ip] * v      # ASE added, referred to the amplifier input [W]
    # the difference of two float products resolves nothing below ~64 ulp of the larger one: such a residue is 0
    resolution = 64 * np.finfo(float).eps * np.abs(post['ase'][jp] * v / gch)
    ase_in = np.where(np.abs(ase_in) <= resolution, 0.0, ase_in)
    ase_in = np.where(ase_in < 0, 0.0, ase_in)
    g_tot = db(np.sum(pin * gch) / np.sum(pin))
    q = dbm(H_PLANCK * pre['frequency'][ip] * pre['baud_rate'][ip])
    nf = np.broadcast_to(np.asarray(el.nf, dtype=float), (len(jp),)) if np.ndim(el.nf) == 0 else np.asarray(el.nf)[jp]
    # configured NF ripple at each channel frequency (configuration projection: the table is laid evenly over the band)
    rip_tab = np.atleast_1d(np.asarray(el.params.nf_ripple, dtype=float))
    nf_rip = np.interp(pre['frequency'][ip], np.linspace(el.params.f_min, el.params.f_max, len(rip_tab)), rip_tab)
    flat_in = 1 if (np.max(pin) - np.min(pin)) <= 1e-9 * np.max(pin) else 0
    ripple = 1 if np.any(np.asarray(el.params.gain_ripple, dtype=float) != 0) else 0
    band = el.params.bands[0]
    fr = [float(x) / 1e6 for x in list(pre['frequency']) + list(pre['slot_width']) + [band['f_min'], band['f_max']]]
    band_decided = 1 if all(abs(x - round(x)) < 1e-3 for x in fr) else 0
    sel = pick_channels(len(jp), max_ch)
    e = {'k': 'Edfa', 'uid': el.uid, 'typeDef': el.params.type_def, 'dual': 1 if el.params.type_def == 'dual_stage' else 0,
         'gainSet': udb(gain_set), 'pMax': udb(el.params.p_max), 'gainMin': udb(el.params.gain_min),
         'flatMax': udb(el.params.gain_flatmax), 'inVoa': udb(in_voa), 'outVoa': udb(out_voa),
         'tilt': udb(el.tilt_target or 0.0), 'ripple': ripple, 'flatIn': flat_in,
         'pinRaw': udb(dbm(np.sum(pin))), 'effObs': udb(el.effective_gain), 'padObs': udb(el.att_in),
         'gTot': udb(g_tot), 'poutObs': udb(el.pout_db), 'poutTot': udb(dbm(np.sum(post['pch']))),
         'fresh': 0,
         'ch': [{'q': udb(q[k]), 'nf': udb(nf[k]), 'nfRip': udb(nf_rip[k]), 'ase': udb(dbm(ase_in[k])),
                 'gain': udb(db(gch[k]))} for k in sel],
         'bandDecided': band_decided,
         'band': {'fmin': mhz(band['f_min']), 'fmax': mhz(band['f_max'])},
         'inb': [{'f': mhz(f), 'w': mhz(w)} for f, w in zip(pre['frequency'], pre['slot_width'])],
         'outb': [{'f': mhz(f), 'w': mhz(w)} for f, w in zip(post['frequency'], post['slot_width'])]}
    return e


# --------------------------------------------------------------------------------------- small designed line network
_EQPT = None


def base_eqpt():
    """a fresh copy of the shipped equipment library (JSON form) to which a check appends its own entries"""
    global _EQPT
    if _EQPT is None:
        _EQPT = json.loads((EX / 'eqpt_config.json').read_text())
    return copy.deepcopy(_EQPT)


def line_topology(roadm_b_params, roadm_variety='verif', amp_variety=None, amp_operational=None):
    """trx/roadm A - B - C (both directions), explicit amplifiers so that degree uids are known before the design;
    amplifiers are auto-designed unless amp_variety is given"""
    els, cx = [], []
    for s in 'ABC':
        els.append({'uid': f'trx {s}', 'type': 'Transceiver'})
        r = {'uid': f'roadm {s}', 'type': 'Roadm', 'type_variety': roadm_variety}
        if s == 'B':
            r['params'] = roadm_b_params
        els.append(r)
        cx += [{'from_node': f'trx {s}', 'to_node': f'roadm {s}'}, {'from_node': f'roadm {s}', 'to_node': f'trx {s}'}]
    for a, b in (('A', 'B'), ('B', 'C'), ('C', 'B'), ('B', 'A')):
        for uid in (f'booster {a}{b}', f'preamp {a}{b}'):
            e = {'uid': uid, 'type': 'Edfa'}
            if amp_variety:
                e['type_variety'] = amp_variety
                e['operational'] = dict(amp_operational or {})
            els.append(e)
        els.append({'uid': f'fiber {a}{b}', 'type': 'Fiber', 'type_variety': 'SSMF',
                    'params': {'length': 60, 'length_units': 'km', 'loss_coef': 0.2, 'con_in': 0.5, 'con_out': 0.5}})
        cx += [{'from_node': f'roadm {a}', 'to_node': f'booster {a}{b}'},
               {'from_node': f'booster {a}{b}', 'to_node': f'fiber {a}{b}'},
               {'from_node': f'fiber {a}{b}', 'to_node': f'preamp {a}{b}'},
               {'from_node': f'preamp {a}{b}', 'to_node': f'roadm {b}'}]
    return {'elements': els, 'connections': cx}


# ------------------------------------------------------------------------------------- recording shipped networks
SHIPPED = [
    # name, topology, equipment, extra equipment, sim params (None = defaults: Raman off)
    ('meshV2', 'meshTopologyExampleV2.json', 'eqpt_config.json', (), None),
    ('swedenV4', 'Sweden_OpenROADMv4_example_network.json', 'eqpt_config_openroadm_ver4.json', (), None),
    ('swedenV5', 'Sweden_OpenROADMv5_example_network.json', 'eqpt_config_openroadm_ver5.json', (), None),
    ('multiband', 'multiband_example_network.json', 'eqpt_config_multiband.json', (), None),
    ('fusedRoadm', 'fused_roadm_example_network.json', 'eqpt_config.json', (), None),
    ('edfaExample', 'edfa_example_network.json', 'eqpt_config.json', (), None),
    ('ramanEdfa', 'raman_edfa_example_network.json', 'eqpt_config.json', (), 'raman'),
    ('coronet', 'CORONET_Global_Topology.json', 'eqpt_config.json', (), None),
]
RAMAN_SIM = {'raman_params': {'flag': True, 'method': 'perturbative', 'order': 2,
                              'result_spatial_resolution': 10e3, 'solver_spatial_resolution': 50},
             'nli_params': {'method': 'gn_model_analytic'}}


def load_designed(topology, eqpt, spectrum=None, eqpt_dir=EX, topology_json=None):
    """(equipment, designed network, request to propagate, {amplifier uid: set gain})"""
    from gnpy.tools.json_io import load_equipments_and_configs, load_network, network_from_json, load_json, \
        load_initial_spectrum
    from gnpy.tools.worker_utils import designed_network
    from gnpy.core.elements import Edfa, Multiband_amplifier
    if isinstance(eqpt, dict):                           # an equipment document built by the check
        from gnpy.tools.json_io import _equipment_from_json, DEFAULT_EXTRA_CONFIG
        eq = _equipment_from_json(copy.deepcopy(eqpt), DEFAULT_EXTRA_CONFIG)
    else:
        eq = load_equipments_and_configs(eqpt_dir / eqpt, [], [])
    tpath = None if topology_json is not None else EX / topology if (EX / topology).exists() else TD / topology
    if topology_json is not None:
        net = network_from_json(copy.deepcopy(topology_json), eq)
    elif topology == 'fused_roadm_example_network.json':
        # this shipped file does not pass the YANG validation of load_network (a 'loss' parameter on a Roadm
        # element); that is a document-level matter (C18), here the legacy reader is used directly
        net = network_from_json(load_json(tpath), eq)
    else:
        net = load_network(tpath, eq)
    if isinstance(spectrum, dict):                       # a spectrum document built by the check (same format as the files)
        from gnpy.tools.json_io import _spectrum_from_json
        init = _spectrum_from_json(copy.deepcopy(spectrum['spectrum']))
    else:
        init = load_initial_spectrum(EX / spectrum) if spectrum else None
    net, req, _ = designed_network(eq, net, initial_spectrum=init)
    gains = {}
    for n in net.nodes():
        if isinstance(n, Edfa):
            gains[n.uid] = n.effective_gain
        elif isinstance(n, Multiband_amplifier):
            for a in n.amplifiers.values():
                gains[(n.uid, id(a))] = a.effective_gain
                gains[id(a)] = a.effective_gain
    return eq, net, req, gains


def set_sim(kind):
    from gnpy.core.parameters import SimParams
    SimParams.set_params(RAMAN_SIM if kind == 'raman' else {})


def raman_on():
    from gnpy.core.parameters import SimParams
    return bool(SimParams().raman_params.flag)


def some_paths(net, rng, n):
    """n seeded transceiver-to-transceiver shortest paths (distinct pairs)"""
    import networkx as nx
    from gnpy.core.elements import Transceiver
    trx = sorted((x for x in net.nodes() if isinstance(x, Transceiver)), key=lambda x: x.uid)
    pairs = [(a, b) for a in trx for b in trx if a is not b]
    rng.shuffle(pairs)
    out = []
    for a, b in pairs:
        if len(out) >= n:
            break
        try:
            out.append(nx.dijkstra_path(net, a, b))
        except nx.NetworkXNoPath:
            continue
    return out


def record_paths(eq, req, paths):
    """generator of (path description, [Recording events]) of the real propagate() over each path.  It is a GENERATOR on
    purpose: the caller projects the events of one path (which read state the elements keep from their last crossing:
    Edfa.effective_gain / nf / pout_db, Roadm.loss_pch_db ...) before the next path is propagated; within one path every
    element is crossed once."""
    from gnpy.topology.request import propagate
    for path in paths:
        with Recording(keep_element=True) as rec:
            propagate(path, copy.copy(req), eq)
        yield f'{path[0].uid}->{path[-1].uid}', rec.take()


def with_fresh_reference(e, e_fresh):
    """attach to crossing event e the per-channel gain / NF of the same crossing made on a FRESH amplifier (NoMemory)"""
    if len(e['ch']) != len(e_fresh['ch']):
        raise Machinery('fresh reference crossing has another channel set')
    for c, f in zip(e['ch'], e_fresh['ch']):
        c['gainFresh'], c['nfFresh'] = f['gain'], f['nf']
    e['fresh'] = 1
    return e


def gain_set_of(ev, gains):
    el = ev['el']
    return gains.get(el.uid, gains.get(id(el)))


# ---------------------------------------------------------------------------------------------- source-level mutants
def mutate_source(owner, name, old, new, static=False):
    """selftest helper: re-compile function `name` of class / module `owner` with `old` replaced by `new` in its source
    (a realistic one-line defect that still compiles), in the defining module's namespace"""
    import inspect
    import textwrap
    fn = getattr(owner, name)
    src = textwrap.dedent(inspect.getsource(fn))
    if src.lstrip().startswith('@staticmethod'):
        src = src.split('\n', 1)[1]
        static = True
    if old not in src:
        raise Machinery(f'mutant: {old!r} not found in {name}')
    ns = {}
    exec(compile(src.replace(old, new), f'<mutant {name}>', 'exec'), vars(inspect.getmodule(fn)), ns)   # noqa: S102
    setattr(owner, name, staticmethod(ns[name]) if static else ns[name])


def require_witnesses(chk, module, cfg_head, probes, tag):
    """vacuity guard: every probe is the NEGATION of a clause antecedent stated as an invariant; TLC must violate each
    (i.e. find a reachable witness), otherwise the clause would hold vacuously in the bounded model"""
    for p in probes:
        r = tlc.run(module, cfg_text=cfg_head + f'\nINVARIANT {p}\n', timeout=900, tag=tag)
        if r.violated != p:
            raise Machinery(f'{module}: no witness for {p} (vacuous clause?) {r.error or ""}')
    chk.cov['antecedent_witnesses_found'] = list(probes)


# ------------------------------------------------------------------------------------------------------ the judge
def judge(chk, traces, tag, max_events=12000):
    """traces: [{'name':..., 'ev': [...]}] -> {name: [[step, clause], ...]}; every trace must be consumed entirely.
    Traces are batched (about max_events events per TLC invocation)."""
    verdicts = {}
    names = [t['name'] for t in traces]
    if len(set(names)) != len(names):
        raise Machinery(f'{tag}: duplicate trace names')
    parts, cur, n = [], [], 0
    for t in traces:
        cur.append(t)
        n += len(t['ev']) + 1
        if n >= max_events:
            parts.append(cur)
            cur, n = [], 0
    if cur:
        parts.append(cur)
    for part in parts:
        data = '\n'.join(json.dumps(t, separators=(',', ':')) for t in part) + '\n'
        res = tlc.run('Trace_LineElements', extra_files={'trace.ndjson': data}, env={'TRACE_FILE': 'trace.ndjson'},
                      workers=1, timeout=1800, tag=tag)
        if not res.ok:
            raise Machinery(f'{tag}: trace validation run failed: {res.error or res.violated}\n{res.out[-2500:]}')
        chk.states += res.distinct
        chk.transitions += res.generated
        got = {v['name']: v for v in res.emitted}
        for t in part:
            v = got.get(t['name'])
            if v is None:
                raise Machinery(f'{tag}: no verdict for trace {t["name"]}')
            if v['n'] != len(t['ev']):
                raise Machinery(f'{tag}: trace {t["name"]} consumed {v["n"]}/{len(t["ev"])} events')
            verdicts[t['name']] = [(int(s), c) for s, c in v['viol']]
    return verdicts
