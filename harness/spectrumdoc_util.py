"""The spectrum to propagate (spec/SpectrumDocument.tla): user spectrum document or request -> the carriers that are launched.

B1  MC_SpectrumDocument: every document of 1-3 partitions over 16 partition shapes (a sample of them also as a FILE) and
    every request of a small vocabulary for the uniform comb; the lemmas of SpectrumDocument.tla as invariants; witnesses
    for every refusal rule / lemma antecedent / recorded surprise as ASSUMEs.
B2  TLC emits one `[c |-> case, e |-> expected outcome]` per case.  A document case becomes a real list of partition dicts
    handed to gnpy.tools.json_io._spectrum_from_json (via "mem") or written to a JSON file under the system temp dir and
    read with gnpy.tools.json_io.load_initial_spectrum (via "file": the YANG validation comes first); the resulting dict of
    Carriers is attached to a real gnpy.topology.request.PathRequest as initial_spectrum.  A comb case is a PathRequest
    without one.  Either way the real gnpy.topology.request.propagate is called with filter_si replaced by a recorder that
    takes the SpectralInformation propagate built (carriers_to_spectral_information / create_input_spectral_information ->
    create_arbitrary_spectral_information -> SpectralInformation.__init__) and stops there.  The Carriers, the launched
    channels or the exception class + stage + rule are projected into the specification's integer record and compared with
    TLC's expectation field by field.  Python only encodes and projects.

Run alone:  PYTHONPATH=/verif /venv/bin/python -m harness.spectrumdoc_util [--mutant NAME]
"""
import contextlib
import json
import math
import os
import tempfile
from pathlib import Path

from harness import tlc
from harness.core import Check, Machinery
from harness.gnpy_util import NONE, INF

F0_MHZ = 193_100_000
NO_LABEL = ''
# the part of an exception's text that names the rule which refused (projection of the message)
RULE_TEXT = (('Not a valid initial spectrum definition', 'PartitionsOverlap'),
             ('current_freq', 'NoCarrierYet'),
             ('slot widths larger than the frequency spectral distances', 'SlotsOverlap'),
             ('baud rate, including the roll off, larger than the slot width', 'BaudWiderThanSlot'),
             ('negative dimensions', 'NegativeChannelCount'))
SCHEMA_TEXT = (('Must condition ". >= ./../f_min"', 'FmaxBelowFmin'),
               ('Duplicate instance of "spectrum"', 'DuplicateFmin'))


# ---- spec -> gnpy: concretisation --------------------------------------------------------------------------------
def hz(off_mhz):
    """MHz counted from 193.1 THz -> Hz (an integer below 2^53: exact in a double)"""
    return float((int(off_mhz) + F0_MHZ) * 1_000_000)


def dbm_to_watt(udbm):
    return 10 ** (udbm / 1e6 / 10) * 1e-3


def partition_dict(p):
    """one entry of the "spectrum" list; an optional key the model leaves out is left out"""
    d = {'f_min': hz(p['fmin']), 'f_max': hz(p['fmax']), 'slot_width': p['w'] * 1e6, 'baud_rate': p['b'] * 1e6,
         'roll_off': p['ro'] / 1000}
    if p['dp'] != NONE:
        d['delta_pdb'] = p['dp'] / 1e6
    if p['osnr'] != NONE:
        d['tx_osnr'] = p['osnr'] / 1e6
    if p['txp'] != NONE:
        d['tx_power_dbm'] = p['txp'] / 1e6
    if p['label'] != NO_LABEL:
        d['label'] = p['label']
    return d


def path_request(r):
    from gnpy.topology.request import PathRequest
    return PathRequest(request_id='spectrum-document', source='a', destination='b', bidir=False, trx_type='trx', trx_mode='mode',
                       format='mode', nodes_list=[], loose_list=[], path_bandwidth=100e9, effective_freq_slot=None,
                       f_min=hz(r['fmin']), f_max=hz(r['fmax']), spacing=r['spacing'] * 1e6, baud_rate=r['b'] * 1e6,
                       roll_off=r['ro'] / 1000, tx_osnr=r['txosnr'] / 1e6, power=dbm_to_watt(r['power']),
                       tx_power=dbm_to_watt(r['txpower']), equalization_offset_db=r['offset'] / 1e6,
                       nb_channel=None if r['nch'] == NONE else r['nch'])


@contextlib.contextmanager
def quiet_stderr():
    """libyang writes every validation error on file descriptor 2; the exception carries the same text"""
    saved = os.dup(2)
    null = os.open(os.devnull, os.O_WRONLY)
    try:
        os.dup2(null, 2)
        yield
    finally:
        os.dup2(saved, 2)
        os.close(null)
        os.close(saved)


def load_document(parts, via):
    """the real document stage: the list in memory, or a file under the system temp dir"""
    import gnpy.tools.json_io as jio
    if via == 'mem':
        return jio._spectrum_from_json(parts)
    fd, name = tempfile.mkstemp(prefix='verif-spectrum-', suffix='.json', dir=tempfile.gettempdir())
    try:
        with os.fdopen(fd, 'w') as fh:
            json.dump({'spectrum': parts}, fh)
        with quiet_stderr():
            return jio.load_initial_spectrum(Path(name))
    finally:
        os.unlink(name)


# ---- gnpy -> spec: projection -------------------------------------------------------------------------------------
class _Captured(Exception):
    """carries the SpectralInformation that propagate hands to filter_si"""

    def __init__(self, si):
        super().__init__('captured')
        self.si = si


def _recorder(path, equipment, si):
    raise _Captured(si)


class Projector:
    def __init__(self):
        self.inexact = []
        self.power_dev = 0.0          # worst distance of an observed power from the micro-dBm raster, in micro-dB

    def q(self, name, x, unit):
        v = float(x) / unit if unit >= 1 else float(x) * round(1 / unit)
        r = round(v)
        if abs(v - r) > 1e-6:
            self.inexact.append(name)
        return r

    def freq(self, f_hz):
        return self.q('f', f_hz, 1e6) - F0_MHZ

    def udbm(self, watt):
        if not watt > 0:
            return -INF
        v = (10 * math.log10(watt) + 30) * 1e6
        self.power_dev = max(self.power_dev, abs(v - round(v)))
        return round(v)

    def carriers(self, spectrum):
        """the dict of Carriers in its own (insertion) order"""
        q = self.q
        return [dict(f=self.freq(f), w=q('w', c.slot_width, 1e6), b=q('b', c.baud_rate, 1e6), ro=q('ro', c.roll_off, 1e-3),
                     dp=q('dp', c.delta_pdb, 1e-6), osnr=q('osnr', c.tx_osnr, 1e-6), txp=self.udbm(c.tx_power),
                     label=str(c.label)) for f, c in spectrum.items()]

    def spec(self, si):
        """the arrays of the SpectralInformation, channel by channel"""
        q = self.q
        n = si.number_of_channels
        cols = (si.frequency, si.slot_width, si.baud_rate, si.roll_off, si.delta_pdb_per_channel, si.tx_osnr, si.tx_power,
                si.pch, si.label)
        if any(len(col) != n for col in cols):
            raise Machinery(f'SpectralInformation arrays of different lengths: {[len(col) for col in cols]}')
        return [dict(f=self.freq(si.frequency[k]), w=q('w', si.slot_width[k], 1e6), b=q('b', si.baud_rate[k], 1e6),
                     ro=q('ro', si.roll_off[k], 1e-3), dp=q('dp', si.delta_pdb_per_channel[k], 1e-6),
                     osnr=q('osnr', si.tx_osnr[k], 1e-6), txp=self.udbm(si.tx_power[k]), pch=self.udbm(si.pch[k]),
                     label=str(si.label[k])) for k in range(n)]


def project_exception(ex, stage, carriers):
    text = str(ex)
    if type(ex).__module__.startswith('oopt_gnpy_libyang'):
        stage = 'schema'
        rules = sorted({r for pat, r in SCHEMA_TEXT if pat in text}) or ['other']
    else:
        rules = [next((r for pat, r in RULE_TEXT if pat in text), 'other')]
    return dict(status='error', stage=stage, kind=type(ex).__name__, rules=rules, carriers=carriers, spec=[])


def observe(c, proj):
    """run the real stages on one case; -> (observed outcome in the model's shape, the concrete input)"""
    import gnpy.topology.request as R
    req = path_request(c['req'])
    carriers = []
    concrete = None
    if c['kind'] == 'doc':
        concrete = [partition_dict(p) for p in c['parts']]
        try:
            spectrum = load_document([dict(p) for p in concrete], c['via'])
        except Exception as ex:                                                       # noqa: any exception is an observation
            return project_exception(ex, 'document', []), concrete
        carriers = proj.carriers(spectrum)
        req.initial_spectrum = spectrum
    try:
        R.propagate([], req, None)
    except _Captured as cap:
        return dict(status='ok', stage='launched', kind='-', rules=[], carriers=carriers, spec=proj.spec(cap.si)), concrete
    except Exception as ex:                                                           # noqa: any exception is an observation
        return project_exception(ex, 'launch', carriers), concrete
    raise Machinery('propagate returned without handing a SpectralInformation to filter_si')


def expected(e):
    """TLC's record as Python prints it: a set is an array in any order, an empty sequence an empty array"""
    return dict(status=e['status'], stage=e['stage'], kind=e['kind'], rules=sorted(e['rules']),
                carriers=list(e['carriers']), spec=list(e['spec']))


def input_class(c):
    if c['kind'] == 'comb':
        r = c['req']
        span = r['fmax'] - r['fmin']
        return 'comb-' + ('fmax-below-fmin' if span < 0 else 'empty' if span < r['spacing'] else
                          'exact-fit' if span % r['spacing'] == 0 else 'with-rest')
    parts = c['parts']
    flags = [f'{len(parts)}part']
    if any(p['fmax'] < p['fmin'] for p in parts):
        flags.append('empty-partition')
    if len({p['fmin'] for p in parts}) < len(parts):
        flags.append('same-fmin')
    if [p['fmin'] for p in parts] != sorted(p['fmin'] for p in parts):
        flags.append('unsorted')
    return f"doc-{c['via']}-" + '-'.join(flags)


def _rows_diff(name, exp, got):
    if len(exp) != len(got):
        return [f'{name}.count']
    return sorted({f'{name}.{k}' for a, b in zip(exp, got) for k in set(a) | set(b) if a.get(k) != b.get(k)})


def mismatch(e, got):
    """signature part naming what differs (the verdict itself is plain equality with TLC's expectation)"""
    def where(o):
        return f"{o['kind']}-{'+'.join(o['rules'])}@{o['stage']}"
    if e['status'] != got['status']:
        return f'raises-{where(got)}' if e['status'] == 'ok' else f'accepts-{where(e)}'
    if e['status'] == 'error' and where(e) != where(got):
        return f'{where(e)}-reported-as-{where(got)}'
    diff = _rows_diff('carriers', e['carriers'], got['carriers']) + _rows_diff('spec', e['spec'], got['spec'])
    return '+'.join(diff + (['inexact'] if 'inexact' in got else [])) or 'other'


# ---- the part -----------------------------------------------------------------------------------------------------
def run_part(chk):
    import gnpy.topology.request as R
    # function-shaped, depth 1: one worker is the fastest (the initial states are computed by one thread anyway)
    r = tlc.run('MC_SpectrumDocument', timeout=600, workers=1, tag='spectrum-document')
    chk.add_mc('MC_SpectrumDocument (lemmas on every document / request of the vocabulary + cases emitted)', r)
    cases = [x for x in r.emitted if 'c' in x]
    if not cases or len(cases) != r.distinct:
        raise Machinery(f'MC_SpectrumDocument: {len(cases)} cases for {r.distinct} states')
    proj = Projector()
    n = 0
    kinds = {}
    real_filter = R.filter_si
    R.filter_si = _recorder
    try:
        for x in cases:
            c, e = x['c'], expected(x['e'])
            proj.inexact = []
            got, concrete = observe(c, proj)
            if proj.inexact:
                got['inexact'] = sorted(set(proj.inexact))
            chk.case(('spectrum-document', json.dumps(c, sort_keys=True)))
            n += 1
            what = f"{c['kind']}-{c['via']}:" + ('launched' if e['status'] == 'ok' else '+'.join(e['rules']) + '@' + e['stage'])
            kinds[what] = kinds.get(what, 0) + 1
            if got != e:
                chk.violation(f'B2|SpectrumDocument|{mismatch(e, got)}|{input_class(c)}',
                              dict(case=c, expected=e, observed=got, document=concrete))
            elif c['kind'] == 'doc' and e['status'] == 'ok' and len(c['parts']) == 3 and 'unsorted' in input_class(c):
                chk.sample(dict(kind='B2 spectrum document launched by propagate as SpectrumDocument.tla expects',
                                document=concrete, launched=e['spec']), limit=2)
    finally:
        R.filter_si = real_filter
    chk.traces += n
    chk.cov['spectrum_document_cases'] = n
    chk.cov['spectrum_document_outcomes'] = dict(sorted(kinds.items()))
    chk.cov['spectrum_document_file_cases'] = sum(1 for x in cases if x['c']['via'] == 'file')
    chk.cov['spectrum_document_power_tolerance_udB'] = 0.5
    chk.cov['spectrum_document_power_worst_deviation_udB'] = proj.power_dev
    chk.assume('spectrum document: 1-3 partitions drawn (with repetition, in any order) from 16 shapes in a 0.5 THz window above '
               '193.1 THz, f_min / f_max on the 12.5 GHz raster, slot widths 37.5 / 50 / 75 GHz, baud rates 32 / 37.5 / 50 / 64 / '
               '75 GHz; the mandatory keys are always there, an optional key is given or left out (never null); the file path is '
               'exercised on a sample (every single partition, the pairs of 8 shapes, the triples of 3); the empty document and '
               'a slot width <= 0 are not modelled')
    chk.assume('uniform comb: requests with baud rate, roll-off, tx_osnr, tx_power and equalisation offset all set; spacings '
               '37.5 / 50 / 75 GHz; f_max - f_min from -62.5 to 300 GHz; the launch is observed at the call of filter_si inside the '
               'real propagate (filter_si and the path are ChannelSet.tla\'s)')
    chk.assume('spectrum document: frequencies, widths and baud rates are whole MHz that are exact in doubles (sums and products '
               'formed by numpy.arange and the comb stay integers of Hz below 2^53; a non-integer observation is flagged); powers '
               'are compared in micro-dBm after round() of 10 log10(W) + 30 (tolerance 0.5 micro-dB; the worst measured distance '
               'from the raster is recorded); the rule that refused is read from the exception text, the schema stage from the '
               'exception coming from oopt_gnpy_libyang')
    return n


# ---- mutants: realistic slips in the anchored code that the repository's tests do not notice -------------------------
def _rewrite(module, fname, *pairs):
    """re-define module.fname from its source with every (old, new) of `pairs` replaced (each old exactly once)"""
    import inspect
    import textwrap
    src = textwrap.dedent(inspect.getsource(getattr(module, fname)))
    for old, new in pairs:
        if src.count(old) != 1:
            raise Machinery(f'mutant: pattern {old!r} found {src.count(old)} time(s) in {fname}, expected 1')
        src = src.replace(old, new)
    ns = {}
    exec(compile(src, f'<mutant {fname}>', 'exec'), module.__dict__, ns)
    setattr(module, fname, ns[fname])


def _mut_first_carrier_half_slot_up():
    """the first carrier of a partition sits half a slot above f_min (f_min read as the partition's lower edge)"""
    import gnpy.tools.json_io as jio
    _rewrite(jio, '_spectrum_from_json', ("in arange(part['f_min'],", "in arange(part['f_min'] + part['slot_width'] / 2,"))


def _mut_count_without_plus_one():
    """the fence-post slip: one carrier less per partition"""
    import gnpy.tools.json_io as jio
    _rewrite(jio, '_spectrum_from_json',
             ("// part['slot_width'] + 1) * part['slot_width']", "// part['slot_width']) * part['slot_width']"))


def _mut_overlap_compares_centres():
    """the overlap test between partitions compares carrier centres instead of slot edges"""
    import gnpy.tools.json_io as jio
    _rewrite(jio, '_spectrum_from_json',
             ("if previous_part_max_freq > (part['f_min'] - part['slot_width'] / 2):", "if previous_part_max_freq > part['f_min']:"),
             ("previous_part_max_freq = current_freq + part['slot_width'] / 2", 'previous_part_max_freq = current_freq'))


def _mut_default_tx_osnr_from_previous_partition():
    """the default tx_osnr is looked up in the partition before (a defaults dict shared between partitions)"""
    import gnpy.tools.json_io as jio
    _rewrite(jio, '_spectrum_from_json',
             ("part.setdefault('tx_osnr', 40)", "part.setdefault('tx_osnr', json_data[index - 1].get('tx_osnr', 40) if index else 40)"))


def _mut_labels_numbered_before_sorting():
    """the made-up labels carry the position in the document instead of the rank in frequency"""
    import gnpy.tools.json_io as jio
    _rewrite(jio, '_spectrum_from_json',
             ("    json_data = sorted(json_data, key=lambda x: x['f_min'])\n",
              "    for index, part in enumerate(json_data):\n"
              "        part.setdefault('label', f'{index}-{part[\"baud_rate\"] * 1e-9:.2f}G')\n"
              "    json_data = sorted(json_data, key=lambda x: x['f_min'])\n"))


def _mut_comb_starts_at_fmin():
    """the uniform comb starts at f_min like a partition does, instead of one spacing above"""
    import gnpy.core.info as info
    import gnpy.topology.request as R
    _rewrite(info, 'create_input_spectral_information',
             ('for i in range(1, number_of_channels + 1)]', 'for i in range(number_of_channels)]'))
    R.create_input_spectral_information = info.create_input_spectral_information


MUTANTS = {'first_carrier_half_slot_up': _mut_first_carrier_half_slot_up,
           'count_without_plus_one': _mut_count_without_plus_one,
           'overlap_compares_centres': _mut_overlap_compares_centres,
           'default_tx_osnr_from_previous_partition': _mut_default_tx_osnr_from_previous_partition,
           'labels_numbered_before_sorting': _mut_labels_numbered_before_sorting,
           'comb_starts_at_fmin': _mut_comb_starts_at_fmin}


def main(argv=None):
    import argparse
    import time
    ap = argparse.ArgumentParser(description='spectrum document part alone, with a throw-away Check')
    ap.add_argument('--mutant', choices=sorted(MUTANTS))
    a = ap.parse_args(argv)
    if a.mutant:
        MUTANTS[a.mutant]()
    chk = Check('C07', tier='quick')
    t0 = time.time()
    n = run_part(chk)
    sigs = {}
    for sig, _ in chk.violations:
        sigs[sig] = sigs.get(sig, 0) + 1
    mc = chk.mc_runs[0]
    print(f'spectrum document{" [mutant " + a.mutant + "]" if a.mutant else ""}: cases={n} TLC states={mc["distinct"]} '
          f'TLC wall={mc["wall"]}s total wall={time.time() - t0:.1f}s violations={len(chk.violations)} '
          f'signatures={len(sigs)} worst power deviation={chk.cov["spectrum_document_power_worst_deviation_udB"]:.2e} micro-dB')
    for sig, k in list(sigs.items())[:5]:
        print(f'  {sig}  ({k} case(s))')
    return 1 if chk.violations else 0


if __name__ == '__main__':
    raise SystemExit(main())
