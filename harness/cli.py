"""command line: verif check <ID> [--tier T] [--replay F]; verif selftest <ID>; verif all"""
import argparse
import importlib
import logging
import os
import subprocess
import sys

from harness.core import Check, main_wrapper, ROOT


def run_check(pid, tier, replay=None):
    logging.disable(logging.CRITICAL)
    mod = importlib.import_module(f'harness.checks.{pid.lower()}')
    chk = Check(pid, tier=tier, replay=replay)

    def body():
        if chk.mutant and not chk.mutant.startswith('seed-'):
            mod.MUTANTS[chk.mutant]()
        mod.run(chk)
        return chk.finish()
    return main_wrapper(body, pid)


def selftest(pid, only=None):
    """every in-process mutant of the anchored code must be detected (exit 1) by the quick check"""
    mod = importlib.import_module(f'harness.checks.{pid.lower()}')
    bad = 0
    for name in mod.MUTANTS:
        if only and name != only:
            continue
        env = dict(os.environ, VERIF_MUTANT=name)
        p = subprocess.run([sys.executable, '-m', 'harness.cli', 'check', pid, '--tier', 'quick'], env=env,
                           capture_output=True, text=True, cwd=ROOT)
        ok = p.returncode == 1 and 'VIOLATION' in p.stdout
        print(f'selftest {pid} mutant={name}: {"killed" if ok else "SURVIVED (exit %d)" % p.returncode}')
        if not ok:
            bad += 1
            print(p.stdout[-800:], p.stderr[-800:])
    return 1 if bad else 0


def main():
    ap = argparse.ArgumentParser()
    ap.add_argument('cmd', choices=['check', 'selftest', 'all'])
    ap.add_argument('pid', nargs='?')
    ap.add_argument('--tier', default=os.environ.get('VERIF_TIER', 'quick'), choices=['quick', 'thorough'])
    ap.add_argument('--replay')
    ap.add_argument('--mutant')
    a = ap.parse_args()
    if a.cmd == 'check':
        sys.exit(run_check(a.pid, a.tier, a.replay))
    if a.cmd == 'selftest':
        sys.exit(selftest(a.pid, a.mutant))
    if a.cmd == 'all':
        import json
        man = json.loads((ROOT / 'MANIFEST.json').read_text())
        rc = 0
        for c in man['checks']:
            p = subprocess.run([sys.executable, '-m', 'harness.cli', 'check', c['property_id'], '--tier', a.tier],
                               cwd=ROOT)
            rc = max(rc, p.returncode)
        sys.exit(rc)


if __name__ == '__main__':
    main()
