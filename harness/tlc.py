"""TLC runner: runs a TLA+ module with a cfg under /verif/build, parses counts, errors and emitted lines.

Every TLC call is made in a private work directory holding copies of the /verif/spec modules plus whatever
module/cfg text the caller generated; the metadir lives there too and the directory is removed afterwards.
"""
import json
import os
import re
import shutil
import subprocess
import tempfile
import time
from pathlib import Path

ROOT = Path(__file__).resolve().parent.parent
SPEC = ROOT / 'spec'
BUILD = ROOT / 'build'
JAR = '/opt/veriftools/tla/tla2tools.jar:/opt/veriftools/tla/CommunityModules-deps.jar'
EMIT_PREFIX = '@@'


class TlcError(Exception):
    """machinery failure (parse error, TLC crash, timeout)"""


class TlcResult:
    def __init__(self):
        self.generated = 0
        self.distinct = 0
        self.depth = 0
        self.ok = False             # finished without error
        self.violated = None        # name of violated invariant / property
        self.error = None
        self.emitted = []           # decoded JSON objects from PrintT("@@" \o ToJson(x))
        self.wall = 0.0
        self.out = ''
        self.coverage = {}          # action name -> (count distinct, count total)

    def as_dict(self):
        return dict(generated=self.generated, distinct=self.distinct, depth=self.depth, ok=self.ok,
                    violated=self.violated, wall=round(self.wall, 2))


_RE_COUNTS = re.compile(r'^(\d+) states generated, (\d+) distinct states found, (\d+) states left on queue')
_RE_DEPTH = re.compile(r'^The depth of the complete state graph search is (\d+)')
_RE_INV = re.compile(r'^Error: Invariant (\S+) is violated')
_RE_PROP = re.compile(r'^Error: Action property (\S+) is violated')
_RE_COV = re.compile(r'^<(\w+) line \d+, col \d+ to line \d+, col \d+ of module (\w+)>: (\d+):(\d+)')


def _decode_emit(line):
    """a line printed by PrintT(\"@@\" \\o ToJson(v)) is a TLA+ string literal: "@@{...}" with \\" and \\\\ escapes"""
    s = line.strip()
    if not (s.startswith('"' + EMIT_PREFIX) and s.endswith('"')):
        return None
    body = s[1:-1]
    # TLC prints strings with backslash-escapes for quote and backslash only
    out = []
    i = 0
    while i < len(body):
        c = body[i]
        if c == '\\' and i + 1 < len(body):
            n = body[i + 1]
            if n == 'n':
                out.append('\n')
            elif n == 't':
                out.append('\t')
            else:
                out.append(n)
            i += 2
        else:
            out.append(c)
            i += 1
    txt = ''.join(out)[len(EMIT_PREFIX):]
    return json.loads(txt)


def run(module, cfg_text=None, cfg_file=None, extra_modules=None, workers=None, timeout=600, simulate=None,
        depth=None, seed=None, env=None, coverage=False, keep=False, tag=None, extra_files=None, deadlock=False,
        heap='8g', on_emit=None):
    """Run TLC on spec/<module>.tla (or a generated module given in extra_modules) and return a TlcResult.

    extra_modules: {name: text} written next to the copied spec modules (MC wrappers, trace modules with data)
    extra_files:   {filename: text-or-bytes} (trace files)
    simulate:      'num=N' style string for -simulate
    """
    if workers is None:
        workers = int(os.environ.get('VERIF_TLC_WORKERS', '16'))
    BUILD.mkdir(exist_ok=True)
    wd = Path(tempfile.mkdtemp(prefix=f'tlc-{tag or module}-', dir=BUILD))
    try:
        for f in SPEC.glob('*.tla'):
            shutil.copy(f, wd / f.name)
        for name, text in (extra_modules or {}).items():
            (wd / f'{name}.tla').write_text(text)
        for name, data in (extra_files or {}).items():
            mode = 'wb' if isinstance(data, bytes) else 'w'
            with open(wd / name, mode) as fh:
                fh.write(data)
        if cfg_text is not None:
            (wd / f'{module}.cfg').write_text(cfg_text)
        elif cfg_file is not None:
            shutil.copy(SPEC / cfg_file, wd / f'{module}.cfg')
        elif (SPEC / f'{module}.cfg').exists():
            shutil.copy(SPEC / f'{module}.cfg', wd / f'{module}.cfg')
        cmd = ['java', '-XX:+UseParallelGC', f'-Xmx{heap}', '-cp', JAR, 'tlc2.TLC', '-workers', str(workers),
               '-metadir', str(wd / 'meta'), '-noGenerateSpecTE', '-config', f'{module}.cfg']
        if not deadlock:
            cmd.append('-deadlock')
        if coverage:
            cmd += ['-coverage', '1']
        if simulate:
            cmd += ['-simulate', simulate]
        if depth:
            cmd += ['-depth', str(depth)]
        if seed is not None:
            cmd += ['-seed', str(seed)]
        cmd.append(f'{module}.tla')
        e = dict(os.environ)
        e.update(env or {})
        t0 = time.time()
        res = TlcResult()
        try:
            p = subprocess.run(cmd, cwd=wd, env=e, capture_output=True, text=True, timeout=timeout)
        except subprocess.TimeoutExpired as ex:
            subprocess.run(['pkill', '-f', str(wd)], check=False)
            raise TlcError(f'TLC timeout after {timeout}s on {module}') from ex
        res.wall = time.time() - t0
        res.out = p.stdout + p.stderr
        for line in p.stdout.splitlines():
            if line.startswith('"' + EMIT_PREFIX):
                try:
                    obj = _decode_emit(line)
                except Exception as ex:                                   # pragma: no cover
                    raise TlcError(f'cannot decode emitted line: {line[:200]}') from ex
                if obj is not None:
                    if on_emit:
                        on_emit(obj)
                    else:
                        res.emitted.append(obj)
                continue
            m = _RE_COUNTS.match(line)
            if m:
                res.generated, res.distinct = int(m.group(1)), int(m.group(2))
                continue
            m = _RE_DEPTH.match(line)
            if m:
                res.depth = int(m.group(1))
                continue
            m = _RE_INV.match(line) or _RE_PROP.match(line)
            if m:
                res.violated = m.group(1).rstrip('.')
                continue
            m = _RE_COV.match(line)
            if m:
                res.coverage[m.group(1)] = (int(m.group(3)), int(m.group(4)))
                continue
            if line.startswith('Error:') and res.error is None and 'is violated' not in line:
                res.error = line
        finished = 'Model checking completed. No error has been found.' in p.stdout or \
                   (simulate and 'Finished' in p.stdout)
        res.ok = bool(finished) and res.violated is None and res.error is None
        if not res.ok and res.violated is None and res.error is None:
            res.error = 'TLC did not finish: ' + (p.stdout[-1500:] + p.stderr[-500:])
        if res.error and res.violated is None:
            # keep the tail for diagnosis
            res.error = res.error + '\n' + '\n'.join(p.stdout.splitlines()[-40:])
        return res
    finally:
        if not keep:
            shutil.rmtree(wd, ignore_errors=True)


def sany(module):
    p = subprocess.run(['java', '-cp', JAR, 'tla2sany.SANY', f'{module}.tla'], cwd=SPEC, capture_output=True, text=True)
    return p.returncode == 0 and 'Semantic errors' not in p.stdout and 'Parse Error' not in p.stdout, p.stdout


def tla_value(v):
    """Python value -> TLA+ expression text (ints, bools, strings, lists -> sequences, dicts -> records,
    sets/frozensets -> sets)."""
    if isinstance(v, bool):
        return 'TRUE' if v else 'FALSE'
    if isinstance(v, int):
        return str(v) if v >= 0 else f'(0 - {-v})'
    if isinstance(v, str):
        return json.dumps(v)
    if isinstance(v, (list, tuple)):
        return '<<' + ', '.join(tla_value(x) for x in v) + '>>'
    if isinstance(v, (set, frozenset)):
        return '{' + ', '.join(tla_value(x) for x in sorted(v, key=repr)) + '}'
    if isinstance(v, dict):
        if not v:
            return '<<>>'
        return '[' + ', '.join(f'{k} |-> {tla_value(x)}' for k, x in v.items()) + ']'
    raise TypeError(f'cannot render {type(v)} as TLA+: {v!r}')
