"""Pipeline composition (spec/Gnpy.tla): record one event per completed stage of a real Load -> Design -> BuildOms ->
planning() run and let Trace_Gnpy judge the cross-cutting clauses (which stage may change what)."""
import json
import zlib

from harness import tlc
from harness.core import Machinery


def digest(obj):
    return zlib.crc32(json.dumps(obj, sort_keys=True, default=str).encode()) & 0x7fffffff


def sim_digest():
    from gnpy.core.parameters import SimParams
    s = SimParams()
    try:
        d = s.to_json()
    except Exception:                                           # noqa
        d = {k: repr(v) for k, v in vars(type(s)).items() if k.startswith('_shared')}
    return digest(d)


def library_digest(eq):
    """what a planning run has no business changing in the equipment library: transceiver modes, SI, Span and ROADM defaults"""
    d = {}
    for t, trx in sorted(eq.get('Transceiver', {}).items()):
        d[f'trx:{t}'] = dict(mode=trx.mode, frequency=getattr(trx, 'frequency', None))
    for k in ('SI', 'Span', 'Roadm'):
        for name, obj in sorted(eq.get(k, {}).items()):
            d[f'{k}:{name}'] = {a: v for a, v in sorted(vars(obj).items()) if isinstance(v, (int, float, str, list, dict, bool, type(None)))}
    return digest(d)


def record_run(name, load_net, eq, services):
    """load_net() -> fresh undesigned network; services: service JSON dict"""
    import gnpy.tools.worker_utils as wu
    from gnpy.tools.json_io import network_to_json
    from gnpy.topology.spectrum_assignment import BitmapValue, build_path_oms_id_list
    events = []
    ctx = dict(net=None, oms=None, rqs=None, pths=None, prop=None, rpths=None, base_occ=0, nres=0)

    def occ_total():
        if not ctx['oms']:
            return 0
        return sum(1 for o in ctx['oms'] for v in o.spectrum_bitmap.bitmap if v is BitmapValue.OCCUPIED) - ctx['base_occ']

    def reqs():
        out = []
        for k, rq in enumerate(ctx['rqs'] or []):
            pth = ctx['pths'][k] if ctx['pths'] is not None else None
            prop = ctx['prop'][k] if ctx['prop'] is not None else []
            blocked = getattr(rq, 'blocking_reason', '') or ''
            n = getattr(rq, 'N', None)
            m = getattr(rq, 'M', None)
            labels = 0
            holds = 0
            assigned = ctx.get('assigned', False)
            if assigned and n is not None and m is not None and None not in list(n) + list(m):
                labels = len(n)
                if pth:
                    rp = ctx['rpths'][k] if ctx['rpths'] is not None else []
                    holds = len(build_path_oms_id_list(pth + rp)) * sum(2 * x for x in m)
            out.append(dict(id=str(rq.request_id), routed=bool(pth), propagated=bool(prop), blocked=blocked,
                            holds=holds, labels=labels))
        return out

    def emit(ev):
        omsd = digest([(o.oms_id, [e.uid for e in o.el_list], list(o.el_id_list)) for o in ctx['oms']]) if ctx['oms'] else 0
        events.append(dict(ev=ev, settings=digest(network_to_json(ctx['net'])) if ctx['net'] is not None else 0,
                           sim=sim_digest(), occ=occ_total(), req=reqs(), nres=ctx['nres'], omsd=omsd, lib=library_digest(eq)))

    net = load_net()
    ctx['net'] = net
    emit('Load')
    net, _, _ = wu.designed_network(eq, net)
    ctx['net'] = net
    emit('Design')
    saved = {}

    def wrap(fname, after):
        orig = getattr(wu, fname)
        saved[fname] = orig

        def w(*a, **k):
            res = orig(*a, **k)
            after(res, a, k)
            return res
        setattr(wu, fname, w)

    def a_oms(res, a, k):
        ctx['oms'] = res
        ctx['base_occ'] = sum(1 for o in res for v in o.spectrum_bitmap.bitmap if v is BitmapValue.OCCUPIED)
        emit('BuildOms')

    def a_agg(res, a, k):
        ctx['rqs'] = res[0]
        emit('Aggregate')

    def a_route(res, a, k):
        ctx['rqs'] = a[2]
        ctx['pths'] = res
        emit('Route')

    def a_prop(res, a, k):
        ctx['prop'], ctx['rpths'] = res[0], res[1]
        emit('Propagate')

    def a_assign(res, a, k):
        ctx['assigned'] = True
        emit('Assign')
    wrap('build_oms_list', a_oms)
    wrap('requests_aggregation', a_agg)
    wrap('compute_path_dsjctn', a_route)
    wrap('compute_path_with_disjunction', a_prop)
    wrap('pth_assign_spectrum', a_assign)
    try:
        out = wu.planning(net, eq, services)
        ctx['nres'] = len(out[5])
        emit('Report')
    finally:
        for f, o in saved.items():
            setattr(wu, f, o)
    return dict(name=name, ev=events)


def judge(traces, chk, kind='pipeline'):
    data = '\n'.join(json.dumps(t) for t in traces) + '\n'
    res = tlc.run('Trace_Gnpy', extra_files={'trace.ndjson': data}, env={'TRACE_FILE': 'trace.ndjson'}, workers=1,
                  timeout=900, tag='gnpy-trace')
    if not res.ok:
        raise Machinery(f'Trace_Gnpy failed: {res.error or res.violated}\n{res.out[-2000:]}')
    chk.states += res.distinct
    chk.transitions += res.generated
    verdicts = {v['name']: v for v in res.emitted}
    ok = 0
    for t in traces:
        v = verdicts.get(t['name'])
        if v is None or v['n'] != len(t['ev']):
            raise Machinery(f'Trace_Gnpy: no complete verdict for {t["name"]}')
        if v['viol']:
            for step, clause in v['viol']:
                chk.violation(f'{kind}|{clause}|after-{t["ev"][step - 1]["ev"]}',
                              dict(trace=t['name'], step=step, clause=clause, event=t['ev'][step - 1]))
        else:
            ok += 1
    return ok


# ----------------------------------------------------------------------------- sessions: several runs in one process
def _run_result(eqf, netf, services, extra=()):
    """fresh load + design + planning; per-request CRC of the reported result"""
    from gnpy.tools.json_io import load_equipments_and_configs, load_network
    from gnpy.tools.worker_utils import designed_network, planning
    from harness.gnpy_util import EX
    eq = load_equipments_and_configs(EX / eqf, list(extra), [])
    net = load_network(EX / netf, eq)
    net, _, _ = designed_network(eq, net)
    out = planning(net, eq, services)
    return [[str(r.path_id), digest(r.json)] for r in out[5]]


def _simple_services(pairs, trx_type, mode, tag):
    return {'path-request': [
        {'request-id': f'{tag}{k}', 'source': s, 'destination': d, 'src-tp-id': s, 'dst-tp-id': d, 'bidirectional': bool(k % 2),
         'path-constraints': {'te-bandwidth': {'technology': 'flexi-grid', 'trx_type': trx_type, 'trx_mode': mode,
                                               'spacing': 50e9, 'path_bandwidth': 100e9}}}
        for k, (s, d) in enumerate(pairs)]}


def record_session(name, tier='quick'):
    """A, B, A again (and B again in the thorough tier), each from freshly loaded files in ONE process: whatever a run leaves
    behind in the process (module-level caches, memoised loaders, class attributes, SimParams) must not reach the next one"""
    from gnpy.tools.json_io import load_json
    from harness.gnpy_util import EX
    shipped = load_json(EX / 'meshTopologyExampleV2_services.json')
    keep = None
    a_serv = {'path-request': [r for r in shipped['path-request'] if keep is None or str(r['request-id']) in keep],
              'synchronization': [s for s in shipped.get('synchronization', [])
                                  if keep is None or set(map(str, s['svec']['request-id-number'])) <= keep]}
    b_serv = _simple_services([('trx Site_A', 'trx Site_D'), ('trx Site_D', 'trx Site_A'), ('trx Site_G', 'trx Site_L')],
                              'Voyager', 'mode 1', 'mb')
    x_serv = _simple_services([('trx Lannion_CAS', 'trx Brest_KLA'), ('trx Vannes_KBE', 'trx Lorient_KMA'),
                               ('trx Brest_KLA', 'trx Rennes_STA')], 'vendorA_trx-type1', 'mode 1', 'x')
    specs = [('A', ('eqpt_config.json', 'meshTopologyExampleV2.json', a_serv)),
             ('B', ('eqpt_config_multiband.json', 'multiband_example_network.json', b_serv)),
             ('X', ('eqpt_config.json', 'meshTopologyExampleV2.xls', x_serv)),
             ('A', ('eqpt_config.json', 'meshTopologyExampleV2.json', a_serv)),
             ('B', ('eqpt_config_multiband.json', 'multiband_example_network.json', b_serv))]
    if tier != 'quick':
        specs += [specs[2], specs[0]]
    import copy
    runs = []
    for inp, (eqf, netf, serv) in specs:
        runs.append(dict(input=inp, res=_run_result(eqf, netf, copy.deepcopy(serv))))
    return dict(name=name, runs=runs)


def judge_sessions(sessions, chk, kind='pipeline'):
    data = '\n'.join(json.dumps(s) for s in sessions) + '\n'
    res = tlc.run('Trace_Session', extra_files={'trace.ndjson': data}, env={'TRACE_FILE': 'trace.ndjson'}, workers=1,
                  timeout=600, tag='session-trace')
    if not res.ok:
        raise Machinery(f'Trace_Session failed: {res.error or res.violated}\n{res.out[-2000:]}')
    chk.states += res.distinct
    chk.transitions += res.generated
    verdicts = {v['name']: v for v in res.emitted}
    ok = 0
    for s in sessions:
        v = verdicts.get(s['name'])
        if v is None:
            raise Machinery(f'Trace_Session: no verdict for {s["name"]}')
        if v['viol']:
            for clause in v['viol']:
                chk.violation(f'{kind}|{clause}', dict(session=s['name'], runs=s['runs']))
        else:
            ok += 1
    return ok
