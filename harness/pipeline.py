"""Pipeline composition (spec/Gnpy.tla): record one event per completed stage of a real Load -> Design -> BuildOms ->
planning() run and let Trace_Gnpy judge the cross-cutting clauses (which stage may change what)."""
import json
import zlib

from harness import tlc
from harness.core import Machinery


def digest(obj):
    return zlib.crc32(json.dumps(obj, sort_keys=True, default=str).encode()) & 0x7fffffff


def sim_digest():
    from gnpy.core.parameters import SimParams
    s = SimParams()
    try:
        d = s.to_json()
    except Exception:                                           # noqa
        d = {k: repr(v) for k, v in vars(type(s)).items() if k.startswith('_shared')}
    return digest(d)


def library_digest(eq):
    """what a planning run has no business changing in the equipment library: transceiver modes, SI, Span and ROADM defaults"""
    d = {}
    for t, trx in sorted(eq.get('Transceiver', {}).items()):
        d[f'trx:{t}'] = dict(mode=trx.mode, frequency=getattr(trx, 'frequency', None))
    for k in ('SI', 'Span', 'Roadm'):
        for name, obj in sorted(eq.get(k, {}).items()):
            d[f'{k}:{name}'] = {a: v for a, v in sorted(vars(obj).items()) if isinstance(v, (int, float, str, list, dict, bool, type(None)))}
    return digest(d)


def record_run(name, load_net, eq, services):
    """load_net() -> fresh undesigned network; services: service JSON dict"""
    import gnpy.tools.worker_utils as wu
    from gnpy.tools.json_io import network_to_json
    from gnpy.topology.spectrum_assignment import BitmapValue, build_path_oms_id_list
    events = []
    ctx = dict(net=None, oms=None, rqs=None, pths=None, prop=None, rpths=None, base_occ=0, nres=0)

    def occ_total():
        if not ctx['oms']:
            return 0
        return sum(1 for o in ctx['oms'] for v in o.spectrum_bitmap.bitmap if v is BitmapValue.OCCUPIED) - ctx['base_occ']

    def reqs():
        out = []
        for k, rq in enumerate(ctx['rqs'] or []):
            pth = ctx['pths'][k] if ctx['pths'] is not None else None
            prop = ctx['prop'][k] if ctx['prop'] is not None else []
            blocked = getattr(rq, 'blocking_reason', '') or ''
            n = getattr(rq, 'N', None)
            m = getattr(rq, 'M', None)
            labels = 0
            holds = 0
            assigned = ctx.get('assigned', False)
            if assigned and n is not None and m is not None and None not in list(n) + list(m):
                labels = len(n)
                if pth:
                    rp = ctx['rpths'][k] if ctx['rpths'] is not None else []
                    holds = len(build_path_oms_id_list(pth + rp)) * sum(2 * x for x in m)
            out.append(dict(id=str(rq.request_id), routed=bool(pth), propagated=bool(prop), blocked=blocked,
                            holds=holds, labels=labels))
        return out

    def emit(ev):
        omsd = digest([(o.oms_id, [e.uid for e in o.el_list], list(o.el_id_list)) for o in ctx['oms']]) if ctx['oms'] else 0
        events.append(dict(ev=ev, settings=digest(network_to_json(ctx['net'])) if ctx['net'] is not None else 0,
                           sim=sim_digest(), occ=occ_total(), req=reqs(), nres=ctx['nres'], omsd=omsd, lib=library_digest(eq)))

    net = load_net()
    ctx['net'] = net
    emit('Load')
    net, _, _ = wu.designed_network(eq, net)
    ctx['net'] = net
    emit('Design')
    saved = {}

    def wrap(fname, after):
        orig = getattr(wu, fname)
        saved[fname] = orig

        def w(*a, **k):
            res = orig(*a, **k)
            after(res, a, k)
            return res
        setattr(wu, fname, w)

    def a_oms(res, a, k):
        ctx['oms'] = res
        ctx['base_occ'] = sum(1 for o in res for v in o.spectrum_bitmap.bitmap if v is BitmapValue.OCCUPIED)
        emit('BuildOms')

    def a_agg(res, a, k):
        ctx['rqs'] = res[0]
        emit('Aggregate')

    def a_route(res, a, k):
        ctx['rqs'] = a[2]
        ctx['pths'] = res
        emit('Route')

    def a_prop(res, a, k):
        ctx['prop'], ctx['rpths'] = res[0], res[1]
        emit('Propagate')

    def a_assign(res, a, k):
        ctx['assigned'] = True
        emit('Assign')
    wrap('build_oms_list', a_oms)
    wrap('requests_aggregation', a_agg)
    wrap('compute_path_dsjctn', a_route)
    wrap('compute_path_with_disjunction', a_prop)
    wrap('pth_assign_spectrum', a_assign)
    try:
        out = wu.planning(net, eq, services)
        ctx['nres'] = len(out[5])
        emit('Report')
    finally:
        for f, o in saved.items():
            setattr(wu, f, o)
    return dict(name=name, ev=events)


def judge(traces, chk, kind='pipeline'):
    data = '\n'.join(json.dumps(t) for t in traces) + '\n'
    res = tlc.run('Trace_Gnpy', extra_files={'trace.ndjson': data}, env={'TRACE_FILE': 'trace.ndjson'}, workers=1,
                  timeout=900, tag='gnpy-trace')
    if not res.ok:
        raise Machinery(f'Trace_Gnpy failed: {res.error or res.violated}\n{res.out[-2000:]}')
    chk.states += res.distinct
    chk.transitions += res.generated
    verdicts = {v['name']: v for v in res.emitted}
    ok = 0
    for t in traces:
        v = verdicts.get(t['name'])
        if v is None or v['n'] != len(t['ev']):
            raise Machinery(f'Trace_Gnpy: no complete verdict for {t["name"]}')
        if v['viol']:
            for step, clause in v['viol']:
                chk.violation(f'{kind}|{clause}|after-{t["ev"][step - 1]["ev"]}',
                              dict(trace=t['name'], step=step, clause=clause, event=t['ev'][step - 1]))
        else:
            ok += 1
    return ok
