"""Run-time recorders (no edits to /repo): wrappers installed for the duration of a `with Recording():` block.

Propagation recorder: one event per element crossing (the linearization point of a sequential library is the return of
the public call) carrying the element's class/uid, the primitive bookkeeping operations it applied to the
SpectralInformation (add_ase, add_nli, apply_attenuation_lin, apply_gain_lin, in order) and a raw snapshot of the
spectral information after the crossing.  Nested crossings (Multiband_amplifier calling its Edfa members) are recorded
with depth > 0.  Snapshots hold floats/ndarrays; projection to integers is done by harness.project.
"""
import contextlib

import numpy as np

OPS = ('add_ase', 'add_nli', 'apply_attenuation_lin', 'apply_gain_lin')
SI_FIELDS = ('frequency', 'baud_rate', 'slot_width', 'pch', 'signal', 'ase', 'nli', 'chromatic_dispersion', 'pmd',
             'pdl', 'latency', 'delta_pdb_per_channel', 'tx_osnr', 'tx_power', 'label', 'roll_off')


def snapshot(si):
    d = {k: np.array(getattr(si, k), copy=True) for k in SI_FIELDS}
    d['signal_ratio'] = np.array(si._signal_ratio, copy=True)
    d['ase_ratio'] = np.array(si._ase_ratio, copy=True)
    d['nli_ratio'] = np.array(si._nli_ratio, copy=True)
    with np.errstate(divide='ignore', invalid='ignore'):
        d['osnr_db'] = np.array(si.snr_lin_db, copy=True)
        d['nli_db'] = np.array(si.snr_nli_db, copy=True)
        d['gsnr_db'] = np.array(si.gsnr_db, copy=True)
    return d


class Recording(contextlib.AbstractContextManager):
    """events: list of dict(cls, uid, depth, ops, pre, post, el) in completion order; `pre` is the snapshot taken when
    the element was entered (before it touched the spectral information), `post` after it returned."""

    def __init__(self, keep_element=True, op_args=False):
        self.events = []
        self._saved = []
        self._depth = 0
        self._opstack = []
        self.keep_element = keep_element
        self.op_args = op_args

    def __enter__(self):
        from gnpy.core import elements as E
        from gnpy.core import info as I
        rec = self
        for name in OPS:
            orig = getattr(I.SpectralInformation, name)

            def mk(name, orig):
                def w(si, *a, **k):
                    if rec._opstack:
                        if rec.op_args:
                            rec._opstack[-1].append((name, np.array(a[0], copy=True) if a else None))
                        else:
                            rec._opstack[-1].append(name)
                    return orig(si, *a, **k)
                return w
            self._saved.append((I.SpectralInformation, name, orig))
            setattr(I.SpectralInformation, name, mk(name, orig))
        for cls in (E.Transceiver, E.Roadm, E.Fused, E.Fiber, E.Edfa, E.Multiband_amplifier):
            orig = cls.__dict__['__call__']

            def mkc(cls, orig):
                def w(el, spectral_info, *a, **k):
                    pre = snapshot(spectral_info)
                    rec._opstack.append([])
                    rec._depth += 1
                    try:
                        out = orig(el, spectral_info, *a, **k)
                    finally:
                        rec._depth -= 1
                        ops = rec._opstack.pop()
                    ev = dict(cls=type(el).__name__, uid=el.uid, depth=rec._depth, ops=ops, pre=pre,
                              post=snapshot(out), args=dict(k))
                    if rec.keep_element:
                        ev['el'] = el
                    rec.events.append(ev)
                    return out
                return w
            self._saved.append((cls, '__call__', orig))
            setattr(cls, '__call__', mkc(cls, orig))
        return self

    def __exit__(self, *exc):
        for cls, name, orig in reversed(self._saved):
            setattr(cls, name, orig)
        self._saved = []
        return False

    def take(self):
        ev, self.events = self.events, []
        return ev
