"""Shared helpers for C09 (DesignPower) and C10 (AmpSelection): shipped design corpus, run-time recorders around the
auto-design (no edits to /repo), an independent walk over every designed OMS, integer projections, propagation of the
design load, and the synthetic two-ROADM line used by the TLC-generated cases.

Nothing in this file decides whether the implementation is right: it loads, runs the real code, observes and encodes.
The verdicts are computed by TLC (MC_DesignPower / Trace_DesignPower / MC_AmpSelection / Trace_AmpSelection).
"""
import contextlib
import copy
import json
import logging
import math
from pathlib import Path

from harness.gnpy_util import EX, TD, INF, NONE, udb

logging.disable(logging.CRITICAL)

# ------------------------------------------------------------------------------------------------ shipped corpus
# (name, topology, equipment, extra equipment files, tier)   tier 'quick' entries are also part of 'thorough'
SHIPPED = [
    ('meshV2', EX / 'meshTopologyExampleV2.json', EX / 'eqpt_config.json', (), 'quick'),
    ('edfa_example', EX / 'edfa_example_network.json', EX / 'eqpt_config.json', (), 'quick'),
    ('fused_roadm', EX / 'fused_roadm_example_network.json', EX / 'eqpt_config.json', (), 'quick'),
    ('multiband', EX / 'multiband_example_network.json', EX / 'eqpt_config_multiband.json', (), 'quick'),
    ('swedenV4', EX / 'Sweden_OpenROADMv4_example_network.json', EX / 'eqpt_config_openroadm_ver4.json', (), 'quick'),
    ('swedenV5', EX / 'Sweden_OpenROADMv5_example_network.json', EX / 'eqpt_config_openroadm_ver5.json', (), 'quick'),
    ('td_testTopology', TD / 'testTopology_expected.json', TD / 'eqpt_config.json', (), 'quick'),
    ('td_testTopology_auto', TD / 'testTopology_auto_design_expected.json', TD / 'eqpt_config.json', (), 'quick'),
    ('td_LinkforTest', TD / 'LinkforTest.json', TD / 'eqpt_config.json', (), 'quick'),
    ('td_test_network', TD / 'test_network.json', TD / 'eqpt_config.json', (), 'quick'),
    ('td_long', TD / 'test_long_network.json', TD / 'eqpt_config.json', (), 'quick'),
    ('td_long_psd', TD / 'test_long_network.json', TD / 'eqpt_config_psd.json', (), 'quick'),
    ('td_long_psw', TD / 'test_long_network.json', TD / 'eqpt_config_psw.json', (), 'quick'),
    ('td_testTopology_sweep', TD / 'testTopology_expected.json', TD / 'eqpt_config_sweep.json', (), 'quick'),
    ('td_twohops', TD / 'twohops_roadm_power_test.json', TD / 'eqpt_config.json', (), 'quick'),
    ('td_bugfixiterator', TD / 'bugfixiteratortopo.json', TD / 'eqpt_config.json', (), 'quick'),
    ('td_perdegree_auto', TD / 'perdegreemeshTopologyExampleV2_auto_design_expected.json', TD / 'eqpt_config.json', (),
     'quick'),
    ('raman_edfa_example', EX / 'raman_edfa_example_network.json', EX / 'eqpt_config.json', (), 'quick'),
    ('CORONET_CONUS', EX / 'CORONET_CONUS_Topology.json', EX / 'eqpt_config.json', (), 'thorough'),
    ('CORONET_Global', EX / 'CORONET_Global_Topology.json', EX / 'eqpt_config.json', (), 'thorough'),
    ('td_CORONET_expected', TD / 'CORONET_Global_Topology_expected.json', TD / 'eqpt_config.json', (), 'thorough'),
]


def load_equipment(eqpt, extra=(), power_mode=None, span=None, si=None, edfa_attrs=None):
    """fresh equipment dict (never shared between designs); power_mode / Span / SI attributes optionally overridden;
    edfa_attrs: library options set on every amplifier model (e.g. {'out_voa_auto': True})"""
    from gnpy.tools.json_io import load_equipments_and_configs
    eq = load_equipments_and_configs(Path(eqpt), [Path(p) for p in extra], [])
    sp = eq['Span']['default']
    if power_mode is not None:
        sp.power_mode = bool(power_mode)
    for k, v in (span or {}).items():
        setattr(sp, k, v)
    for k, v in (si or {}).items():
        setattr(eq['SI']['default'], k, v)
    for k, v in (edfa_attrs or {}).items():
        for a in eq['Edfa'].values():
            setattr(a, k, v)
    return eq


def load_topology(path, eq):
    """the shipped file as a network; fused_roadm_example_network.json carries a ROADM 'loss' key that the YANG
    validation of load_network refuses, so that one file is read as plain legacy JSON"""
    from gnpy.tools.json_io import load_network, load_json, network_from_json
    try:
        return load_network(Path(path), eq)
    except Exception as first:                                          # noqa
        try:
            return network_from_json(load_json(Path(path)), eq)
        except Exception:                                               # noqa
            raise first


# ----------------------------------------------------------------------------------------------------- recorders
class DesignRecorder(contextlib.AbstractContextManager):
    """wraps gnpy.core.network.set_one_amplifier / select_edfa / preselect_multiband_amps for the duration of a design.
    The wrappers call the original and log arguments, the amplifier's settings before the call and the result."""

    def __init__(self, net=None, loaded=None):
        """loaded: the recorder of an EARLIER design of the same network objects.  The operator settings of an amplifier
        (u_*) are then the ones that recorder saw when the network had just been loaded - the configuration - and not
        what the amplifier carries when it is designed again (which is the previous design's own output)."""
        from gnpy.core import elements as E
        self.loaded = loaded.amp_calls if loaded is not None else {}
        # multiband type the operator gave each multiband amplifier BEFORE the design (the design overwrites it)
        self.mb_pre = {id(n): (n.params.type_variety or '') for n in (net.nodes() if net is not None else [])
                       if isinstance(n, E.Multiband_amplifier)}
        self.amp_calls = {}       # id(amp object) -> record
        self.select_calls = []    # one per select_edfa call
        self.preselect_calls = []
        self._saved = []
        self._current = None

    def __enter__(self):
        import gnpy.core.network as N
        rec = self

        def w_set_one(node, prev_node, next_node, power_mode, prev_voa, prev_dp, pref_ch_db, pref_total_db, network,
                      restrictions, equipment, verbose, deviation_db=0.0, tilt_target=0.0):
            r = dict(node=node, uid=node.uid, prev=prev_node, next=next_node, power_mode=power_mode,
                     prev_voa=prev_voa, prev_dp=prev_dp, pref_ch_db=pref_ch_db, pref_total_db=pref_total_db,
                     restrictions=list(restrictions or []), deviation_db=float(deviation_db),
                     tilt_target=float(tilt_target),
                     u_gain=node.effective_gain, u_dp=node.operational.delta_p, u_voa=node.out_voa,
                     u_in_voa=node.in_voa, u_variety=node.params.type_variety, select=None)
            first = rec.loaded.get(id(node))
            if first is not None:
                r.update({f: first[f] for f in ('u_gain', 'u_dp', 'u_voa', 'u_in_voa', 'u_variety')}, redesign=True)
            rec._current = r
            try:
                out = orig_set_one(node, prev_node, next_node, power_mode, prev_voa, prev_dp, pref_ch_db,
                                   pref_total_db, network, restrictions, equipment, verbose,
                                   deviation_db=deviation_db, tilt_target=tilt_target)
            finally:
                rec._current = None
            r.update(ret_dp=out[0], ret_voa=out[1], gain=node.effective_gain, dp=node._delta_p, delta_p=node.delta_p,
                     voa=node.out_voa, in_voa=node.in_voa, variety=node.params.type_variety)
            rec.amp_calls[id(node)] = r
            return out

        def w_select(raman_allowed, gain_target, power_target, edfa_eqpt, uid, target_extended_gain, verbose=True):
            s = dict(uid=uid, raman_allowed=bool(raman_allowed), gain_target=float(gain_target),
                     power_target=float(power_target), candidates=list(edfa_eqpt.keys()),
                     ext=float(target_extended_gain), chosen=None, reduction=None, exc=None, ctx=rec._current)
            rec.select_calls.append(s)
            try:
                out = orig_select(raman_allowed, gain_target, power_target, edfa_eqpt, uid, target_extended_gain,
                                  verbose)
            except Exception as e:                                        # noqa
                s['exc'] = f'{type(e).__name__}: {e}'
                raise
            s['chosen'], s['reduction'] = out[0], float(out[1])
            if rec._current is not None:
                rec._current['select'] = s
            return out

        def w_presel(uid, _amplifiers, prev_node, next_node, power_mode, prev_voa, prev_dp, pref_total_db, network,
                     equipment, restrictions, _design_bands, deviation_db, tilt_target):
            out = orig_presel(uid, _amplifiers, prev_node, next_node, power_mode, prev_voa, prev_dp, pref_total_db,
                              network, equipment, restrictions, _design_bands, deviation_db, tilt_target)
            rec.preselect_calls.append(dict(uid=uid, restrictions=list(restrictions), bands=copy.deepcopy(_design_bands),
                                            result=list(out), amps=_amplifiers, prev=prev_node, next=next_node))
            return out

        orig_set_one, orig_select, orig_presel = N.set_one_amplifier, N.select_edfa, N.preselect_multiband_amps
        self._saved = [(N, 'set_one_amplifier', orig_set_one), (N, 'select_edfa', orig_select),
                       (N, 'preselect_multiband_amps', orig_presel)]
        N.set_one_amplifier, N.select_edfa, N.preselect_multiband_amps = w_set_one, w_select, w_presel
        return self

    def __exit__(self, *exc):
        for mod, name, orig in self._saved:
            setattr(mod, name, orig)
        self._saved = []
        return False


def stripped_topology(path):
    """the shipped topology with every amplifier turned into a placeholder (no type_variety, no operational settings):
    auto-design has to select and set every amplifier itself"""
    from gnpy.tools.json_io import load_gnpy_json, load_json
    try:
        data = load_gnpy_json(Path(path))
    except Exception:                                                    # noqa
        data = load_json(Path(path))
    data = copy.deepcopy(data)
    for el in data['elements']:
        if el.get('type') == 'Edfa':
            el.pop('type_variety', None)
            el.pop('operational', None)
    return data


class LoadError(Exception):
    """the shipped files could not be loaded (not a design outcome)"""


def design(topo, eqpt, extra=(), power_mode=None, span=None, si=None, json_data=None, strip=False, edfa_attrs=None,
           lumped=False, args_power=None, roadm_bands=None):
    """load + real designed_network under the recorders -> (network, equipment, reference channel, recorder)"""
    from gnpy.tools.json_io import network_from_json
    from gnpy.tools.worker_utils import designed_network
    try:
        eq = load_equipment(eqpt, extra, power_mode, span, si, edfa_attrs) if not isinstance(eqpt, dict) else eqpt
        if strip:
            json_data = stripped_topology(topo)
        if lumped:
            from gnpy.tools.json_io import load_gnpy_json
            json_data = with_lumped_losses(json_data if json_data is not None else load_gnpy_json(Path(topo)))
        if roadm_bands:
            # every ROADM declares these design bands (their own f_min / f_max / spacing)
            from gnpy.tools.json_io import load_gnpy_json
            json_data = copy.deepcopy(json_data if json_data is not None else load_gnpy_json(Path(topo)))
            for el in json_data['elements']:
                if el.get('type') == 'Roadm':
                    el.setdefault('params', {})['design_bands'] = copy.deepcopy(roadm_bands)
        net = network_from_json(copy.deepcopy(json_data), eq) if json_data is not None else load_topology(topo, eq)
    except Exception as e:                                               # noqa
        raise LoadError(f'{type(e).__name__}: {e}') from e
    with DesignRecorder(net) as rec:
        net, _req, ref = designed_network(eq, net, args_power=args_power)
    rec.req_tx_power_w = getattr(_req, 'tx_power', None)
    return net, eq, ref, rec


# ------------------------------------------------------------------------------------ walking the designed network
def walk_oms(net):
    """every OMS of the designed graph: (ingress ROADM/Transceiver, [elements...], egress ROADM/Transceiver);
    an independent re-implementation of the traversal (successor chain until the next ROADM/Transceiver)"""
    from gnpy.core import elements as E
    for ingress in list(net.nodes()):
        if not isinstance(ingress, (E.Roadm, E.Transceiver)):
            continue
        for head in net.successors(ingress):
            if isinstance(head, E.Transceiver) or (isinstance(ingress, E.Transceiver) and isinstance(head, E.Roadm)):
                continue
            chain, node, guard = [], head, 0
            while not isinstance(node, (E.Roadm, E.Transceiver)):
                chain.append(node)
                succ = list(net.successors(node))
                guard += 1
                if len(succ) != 1 or guard > len(net):
                    node = None
                    break
                node = succ[0]
            if node is not None and chain:
                yield ingress, chain, node


def psd_to_dbm(psd_mw_per_ghz, width_hz):
    return 10 * math.log10(psd_mw_per_ghz * width_hz * 1e-9)


def roadm_ref_target_dbm(roadm, degree, eq):
    """target power of the reference carrier out of a ROADM degree, computed from the element's settings with
    plain unit conversions (per-degree first, then the ROADM-level policy)"""
    si = eq['SI']['default']
    if degree in roadm.per_degree_pch_out_dbm:
        return roadm.per_degree_pch_out_dbm[degree]
    if degree in roadm.per_degree_pch_psd:
        return psd_to_dbm(roadm.per_degree_pch_psd[degree], si.baud_rate)
    if degree in roadm.per_degree_pch_psw:
        return psd_to_dbm(roadm.per_degree_pch_psw[degree], si.spacing)
    p = roadm.params
    if p.target_pch_out_db is not None:
        return p.target_pch_out_db
    if p.target_psd_out_mWperGHz is not None:
        return psd_to_dbm(p.target_psd_out_mWperGHz, si.baud_rate)
    if p.target_out_mWperSlotWidth is not None:
        return psd_to_dbm(p.target_out_mWperSlotWidth, si.spacing)
    return None


def band_name(band):
    from gnpy.core.parameters import find_band_name, FrequencyBand
    return find_band_name(FrequencyBand(f_min=band['f_min'], f_max=band['f_max']))


def nch_of(band, ref):
    """number of channels of the design load in one design band"""
    if getattr(ref, 'nb_channel', None):
        return int(ref.nb_channel)
    return int((band['f_max'] - band['f_min']) // band['spacing'])


def amp_members(el, bname):
    """the single-band amplifier object of element `el` serving design band `bname` (None if el is passive)"""
    from gnpy.core import elements as E
    if isinstance(el, E.Edfa):
        return el
    if isinstance(el, E.Multiband_amplifier):
        return el.amplifiers.get(bname)
    return None


def passive_loss(el):
    """loss in dB the design has to compensate for one passive line element, computed from the element's PARAMETERS
    (what propagation will apply), not read from the element's own `loss` summary: fibre attenuation at the reference
    frequency x length + connectors + input attenuator + every lumped loss inside the fibre; a Fused element's loss.
    A RamanFiber counts with the Raman gain the design estimated for it (element attribute written by the design)."""
    import numpy as np
    from gnpy.core import elements as E
    if isinstance(el, E.Fiber):                                     # RamanFiber is a Fiber
        p = el.params
        coef = np.atleast_1d(np.asarray(p.loss_coef, dtype=float))                      # dB/m
        if coef.size > 1:
            coef_ref = float(np.interp(p.ref_frequency, np.atleast_1d(p.f_loss_ref), coef))
        else:
            coef_ref = float(coef[0])
        lumped = sum(float(x['loss']) for x in (p.lumped_losses if p.lumped_losses is not None and len(p.lumped_losses) else []))
        loss = coef_ref * float(p.length) + float(p.con_in) + float(p.con_out) + float(p.att_in) + lumped
        if isinstance(el, E.RamanFiber):
            loss -= float(getattr(el, 'estimated_gain', 0.0))
        return loss
    if isinstance(el, E.Fused):
        return float(el.params.loss)
    return float(el.loss)


def with_lumped_losses(data, every=2, loss_db=2.0):
    """topology JSON with a lumped loss (splice / tap) put at mid-span inside every `every`-th fibre of at least 10 km"""
    data = copy.deepcopy(data)
    n = 0
    for el in data['elements']:
        if el.get('type') == 'Fiber' and isinstance(el.get('params'), dict) and el['params'].get('length'):
            km = float(el['params']['length']) * (1e-3 if el['params'].get('length_units', 'km') == 'm' else 1.0)
            n += 1
            if km >= 10 and n % every == 0 and not el['params'].get('lumped_losses'):
                el['params']['lumped_losses'] = [{'position': round(km / 2, 3), 'loss': loss_db}]
    return data


NXT_ROADM, NXT_SPAN, NXT_AMP, NXT_OTHER = 0, 1, 2, 3


def exported_settings(a):
    """(gain, dp, voa) of amplifier `a` as the network EXPORTS them (Edfa.to_json, what the tool writes out and what a
    later session loads again): the designed operating point whatever has been propagated since the design.  In gain
    mode the export carries no delta_p; the design's own computed offset is taken then."""
    op = a.to_json['operational']
    dp = op['delta_p'] if op['delta_p'] is not None else a._delta_p
    return op['gain_target'], dp, op['out_voa']


def oms_profile(net, eq, ref, rec, ingress, chain, egress, bname, band, exported=False):
    """one OMS x design band -> dict of floats/objects describing what the design faced and what it produced.
    Losses are summed from the elements as they stand after the design (what propagation will apply).
    exported=True: the designed settings are read from the network's export (to be used once the elements have
    been propagated: the attributes then hold the operating point of the last propagated load)."""
    from gnpy.core import elements as E
    pref_ch = 10 * math.log10(ref.power * 1e3)
    if isinstance(ingress, E.Roadm):
        t_out = roadm_ref_target_dbm(ingress, chain[0].uid, eq)
    else:
        si = eq['SI']['default']
        t_out = si.tx_power_dbm if si.tx_power_dbm is not None else pref_ch
    amps = []
    loss_acc, raman, fused_first = 0.0, False, isinstance(chain[0], E.Fused)
    n_passive = 0
    for k, el in enumerate(chain):
        a = amp_members(el, bname)
        if a is None:
            if isinstance(el, (E.Edfa, E.Multiband_amplifier)):
                return None                                   # multiband element without this band: not this profile
            loss_acc += passive_loss(el)
            raman = raman or isinstance(el, E.RamanFiber)
            n_passive += 1
            continue
        # span after this amplifier
        nxt_loss, j, nraman = 0.0, k + 1, False
        while j < len(chain) and amp_members(chain[j], bname) is None and \
                not isinstance(chain[j], (E.Edfa, E.Multiband_amplifier)):
            nxt_loss += passive_loss(chain[j])
            nraman = nraman or isinstance(chain[j], E.RamanFiber)
            j += 1
        if j == k + 1:
            nxt_el = chain[j] if j < len(chain) else egress
            if isinstance(nxt_el, E.Roadm):
                nxt = NXT_ROADM
            elif isinstance(nxt_el, (E.Edfa, E.Multiband_amplifier)):
                nxt = NXT_AMP
            else:
                nxt = NXT_OTHER
        else:
            nxt = NXT_SPAN
        call = rec.amp_calls.get(id(a)) if rec is not None else None
        lib = eq['Edfa'].get(a.params.type_variety)
        # snapshot NOW: propagating through an Edfa later overwrites effective_gain when it clamps to p_max
        g_, dp_, voa_ = exported_settings(a) if exported else (a.effective_gain, a._delta_p, a.out_voa)
        amps.append(dict(el=el, amp=a, uid=el.uid, L=loss_acc, prev_passive=n_passive, raman_before=raman,
                         nxt=nxt, Ln=nxt_loss, raman_after=nraman, call=call, pos=k,
                         gain=g_, dp=dp_, delta_p=a.delta_p, voa=voa_, in_voa=a.in_voa,
                         variety=a.params.type_variety, p_max=a.params.p_max, flatmax=a.params.gain_flatmax,
                         gain_min=a.params.gain_min, out_voa_auto=bool(a.params.out_voa_auto),
                         in_library=lib is not None))
        loss_acc, raman, n_passive = 0.0, False, 0
    return dict(ingress=ingress, egress=egress, chain=chain, band=band, bname=bname, pref_ch=pref_ch, t_out=t_out,
                nch=nch_of(band, ref), amps=amps, tail_loss=loss_acc, fused_first=fused_first)


def design_bands_of(ingress, head_uid):
    bands = ingress.per_degree_design_bands.get(head_uid) if hasattr(ingress, 'per_degree_design_bands') else None
    return list(bands or [])


# ------------------------------------------------------------------------------------ propagation of the design load
def design_load(eq, bands, pref_ch_dbm, tx_power_dbm=None, boost_db=0.0):
    """the reference comb the network was designed for: in every design band, channels on the band's spacing with the
    reference baud rate / roll-off, launched at the reference power.
    boost_db > 0: NOT the design load but a heavier what-if load on the same channels - every carrier is transmitted
    boost_db higher and asks the ROADMs for boost_db above their target (per-channel power offset)"""
    from gnpy.core.info import create_input_spectral_information
    si0 = eq['SI']['default']
    p = 10 ** (((pref_ch_dbm if tx_power_dbm is None else tx_power_dbm) + boost_db) / 10) * 1e-3
    out = None
    for b in bands:
        s = create_input_spectral_information(f_min=b['f_min'], f_max=b['f_max'], roll_off=si0.roll_off,
                                              baud_rate=si0.baud_rate, spacing=b['spacing'], tx_osnr=si0.tx_osnr,
                                              tx_power=p, delta_pdb=boost_db)
        out = s if out is None else out + s
    return out


def propagate_oms(net, eq, ref, ingress, chain, egress, bands, tx_w=None, boost_db=0.0):
    """real propagation of the design load (boost_db = 0) or of a heavier load over one OMS: ingress (ROADM add path
    or transceiver) -> line -> egress ROADM.  Returns {'after': {id(element or band-amp): (sig_w, tot_w) per band
    name}, 'roadm': ...} or None when the OMS cannot be driven (no add port etc.)."""
    import numpy as np
    from gnpy.core import elements as E
    pref_ch = 10 * math.log10(ref.power * 1e3)
    si_cfg = eq['SI']['default']
    # launch power: the one of the request designed_network hands back for propagation (tx_w), else SI tx_power_dbm
    tx_dbm = 10 * math.log10(tx_w * 1e3) if tx_w else si_cfg.tx_power_dbm
    si = design_load(eq, bands, pref_ch, tx_dbm, boost_db)
    obs = {}

    def per_band(s):
        res = {}
        for b in bands:
            m = (s.frequency >= b['f_min'] - 1) & (s.frequency <= b['f_max'] + 1)
            res[band_name(b)] = (float(np.sum(s.signal[m])), float(np.sum(s.pch[m])), int(np.sum(m)))
        return res
    try:
        if isinstance(ingress, E.Roadm):
            preds = [p for p in net.predecessors(ingress)]
            trx = [p for p in preds if isinstance(p, E.Transceiver)]
            src = (trx or preds)[0]
            if not trx:
                return None
            si = src(si)
            si = ingress(si, degree=chain[0].uid, from_degree=src.uid)
        else:
            si = ingress(si)
        obs['ingress'] = per_band(si)
        for el in chain:
            si = el(si)
            obs[id(el)] = per_band(si)
        if isinstance(egress, E.Roadm):
            obs['egress_in'] = per_band(si)
            succ = [s for s in net.successors(egress)]
            trx = [s for s in succ if isinstance(s, E.Transceiver)]
            dst = (trx or succ)[0]
            si = egress(si, degree=dst.uid, from_degree=chain[-1].uid)
            obs['egress'] = per_band(si)
            obs['egress_degree'] = dst.uid
            ml = egress.get_impairment('roadm-maxloss', si.frequency, chain[-1].uid, dst.uid)
            obs['egress_maxloss'] = float(np.max(ml))
    except Exception as e:                                                # noqa
        obs['exc'] = f'{type(e).__name__}: {e}'
    return obs


def w2dbm(w):
    return 10 * math.log10(w * 1e3) if w > 0 else -math.inf


# --------------------------------------------------------------------------------------------- synthetic two-ROADM line
def line_topology(spans, roadm_a=None, roadm_b=None, amps=None, fiber_type='SSMF', amp_type='Edfa', reverse=True,
                  ingress='roadm', head=None):
    """ROADM A -> [amp 0] -> span 1 -> [amp 1] -> ... -> span n -> [amp n] -> ROADM B (and a plain reverse fibre).

    spans: list of spans, each a list of segments dict(kind='fiber', length_km, loss_coef, con_in, con_out, att_in,
           type_variety) or dict(kind='fused', loss)
    amps:  {index: element-config-dict}; an index absent from `amps` is left to auto-design (which inserts it)
    ingress='trx': the line starts directly at transceiver A (no ROADM A, no booster, no reverse fibre)
    head:  segments (same form as a span's) placed between ROADM A and amplifier 0
    """
    amps = amps or {}
    els = [{'uid': 'trx A', 'type': 'Transceiver'}, {'uid': 'trx B', 'type': 'Transceiver'},
           dict({'uid': 'roadm B', 'type': 'Roadm'}, **(roadm_b or {}))]
    cx = [('trx B', 'roadm B'), ('roadm B', 'trx B')]
    prev = 'trx A'
    if ingress == 'roadm':
        els.append(dict({'uid': 'roadm A', 'type': 'Roadm'}, **(roadm_a or {})))
        cx += [('trx A', 'roadm A'), ('roadm A', 'trx A')]
        prev = 'roadm A'
    else:
        reverse = False

    def put_amp(i):
        nonlocal prev
        if amps.get(i) is not None:
            cfg = dict({'uid': f'amp {i}', 'type': amp_type}, **amps[i])
            els.append(cfg)
            cx.append((prev, cfg['uid']))
            prev = cfg['uid']
    for j, sg in enumerate(head or [], start=1):
        uid = f'fused 0.{j}'
        els.append({'uid': uid, 'type': 'Fused', 'params': {'loss': sg['loss']}})
        cx.append((prev, uid))
        prev = uid
    if ingress == 'roadm':
        put_amp(0)
    for k, span in enumerate(spans, start=1):
        for j, sg in enumerate(span, start=1):
            if sg['kind'] == 'fused':
                uid = f'fused {k}.{j}'
                els.append({'uid': uid, 'type': 'Fused', 'params': {'loss': sg['loss']}})
            else:
                uid = f'fiber {k}.{j}'
                els.append({'uid': uid, 'type': sg.get('type', 'Fiber'), 'type_variety': sg.get('type_variety', fiber_type),
                            'params': {'length': sg['length_km'], 'length_units': 'km',
                                       'loss_coef': sg.get('loss_coef', 0.2), 'con_in': sg.get('con_in'),
                                       'con_out': sg.get('con_out'), 'att_in': sg.get('att_in', 0),
                                       **({'lumped_losses': sg['lumped_losses']} if sg.get('lumped_losses') else {})}})
            cx.append((prev, uid))
            prev = uid
        put_amp(k)
    cx.append((prev, 'roadm B'))
    if not reverse:
        return {'elements': els, 'connections': [{'from_node': a, 'to_node': b} for a, b in cx]}
    els.append({'uid': 'fiber back', 'type': 'Fiber', 'type_variety': fiber_type,
                'params': {'length': 80, 'length_units': 'km', 'loss_coef': 0.2, 'con_in': None, 'con_out': None}})
    cx += [('roadm B', 'fiber back'), ('fiber back', 'roadm A')]
    return {'elements': els, 'connections': [{'from_node': a, 'to_node': b} for a, b in cx]}


_BASE_EQPT = {}


def synthetic_equipment(edfa, span=None, si=None, roadm=None, base=None):
    """equipment library = the shipped eqpt_config.json with the Edfa list replaced by `edfa` (list of library
    entries in the JSON form of the equipment file) and Span / SI / default-Roadm keys overridden"""
    from gnpy.tools.json_io import load_json, _equipment_from_json, DEFAULT_EXTRA_CONFIG
    base = Path(base or EX / 'eqpt_config.json')
    if base not in _BASE_EQPT:
        _BASE_EQPT[base] = load_json(base)
    d = copy.deepcopy({k: v for k, v in _BASE_EQPT[base].items() if k != 'Edfa'})
    d['Edfa'] = copy.deepcopy(edfa)
    d['Span'][0].update(span or {})
    d['SI'][0].update(si or {})
    d['Roadm'] = [dict(d['Roadm'][0], **(roadm or {}))]
    return _equipment_from_json(d, DEFAULT_EXTRA_CONFIG)


def design_json(json_data, eq, args_power=None):
    """real network_from_json + designed_network under the recorders; args_power: the reference power given on the
    command line (designed_network's args_power) instead of through SI power_dbm"""
    from gnpy.tools.json_io import network_from_json
    from gnpy.tools.worker_utils import designed_network
    net = network_from_json(copy.deepcopy(json_data), eq)
    with DesignRecorder(net) as rec:
        net, _req, ref = designed_network(eq, net, args_power=args_power)
    rec.req_tx_power_w = getattr(_req, 'tx_power', None)       # launch power of the request the tool goes on to propagate
    return net, ref, rec


def redesign(net, eq, ref, rec):
    """the SAME network objects are designed a second time for the same reference channel, the way the tools do it (power
    sweep step of transmission_simulation, planner with redesign: design_network on the designed graph).  Returns the
    recorder of this second design; the operator settings it reports are the ones `rec` saw on the network as loaded."""
    from gnpy.core.network import design_network
    with DesignRecorder(net, loaded=rec) as rec2:
        design_network(ref, net, eq, set_connector_losses=False, verbose=False)
    rec2.req_tx_power_w = getattr(rec, 'req_tx_power_w', None)
    return rec2


def design_json_partial(json_data, eq):
    """like design_json, but an exception raised by the design is returned instead of propagated, together with the
    network as far as it was designed and everything the recorders saw up to that point"""
    from gnpy.tools.json_io import network_from_json
    from gnpy.tools.worker_utils import designed_network
    net = network_from_json(copy.deepcopy(json_data), eq)
    ref = exc = None
    with DesignRecorder(net) as rec:
        try:
            net, _req, ref = designed_network(eq, net)
        except Exception as e:                                           # noqa
            exc = e
    return net, ref, rec, exc


def forward_oms(net, head_of='roadm A', tail='roadm B'):
    """the (ingress, chain, egress) of the synthetic line that runs from `head_of` to `tail`"""
    for ingress, chain, egress in walk_oms(net):
        if ingress.uid == head_of and egress.uid == tail:
            return ingress, chain, egress
    return None


# --------------------------------------------------------------------------------- traces for Trace_DesignPower
def _opt(x):
    return NONE if x is None else udb(x)


USED = '~used'          # suffix of the name of a trace observed after the designed network has been used


def oms_traces(net, eq, ref, rec, name, mode, propagate=True, stats=None, only=None, reuse_db=None):
    """all OMS x design-band traces of one designed network in the integer format of Trace_DesignPower, plus a
    parallel list of human-readable context (uids) used only to describe a violation.
    reuse_db: the designed network is a state that outlives one propagation.  Every OMS that could be driven is then
    crossed a second and a third time through the SAME elements - by a what-if load reuse_db above the design load,
    then by the design load again - and observed once more: the designed settings as the network exports them after
    that use and the powers of this later propagation of the design load make a second trace (name + USED) that is
    judged by the same clauses."""
    from gnpy.core import elements as E
    sp = eq['Span']['default']
    rng = list(sp.delta_power_range_db)
    traces, ctx = [], []
    todo = []
    for ingress, chain, egress in walk_oms(net):
        if only is not None and (ingress.uid, egress.uid) != tuple(only):
            continue
        bands = design_bands_of(ingress, chain[0].uid)
        if not bands:
            continue
        profs = []
        for b in bands:
            pr = oms_profile(net, eq, ref, rec, ingress, chain, egress, band_name(b), b)
            if pr is not None and pr['t_out'] is not None:
                profs.append(pr)
        todo.append((ingress, chain, egress, bands, profs))
    # every profile is snapshotted before any propagation: an Edfa crossing overwrites effective_gain when it clamps
    later = []
    for ingress, chain, egress, bands, profs in todo:
        obs = propagate_oms(net, eq, ref, ingress, chain, egress, bands,
                            tx_w=getattr(rec, 'req_tx_power_w', None)) if propagate else None
        if obs is not None and 'exc' in obs and stats is not None:
            stats.setdefault('propagation_exceptions', []).append(f'{name}:{chain[0].uid}: {obs["exc"][:120]}')
        later.append((ingress, chain, egress, bands, profs, obs, name))
        if reuse_db and obs is not None and 'exc' not in obs and not any(isinstance(el, E.RamanFiber) for el in chain):
            tx_w = getattr(rec, 'req_tx_power_w', None)
            heavy = propagate_oms(net, eq, ref, ingress, chain, egress, bands, tx_w=tx_w, boost_db=reuse_db)
            again = propagate_oms(net, eq, ref, ingress, chain, egress, bands, tx_w=tx_w)
            if heavy is not None and 'exc' in heavy:
                again = heavy                                  # reported by the caller (stats / exc marker)
            profs2 = [oms_profile(net, eq, ref, rec, ingress, chain, egress, pr['bname'], pr['band'], exported=True)
                      for pr in profs]
            if stats is not None:
                stats['oms_used_again'] = stats.get('oms_used_again', 0) + 1
                if again is not None and 'exc' in again:
                    stats.setdefault('propagation_exceptions', []).append(f'{name}{USED}:{chain[0].uid}: {again["exc"][:120]}')
            later.append((ingress, chain, egress, bands, profs2, again, name + USED))
    for ingress, chain, egress, bands, profs, obs, nm in later:
        for pr in profs:
            bn = pr['bname']
            pref = pr['pref_ch']
            ev, uids = [], []
            raman_seen = False       # downstream of a RamanFiber the propagated powers depend on the Raman simulation
            for a in pr['amps']:     # settings (SimParams), not on the design alone: reproduction is not judged there
                raman_seen = raman_seen or a['raman_before']
                c = a['call']
                if c is None or a['gain'] is None or a['dp'] is None or a['voa'] is None or a['p_max'] is None:
                    ev = None
                    break
                sig = tot = NONE
                o = obs.get(id(a['el'])) if obs else None
                if o and bn in o and o[bn][2] > 0 and 'exc' not in obs and not raman_seen:
                    sig, tot = udb(w2dbm(o[bn][0] / o[bn][2])), udb(w2dbm(o[bn][1] / o[bn][2]))
                jr = 1 if a['nxt'] in (NXT_ROADM, NXT_SPAN) and not a['raman_after'] else 0
                ev.append(dict(L=udb(a['L']), Ln=udb(a['Ln']), dev=udb(c['deviation_db']), nxt=a['nxt'],
                               inVoa=udb(a['in_voa'] or 0), uGain=_opt(c['u_gain']), uDp=_opt(c['u_dp']),
                               uVoa=_opt(c['u_voa']), uVar=1 if c['u_variety'] else 0, pmax=udb(a['p_max']),
                               flatx=udb(a['flatmax'] + sp.target_extended_gain), gain=udb(a['gain']),
                               dp=udb(a['dp']), voa=udb(a['voa']), jc=0 if a['raman_before'] else 1, jr=jr,
                               sig=sig, tot=tot))
                uids.append(dict(uid=a['uid'], variety=a['variety'], L=round(a['L'], 4), Ln=round(a['Ln'], 4),
                                 gain=fmt_db(a['gain']), dp=fmt_db(a['dp']), voa=fmt_db(a['voa']),
                                 in_voa=fmt_db(a['in_voa']), u_gain=fmt_db(c['u_gain']), u_dp=fmt_db(c['u_dp']),
                                 u_voa=fmt_db(c['u_voa']), u_variety=c['u_variety'], p_max=a['p_max']))
            if ev is None:
                if stats is not None:
                    stats['oms_skipped'] = stats.get('oms_skipped', 0) + 1
                continue
            rd = dict(judged=0, tgt=0, obs=0, inp=0, maxloss=0)
            raman_seen = raman_seen or any(isinstance(el, E.RamanFiber) for el in chain)
            if obs and 'egress' in obs and 'exc' not in obs and isinstance(egress, E.Roadm) and not raman_seen:
                tgt = roadm_ref_target_dbm(egress, obs['egress_degree'], eq)
                eo, ei = obs['egress'].get(bn), obs['egress_in'].get(bn)
                if tgt is not None and eo and ei and eo[2] > 0 and ei[2] > 0:
                    rd = dict(judged=1, tgt=udb(tgt), obs=udb(w2dbm(eo[1] / eo[2])), inp=udb(w2dbm(ei[1] / ei[2])),
                              maxloss=udb(obs['egress_maxloss']))
            tname = f'{nm}|{"power" if mode else "gain"}|{chain[0].uid}|{bn}'
            traces.append(dict(name=tname, mode=1 if mode else 0, slope=int(round(sp.power_slope * 1000)),
                               ref=udb(sp.span_loss_ref), lo=udb(rng[0]), hi=udb(rng[1]), step=udb(rng[2]),
                               prefTot=udb(pref + 10 * math.log10(pr['nch'])), pref=udb(pref),
                               t0=udb(pr['t_out'] - pref), ev=ev, rd=rd))
            ctx.append(dict(name=tname, amps=uids, ingress=ingress.uid, egress=egress.uid, band=bn))
    return traces, ctx


def step_in_domain(rng_step_db):
    """the documented rounding is defined for a step that is 0 (finest resolution) or a multiple of 0.1 dB"""
    return abs(rng_step_db * 10 - round(rng_step_db * 10)) < 1e-9


# -------------------------------------------------------------------------------- traces for Trace_AmpSelection
def mhz(f):
    return int(round(float(f) / 1e6))


def model_nf_udb(eq, name, gain, cache):
    """noise figure of library model `name` of THIS equipment library at `gain`, from the implementation's amplifier
    noise model (an Edfa element built from the library entry, as the design does) - evaluated here, on this library,
    not read back from anything the selection code may have kept from an earlier design.  None when there is none.
    `cache` lives as long as the equipment dict it was computed for."""
    from gnpy.core import elements as E
    key = (name, round(gain, 9))
    if key not in cache:
        try:
            amp = E.Edfa(uid='verif NF', params=eq['Edfa'][name].__dict__,
                         operational={'gain_target': gain, 'tilt_target': 0})
            amp.pin_db, amp.nch, amp.slot_width = 0, 88, 50e9          # the reference load of the selection
            v = float(amp._calc_nf(True))
            cache[key] = None if math.isnan(v) else udb(v)
        except Exception:                                              # noqa
            cache[key] = None
    return cache[key]


def adjacent_roadm_lists(prev, nxt):
    """(booster list of a ROADM right before, preamp list of a ROADM right after) as read from the elements"""
    from gnpy.core import elements as E
    b = list(prev.restrictions.get('booster_variety_list') or []) if isinstance(prev, E.Roadm) else []
    p = list(nxt.restrictions.get('preamp_variety_list') or []) if isinstance(nxt, E.Roadm) else []
    return b, p


def library_models(eq, gain, own, rdm, cache=None):
    """every single-band model of the library as an integer record; ids are positions in the returned name list"""
    cache = {} if cache is None else cache
    names = [n for n, a in eq['Edfa'].items() if a.type_def != 'multi_band']
    lib = []
    for k, n in enumerate(names):
        a = eq['Edfa'][n]
        nf = model_nf_udb(eq, n, gain, cache) if gain is not None else None
        lib.append(dict(id=k, gmin=udb(a.gain_min), flat=udb(a.gain_flatmax), pmax=udb(a.p_max),
                        nf=0 if nf is None else nf, nfok=0 if nf is None else 1, raman=1 if a.raman else 0,
                        fmin=mhz(a.f_min), fmax=mhz(a.f_max), own=1 if n in own else 0, rdm=1 if n in rdm else 0,
                        alw=1 if a.allowed_for_design else 0))
    return names, lib


def selection_context(eq, node, prev, nxt, band, gain, power, ext):
    from gnpy.core import elements as E
    own = list(node.variety_list) if isinstance(getattr(node, 'variety_list', None), list) else []
    bl, pl = adjacent_roadm_lists(prev, nxt)
    rdm = bl or pl
    jp = 0 if (bl and pl and set(bl) != set(pl)) else 1
    prev_fiber = isinstance(prev, E.Fiber)
    import numpy as np
    coef = float(np.max(prev.params.loss_coef)) * 1e3 if prev_fiber else 0.0           # dB/km
    c = dict(g=udb(gain), p=udb(power), ext=udb(ext), hasOwn=1 if own else 0, hasRdm=1 if rdm else 0,
             bfmin=mhz(band['f_min']), bfmax=mhz(band['f_max']), prevFiber=1 if prev_fiber else 0,
             lossCoef=udb(coef), ramanLimit=udb(eq['Span']['default'].max_fiber_lineic_loss_for_raman))
    return c, own, rdm, jp


EMPTY_C = dict(g=0, p=0, ext=0, hasOwn=0, hasRdm=0, bfmin=0, bfmax=0, prevFiber=0, lossCoef=0, ramanLimit=0)


def selection_traces(net, eq, rec, name, complete=True):
    """one trace per select_edfa call of the design (kind 0 / 1) and one per auto-designed multiband amplifier (2)"""
    from gnpy.core import elements as E
    band_of, member = {}, {}
    for ingress, chain, egress in walk_oms(net):
        bands = design_bands_of(ingress, chain[0].uid)
        for el in chain:
            if isinstance(el, E.Edfa) and bands:
                band_of[id(el)] = bands[0]
            elif isinstance(el, E.Multiband_amplifier):
                for b in bands:
                    a = el.amplifiers.get(band_name(b))
                    if a is not None:
                        band_of[id(a)] = b
                        member[id(a)] = el
    traces, ctx = [], []
    nf_cache = {}
    mb_names = [g for g, a in eq['Edfa'].items() if a.type_def == 'multi_band']

    def group_info(parent, prev, nxt, names):
        """the multiband types of the library as the harness reads them, the lists that apply to `parent` and the type
        the operator gave it before the design (NONE when it was left to auto-design)"""
        own = list(parent.variety_list) if isinstance(getattr(parent, 'variety_list', None), list) else []
        bl, pl = adjacent_roadm_lists(prev, nxt)
        listed = own or bl or pl
        groups = [dict(idx=k, alw=1 if eq['Edfa'][g].allowed_for_design else 0, listed=1 if g in listed else 0,
                       members=[names.index(m) for m in eq['Edfa'][g].multi_band if m in names])
                  for k, g in enumerate(mb_names)]
        pre = rec.mb_pre.get(id(parent), '')
        return groups, listed, (mb_names.index(pre) if pre in mb_names else NONE)

    selected_parents = {}
    band_sels = {}            # id(multiband amplifier) -> {id(band amplifier): its selection}
    for n, s in enumerate(rec.select_calls):
        r = s['ctx']
        if r is None or id(r['node']) not in band_of:
            continue
        node, band = r['node'], band_of[id(r['node'])]
        parent = member.get(id(node))
        # the neighbours are read from the TOPOLOGY (what really sits before / after the amplifier), not from the
        # arguments the design passed along
        placed = parent or node
        before, after = list(net.predecessors(placed)), list(net.successors(placed))
        if len(before) != 1 or len(after) != 1:
            continue
        r = dict(r, prev=before[0], next=after[0])
        c, own, rdm, jp = selection_context(eq, parent or node, r['prev'], r['next'], band, s['gain_target'],
                                            s['power_target'], s['ext'])
        names, lib = library_models(eq, s['gain_target'], own, rdm, nf_cache)
        refused = 1 if s['exc'] else 0
        if not refused and s['chosen'] not in names:
            continue
        groups, listed, ptype = ([], [], NONE)
        if parent is not None:
            groups, listed, ptype = group_info(parent, r['prev'], r['next'], names)
            selected_parents[id(parent)] = (parent, r['prev'], r['next'])
        tname = f'{name}|sel{n}|{s["uid"]}'
        traces.append(dict(name=tname, kind=1 if parent is not None else 0, jp=jp, c=c, lib=lib,
                           chosen=names.index(s['chosen']) if not refused else 0, refused=refused,
                           hasList=1 if listed else 0, groups=groups, ptype=ptype, named=NONE, members=[], sels=[]))
        if parent is not None and not refused:
            band_sels.setdefault(id(parent), {})[id(node)] = dict(c=c, lib=lib, chosen=names.index(s['chosen']))
        ctx.append(dict(name=tname, uid=s['uid'], gain_target=round(s['gain_target'], 6),
                        power_target=round(s['power_target'], 6), candidates_given=s['candidates'], chosen=s['chosen'],
                        own_list=own, roadm_list=rdm, models=names, raman_allowed=s['raman_allowed'],
                        prev=type(r['prev']).__name__, next=type(r['next']).__name__,
                        operator_multiband_type=rec.mb_pre.get(id(parent), '') if parent is not None else None))
    # every multiband amplifier for which the design selected at least one band model (not for an aborted design:
    # the amplifier the design stopped at is half-way)
    for n, (parent, prev, nxt) in enumerate(selected_parents.values() if complete else []):
        names, lib = library_models(eq, None, [], [])
        groups, listed, ptype = group_info(parent, prev, nxt, names)
        members = []
        for a in parent.amplifiers.values():
            v, b = a.params.type_variety, band_of.get(id(a))
            if v in names and b:
                members.append(dict(id=names.index(v), fmin=mhz(a.params.f_min), fmax=mhz(a.params.f_max),
                                    bfmin=mhz(b['f_min']), bfmax=mhz(b['f_max'])))
        final = parent.params.type_variety
        mine = band_sels.get(id(parent), {})
        sels = list(mine.values()) if len(mine) == len(parent.amplifiers) else []    # every band model auto-selected
        tname = f'{name}|mb{n}|{parent.uid}'
        traces.append(dict(name=tname, kind=2, jp=1, c=EMPTY_C, lib=[], chosen=0, refused=0,
                           hasList=1 if listed else 0, groups=groups, ptype=ptype,
                           named=mb_names.index(final) if final in mb_names else NONE, members=members, sels=sels))
        ctx.append(dict(name=tname, uid=parent.uid, chosen={bn: a.params.type_variety for bn, a in parent.amplifiers.items()},
                        multiband_type=final, operator_multiband_type=rec.mb_pre.get(id(parent), ''), listed=listed))
    return traces, ctx


def fmt_db(x):
    return None if x is None else round(float(x), 6)


def ndjson(traces):
    return '\n'.join(json.dumps(t, separators=(',', ':')) for t in traces) + '\n'


__all__ = ['SHIPPED', 'LoadError', 'load_equipment', 'load_topology', 'DesignRecorder', 'design', 'walk_oms', 'oms_profile',
           'design_bands_of', 'propagate_oms', 'design_load', 'line_topology', 'udb', 'INF', 'NONE', 'w2dbm',
           'roadm_ref_target_dbm', 'band_name', 'nch_of', 'ndjson', 'NXT_ROADM', 'NXT_SPAN', 'NXT_AMP', 'NXT_OTHER',
           'oms_traces', 'step_in_domain', 'passive_loss', 'amp_members', 'synthetic_equipment', 'design_json', 'design_json_partial',
           'forward_oms', 'redesign', 'USED', 'exported_settings', 'selection_traces', 'stripped_topology', 'library_models', 'selection_context', 'EMPTY_C', 'mhz']
