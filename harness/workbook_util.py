"""C20 helpers: abstract workbooks of spec/Workbook.tla <-> .xlsx files, shipped workbooks -> abstract workbooks,
converted JSON -> the observation vocabulary.  Rendering / projection only; verdicts are computed by TLC."""
import math
from decimal import Decimal

from harness.documents_util import dec_norm, pv, to_number, ABSENT, MISSING

ARROW = '→'
LINK_FIELDS = (('dist', 'Distance (km)'), ('fiber', 'Fiber type'), ('lineic', 'lineic att'), ('con_in', 'Con_in'),
               ('con_out', 'Con_out'), ('pmd', 'PMD'), ('cable', 'Cable id'))
AMP_FIELDS = (('type', 'amp type'), ('att_in', 'att_in'), ('gain', 'amp gain'), ('tilt', 'tilt'), ('att_out', 'att_out'),
              ('dp', 'delta p'))
SVC_HEADERS = ('route id', 'Source', 'Destination', 'TRX type', 'Mode', 'System: spacing', 'System: input power (dBm)',
               'System: nb of channels', 'routing: disjoint from', 'routing: path', 'routing: is loose?', 'path bandwidth')


def uid(s):
    return str(s).replace(ARROW, '->')


def cell(v, as_int):
    """abstract value or string -> cell content (None = blank)"""
    if isinstance(v, str):
        return v or None
    if v['t'] == 'absent':
        return None
    return to_number(v, as_int)


# ------------------------------------------------------------------------------------------------ writing .xlsx
def write_xlsx(wb, path, as_int=False, with_topology=True):
    """abstract workbook -> .xlsx with the layout of the shipped workbooks (header lines 4/5, data from line 6)"""
    import openpyxl
    book = openpyxl.Workbook()
    book.remove(book.active)
    blanks = wb.get('blanks', {})

    def gap(ws, sheet, i, ncols):
        """the empty spreadsheet lines in front of row i of this sheet (cells present but empty)"""
        b = blanks.get(sheet, [])
        for _ in range(b[i] if i < len(b) else 0):
            ws.append([None] * ncols)
    if with_topology:
        ws = book.create_sheet('Nodes')
        for _ in range(4):
            ws.append([None])
        ws.append(['City', 'State', 'Country', 'Region', 'Latitude', 'Longitude', 'Type', 'Booster_restriction',
                   'Preamp_restriction'])
        for i, n in enumerate(wb['nodes']):
            gap(ws, 'nodes', i, 9)
            ws.append([n['city'], None, None, 'west' if i < 2 else 'east', i, 2 * i, n['type'] if n['type'] != 'other' else 'whatever', None, None])
        ws = book.create_sheet('Links')
        for _ in range(3):
            ws.append([None])
        ws.append([None, None, 'east cable (from a to z)'] + [None] * 6 + ['west (from z to a'])
        ws.append(['Node A', 'Node Z'] + [h for _, h in LINK_FIELDS] * 2)
        for i, ln in enumerate(wb['links']):
            gap(ws, 'links', i, 16)
            row = [ln['a'], ln['z']]
            for side in ('east', 'west'):
                for f, _ in LINK_FIELDS:
                    row.append(None if f == 'pmd' else cell(ln[side][f], as_int))
            ws.append(row)
        ws = book.create_sheet('Eqpt')
        for _ in range(3):
            ws.append([None])
        ws.append([None, None, 'Node a egress/east amp (from a to z)'] + [None] * 5 + ['Node a ingress/west amp (from z to a)'])
        ws.append(['Node A', 'Node Z'] + [h for _, h in AMP_FIELDS] * 2)
        for i, e in enumerate(wb['eqpt']):
            gap(ws, 'eqpt', i, 14)
            row = [e['a'], e['z']]
            for side in ('east', 'west'):
                for f, _ in AMP_FIELDS:
                    row.append(cell(e[side][f], as_int))
            ws.append(row)
        if wb['roadms']:
            ws = book.create_sheet('Roadms')
            for _ in range(4):
                ws.append([None])
            ws.append(['Node A', 'Node Z', 'per degree target power (dBm)', 'type_variety', 'from degrees',
                       'from degree to degree impairment id'])
            for i, r in enumerate(wb['roadms']):
                gap(ws, 'roadms', i, 6)
                ws.append([r['a'], r['z'], cell(r['target'], as_int), None, None, None])
    if wb['services']:
        ws = book.create_sheet('Service')
        for _ in range(4):
            ws.append([None])
        ws.append(list(SVC_HEADERS))
        for i, s in enumerate(wb['services']):
            gap(ws, 'services', i, 12)
            rid = int(s['id']) if s['id'].isdigit() else s['id']
            ws.append([rid, s['src'], s['dst'], s['trx'], s['mode'] or None, cell(s['spacing'], as_int),
                       cell(s['power'], as_int), cell(s['nch'], True),
                       # a single all-digit id is a numeric cell, as a spreadsheet program stores it
                       (int(s['disjoint'][0]) if len(s['disjoint']) == 1 and s['disjoint'][0].isdigit()
                        else ' | '.join(s['disjoint']) or None),
                       ' | '.join(s['path']) or None, s['loose'] or None, cell(s['bw'], as_int)])
    book.save(path)


# ------------------------------------------------------------------------ reading shipped workbooks (B3, independent)
def _rows(path, sheet):
    """all rows of a sheet as lists of python values ('' / None = blank); None when the sheet does not exist"""
    if str(path).lower().endswith('.xlsx'):
        import openpyxl
        book = openpyxl.load_workbook(path, read_only=True, data_only=True)
        if sheet not in book.sheetnames:
            return None
        return [list(r) for r in book[sheet].iter_rows(values_only=True)]
    import xlrd
    book = xlrd.open_workbook(path)
    if sheet not in book.sheet_names():
        return None
    sh = book.sheet_by_name(sheet)
    return [[c.value for c in sh.row(i)] for i in range(sh.nrows)]


def _blank(v):
    return v is None or v == ''


def _val(v, ex, where):
    if _blank(v):
        return dict(ABSENT)
    if isinstance(v, str):
        ex.append(f'{where}: text in a numeric cell')
        return dict(ABSENT)
    return pv(v, 'legacy', ex, where)


def _txt(v):
    if _blank(v):
        return ''
    if isinstance(v, float) and v == int(v):
        return str(int(v))
    return str(v).strip() if isinstance(v, str) else str(v)


def _header_row(rows, first):
    for i, r in enumerate(rows[:14]):
        if r and isinstance(r[0], str) and r[0].strip() == first:
            return i
    return None


def _groups(rows, hdr, ncols):
    """column ranges of the east / west groups: the line above the header line names them"""
    top = rows[hdr - 1] if hdr > 0 else []
    starts = [(j, 'east' if 'east' in str(c) else 'west') for j, c in enumerate(top[:ncols]) if isinstance(c, str)
              and ('east' in c or 'west' in c)]
    out = {}
    for k, (j, name) in enumerate(starts):
        end = starts[k + 1][0] if k + 1 < len(starts) else ncols
        out.setdefault(name, (j, end))
    return out


def read_workbook(path):
    """shipped workbook -> abstract workbook of Workbook.tla (+ notes about cells outside the vocabulary)"""
    ex = []
    wb = dict(nodes=[], links=[], eqpt=[], roadms=[], services=[])
    rows = _rows(path, 'Nodes')
    if rows is not None:
        h = _header_row(rows, 'City')
        if h is None:
            return None, ['Nodes sheet without a City header']
        cols = {str(c).strip(): j for j, c in enumerate(rows[h][:10]) if not _blank(c)}
        for r in rows[h + 1:]:
            if not r or _blank(r[0]):
                continue
            t = _txt(r[cols['Type']]) if 'Type' in cols and cols['Type'] < len(r) else ''
            wb['nodes'].append({'city': _txt(r[0]), 'type': t if t in ('ROADM', 'ILA', 'FUSED') else ('other' if t else '')})
            for k in ('Booster_restriction', 'Preamp_restriction'):
                if k in cols and cols[k] < len(r) and not _blank(r[cols[k]]):
                    ex.append('amplifier restrictions are outside the vocabulary')
    rows = _rows(path, 'Links')
    if rows is not None:
        h = _header_row(rows, 'Node A')
        if h is None or len(rows[h]) < 2 or str(rows[h][1]).strip() != 'Node Z':
            return None, ['Links sheet without the Node A / Node Z header line: not an abstract workbook']
        g = _groups(rows, h, 16)
        if 'east' not in g:
            return None, ['Links sheet without an east group']
        for r in rows[h + 1:]:
            if not r or _blank(r[0]):
                continue
            ln = {'a': _txt(r[0]), 'z': _txt(r[1])}
            for side in ('east', 'west'):
                vals = {'dist': dict(ABSENT), 'fiber': '', 'lineic': dict(ABSENT), 'con_in': dict(ABSENT),
                        'con_out': dict(ABSENT), 'cable': ''}
                if side in g:
                    lo, hi = g[side]
                    for j in range(lo, min(hi, len(r), len(rows[h]))):
                        name = str(rows[h][j]).strip()
                        for f, head in LINK_FIELDS:
                            if head in name:
                                if f in ('fiber', 'cable'):
                                    vals[f] = _txt(r[j])
                                elif f == 'pmd':
                                    if not _blank(r[j]):
                                        ex.append('PMD cells are outside the vocabulary')
                                elif f == 'dist' and isinstance(r[j], float):
                                    # lengths are given to the metre: the sheet value is read rounded to 3 decimals
                                    vals[f] = _val(round(r[j], 3), ex, f'Links/{side}/{f}')
                                else:
                                    vals[f] = _val(r[j], ex, f'Links/{side}/{f}')
                ln[side] = vals
            wb['links'].append(ln)
    rows = _rows(path, 'Eqpt')
    if rows is not None:
        h = _header_row(rows, 'Node A')
        if h is not None:
            g = _groups(rows, h, 14)
            for r in rows[h + 1:]:
                if not r or _blank(r[0]):
                    continue
                e = {'a': _txt(r[0]), 'z': _txt(r[1])}
                for side in ('east', 'west'):
                    vals = {'type': '', 'gain': dict(ABSENT), 'dp': dict(ABSENT), 'tilt': dict(ABSENT),
                            'att_out': dict(ABSENT), 'att_in': dict(ABSENT)}
                    if side in g:
                        lo, hi = g[side]
                        for j in range(lo, min(hi, len(r), len(rows[h]))):
                            name = str(rows[h][j]).strip()
                            for f, head in AMP_FIELDS:
                                if head == name:
                                    if f == 'type':
                                        vals[f] = _txt(r[j])
                                    else:
                                        vals[f] = _val(r[j], ex, f'Eqpt/{side}/{f}')
                    e[side] = vals
                wb['eqpt'].append(e)
    rows = _rows(path, 'Roadms')
    if rows is not None:
        h = _header_row(rows, 'Node A')
        if h is not None:
            cols = {str(c).strip(): j for j, c in enumerate(rows[h][:6]) if not _blank(c)}
            for r in rows[h + 1:]:
                if not r or _blank(r[0]):
                    continue
                tcol = cols.get('per degree target power (dBm)')
                for k in ('type_variety', 'from degrees', 'from degree to degree impairment id'):
                    if k in cols and cols[k] < len(r) and not _blank(r[cols[k]]):
                        ex.append('ROADM type_variety / per-degree impairments are outside the vocabulary')
                if tcol is not None and tcol < len(r) and not _blank(r[tcol]):
                    wb['roadms'].append({'a': _txt(r[0]), 'z': _txt(r[1]), 'target': _val(r[tcol], ex, 'Roadms/target')})
    rows = _rows(path, 'Service')
    if rows is not None:
        h = _header_row(rows, 'route id')
        if h is not None:
            cols = {str(c).strip(): j for j, c in enumerate(rows[h][:12]) if not _blank(c)}

            def get(r, name):
                j = cols.get(name)
                return r[j] if j is not None and j < len(r) else None
            for r in rows[h + 1:]:
                if not r or _blank(r[0]):
                    continue
                dj = _txt(get(r, 'routing: disjoint from'))
                pa = _txt(get(r, 'routing: path'))
                wb['services'].append({
                    'id': _txt(r[0]), 'src': _txt(get(r, 'Source')), 'dst': _txt(get(r, 'Destination')),
                    'trx': _txt(get(r, 'TRX type')), 'mode': _txt(get(r, 'Mode')),
                    'spacing': _val(get(r, 'System: spacing'), ex, 'Service/spacing'),
                    'power': _val(get(r, 'System: input power (dBm)'), ex, 'Service/power'),
                    'nch': _val(get(r, 'System: nb of channels'), ex, 'Service/nch'),
                    'disjoint': [x for x in dj.split(' | ') if dj], 'path': [x for x in pa.split(' | ') if pa],
                    'loose': _txt(get(r, 'routing: is loose?')), 'bw': _val(get(r, 'path bandwidth'), ex, 'Service/bw')})
    return wb, sorted(set(ex))


# ------------------------------------------------------------------------------------- projecting the converter output
NOP = ('length', 'loss_coef', 'con_in', 'con_out', 'gain', 'dp', 'tilt', 'att_out', 'att_in', 'loss')


def project_topology(js):
    """xls_to_json_data output -> [els, cx, pd] of Workbook.tla"""
    ex = []
    els, pd = [], []
    for e in js['elements']:
        p = {k: dict(ABSENT) for k in NOP}
        typ = e.get('type', '?')
        par, op = e.get('params', {}), e.get('operational', {})
        if typ == 'Fiber':
            for k in ('length', 'loss_coef', 'con_in', 'con_out'):
                p[k] = pv(par.get(k, MISSING), 'legacy', ex, f'{e["uid"]}/{k}')
        elif typ == 'Edfa':
            for k, src in (('gain', 'gain_target'), ('dp', 'delta_p'), ('tilt', 'tilt_target'), ('att_out', 'out_voa'),
                           ('att_in', 'in_voa')):
                p[k] = pv(op.get(src, MISSING), 'legacy', ex, f'{e["uid"]}/{src}')
        elif typ == 'Fused':
            p['loss'] = pv(par.get('loss', MISSING), 'legacy', ex, f'{e["uid"]}/loss')
        elif typ == 'Roadm':
            for deg, v in (par.get('per_degree_pch_out_db') or {}).items():
                pd.append({'roadm': uid(e['uid']), 'deg': uid(deg), 'v': pv(v, 'legacy', ex, f'{e["uid"]}/per_degree')})
        city = (e.get('metadata', {}).get('location', {}) or {}).get('city')
        els.append({'uid': uid(e.get('uid')), 'type': typ, 'city': city if isinstance(city, str) else '',
                    'variety': e.get('type_variety') or '', 'p': p})
    cx = [{'from': uid(c['from_node']), 'to': uid(c['to_node'])} for c in js['connections']]
    return {'els': els, 'cx': cx, 'pd': pd}, ex


def udbm(watt):
    if watt is None:
        return -9999
    return int(round((10 * math.log10(watt * 1e3)) * 1e6))


def project_services(data):
    ex = []
    reqs, sync = [], []
    for q in data.get('path-request', []):
        te = q['path-constraints']['te-bandwidth']
        ero = sorted(q.get('explicit-route-objects', {}).get('route-object-include-exclude', []), key=lambda x: x['index'])
        mode = te.get('trx_mode')
        reqs.append({'id': str(q['request-id']), 'source': uid(q['source']), 'destination': uid(q['destination']),
                     'bidir': bool(q['bidirectional']), 'trx': str(te.get('trx_type')),
                     'mode': '~null' if mode is None else str(mode),
                     'spacing': pv(te.get('spacing', MISSING), 'legacy', ex, 'spacing'),
                     'bandwidth': pv(te.get('path_bandwidth', MISSING), 'legacy', ex, 'path_bandwidth'),
                     'nch': pv(te.get('max-nb-of-channel', MISSING), 'legacy', ex, 'max-nb-of-channel'),
                     'power_udbm': udbm(te.get('output-power')),
                     'include': [uid(h['num-unnum-hop']['node-id']) for h in ero],
                     'hops': [str(h['num-unnum-hop']['hop-type']) for h in ero]})
    for s in data.get('synchronization', []):
        sync.append({'id': str(s['synchronization-id']), 'ids': [str(x) for x in s['svec']['request-id-number']]})
    return {'reqs': reqs, 'sync': sync}, ex
