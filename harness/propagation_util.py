"""Shared driver of C01 / C02 / C07 (B3): run the real gnpy.topology.request.propagate on the shipped networks
under harness.record.Recording, project every recorded spectrum to integers and let TLC judge the traces with
spec/Trace_Propagation.tla.

Python only records and projects (MHz offsets from 193.1 THz, ppb shares, micro-dB figures, 1e-9 reciprocal linear
figures, +/-Inf sentinels); every verdict is computed by TLC.
"""
import contextlib
import copy
import json
import math
import random
import traceback
from pathlib import Path

import numpy as np

from harness import tlc
from harness.core import Machinery
from harness.gnpy_util import EX, INF
from harness.record import Recording

F0_MHZ = 193_100_000
NAN_UDB = -INF + 1

C01_CLAUSES = {'Conservation', 'SharesInUnitInterval', 'GsnrIdentity', 'ReportedFromLedger'}
C02_CLAUSES = {'OpGrammar', 'NeverImprovesGsnr', 'NeverImprovesOsnr', 'NeverImprovesNli', 'PassiveUnchanged',
               'KeepsNli', 'KeepsOsnr'}
C07_CLAUSES = {'RejectOverlap', 'RejectBaudWiderThanSlot', 'AcceptValid', 'Survives', 'InFrequencyOrder',
               'LaunchIsSortedRequest', 'FilterKeepsExactlyCommon', 'OwnAttributes', 'MultiBandPartition',
               'OrderIrrelevant'}

NETWORKS = {   # name -> (topology, equipment library, sim_params or None)
    'mesh': ('meshTopologyExampleV2.json', 'eqpt_config.json', None),
    'coronet': ('CORONET_Global_Topology.json', 'eqpt_config.json', None),
    'sweden4': ('Sweden_OpenROADMv4_example_network.json', 'eqpt_config_openroadm_ver4.json', None),
    'sweden5': ('Sweden_OpenROADMv5_example_network.json', 'eqpt_config_openroadm_ver5.json', None),
    'multiband': ('multiband_example_network.json', 'eqpt_config_multiband.json', None),
    'raman': ('raman_edfa_example_network.json', 'eqpt_config.json', 'sim_params.json'),
    # same network, Raman on, default NLI method (the shipped sim_params.json names channels 1..75 explicitly in
    # nli_params.computed_channels and is therefore only usable with spectra of at least 75 channels)
    'raman-gn': ('raman_edfa_example_network.json', 'eqpt_config.json',
                 {'raman_params': {'flag': True, 'result_spatial_resolution': 10e3, 'solver_spatial_resolution': 50}}),
    'fusedroadm': ('fused_roadm_example_network.json', 'eqpt_config.json', None),
    'edfa': ('edfa_example_network.json', 'eqpt_config.json', None),
    # variant of the multi-band example (built in memory from the shipped files, see _variant): the line
    # Site_L <-> Site_A is equipped with ONE-band amplifiers whose band spans L and C, so that paths cross a wide
    # single-band amplifier before (L -> D) and after (D -> L) the L+C multi-band amplifiers; and the multi-band lines
    # A <-> D are DESIGNED for bands (per_degree_design_bands) narrower than the bands of their amplifiers
    'multiband-wide': ('multiband_example_network.json', 'eqpt_config_multiband.json', None),
}
# variant of the mesh example: every second fibre is of a negative-dispersion type (metro NZDSF like: the shipped
# NZDF with the sign of its dispersion changed) and every ROADM is of the library type 'detailed_impairments'
# (per-path impairment profiles with loss, OSNR and noise-figure entries for add and drop paths)
NETWORKS['mesh-mixed'] = ('meshTopologyExampleV2.json', 'eqpt_config.json', None)
# variant of the Raman example: a weak pump above the comb and two pumps BELOW it (as for a lower band), one
# counter- and one co-propagating
NETWORKS['raman-lowpump'] = ('raman_edfa_example_network.json', 'eqpt_config.json',
                             {'raman_params': {'flag': True, 'result_spatial_resolution': 10e3,
                                               'solver_spatial_resolution': 50}})
# the mesh example with the approximate GGN method, the NLI being evaluated for three channels that do not cover the
# edges of the comb and inter-/extrapolated for the others
NETWORKS['mesh-ggn'] = ('meshTopologyExampleV2.json', 'eqpt_config.json',
                        {'nli_params': {'method': 'ggn_approx', 'computed_channels': [10, 14, 20]}})
# the same with the number of evaluated channels given instead (nli_params.computed_number_of_channels: that many
# channels spread evenly from one edge of the comb to the other, the others interpolated), and the same line design
NETWORKS['mesh-ggn-n'] = ('meshTopologyExampleV2.json', 'eqpt_config.json',
                          {'nli_params': {'method': 'ggn_approx', 'computed_number_of_channels': 8}})
SAME_DESIGN = {'mesh-ggn-n': 'mesh-ggn'}        # the NLI parameters play no part in the design of a line without Raman pumps
# the OpenROADM v5 example designed for a low launch power: the boosters behind the -20 dBm ROADMs run at ~2 dB gain
NETWORKS['sweden5-lowpower'] = NETWORKS['sweden5']
# the Raman example with a fibre that brings its own Raman gain profile, tabulated up to 15 THz only (a data sheet),
# one pump at 205 THz and an amplifier wide enough for L-band carriers (15 to 18 THz below the pump)
NETWORKS['raman-shorttable'] = ('raman_edfa_example_network.json', 'eqpt_config.json',
                                {'raman_params': {'flag': True, 'result_spatial_resolution': 10e3,
                                                  'solver_spatial_resolution': 50}})
# the EDFA example without its amplifier, designed with no_insert_edfas: an unamplified link (fibre NLI, no ASE at all)
NETWORKS['edfa-unamplified'] = NETWORKS['edfa']
DESIGN_ARGS = {'sweden5-lowpower': dict(args_power=-18), 'edfa-unamplified': dict(no_insert_edfas=True)}
DESIGN_BANDS = [{'f_min': 191.3e12, 'f_max': 196.0e12}, {'f_min': 187.0e12, 'f_max': 190.0e12}]
WIDE_BAND = dict(type_variety='wide_band', f_min=186.0e12, f_max=196.2e12, allowed_for_design=False)


def _variant(name, eqpt_json, topo_json):
    """in-memory edits (configuration only) that turn shipped files into the variants listed in NETWORKS"""
    if name == 'multiband-wide':
        wide = next(dict(a) for a in eqpt_json['Edfa'] if a['type_variety'] == 'std_medium_gain')
        wide.update(WIDE_BAND)
        eqpt_json['Edfa'].append(wide)
        for elem in topo_json['elements']:
            if elem['uid'] in ('east edfa in Site_L to Site_A', 'west edfa in Site_A to Site_L',
                               'east edfa in Site_A to Site_L', 'west edfa in Site_L to Site_A'):
                elem['type_variety'] = 'wide_band'
            # the multi-band lines A -> D and D -> A are designed for bands NARROWER than those of their amplifiers
            if elem['uid'] == 'roadm Site_A':
                elem['params']['per_degree_design_bands'] = {'east edfa in Site_A to Site_B': copy.deepcopy(DESIGN_BANDS)}
            if elem['uid'] == 'roadm Site_D':
                elem['params']['per_degree_design_bands'] = {'east edfa in Site_D to Site_C': copy.deepcopy(DESIGN_BANDS)}
    if name == 'mesh-mixed':
        neg = next(dict(f) for f in eqpt_json['Fiber'] if f['type_variety'] == 'NZDF')
        neg.update(type_variety='NZDF_NEG', dispersion=-neg['dispersion'])
        eqpt_json['Fiber'].append(neg)
        fibers = sorted(e['uid'] for e in topo_json['elements'] if e['type'] == 'Fiber')
        for elem in topo_json['elements']:
            if elem['type'] == 'Fiber' and fibers.index(elem['uid']) % 2 == 0:
                elem['type_variety'] = 'NZDF_NEG'
            if elem['type'] == 'Roadm':
                elem['type_variety'] = 'detailed_impairments'
            if elem['uid'] == 'roadm Lannion_CAS':
                # line-to-line connections through an external add / drop shelf: mapped on the add (id 1) or drop (id 2)
                # profile of the library, one connection keeps the default express profile
                sites = ('Corlay', 'Stbrieuc', 'Morlaix')
                ids = iter([1, 2, 1, 2, 1])
                elem.setdefault('params', {})['per_degree_impairments'] = [
                    {'from_degree': f'west edfa in Lannion_CAS to {a}', 'to_degree': f'east edfa in Lannion_CAS to {b}',
                     'impairment_id': next(ids)}
                    for a in sites for b in sites if a != b and (a, b) != ('Morlaix', 'Corlay')]
    if name == 'edfa-unamplified':
        amps = {e['uid'] for e in topo_json['elements'] if e['type'] == 'Edfa'}
        for a in amps:
            before = next(c['from_node'] for c in topo_json['connections'] if c['to_node'] == a)
            after = next(c['to_node'] for c in topo_json['connections'] if c['from_node'] == a)
            topo_json['connections'] = [c for c in topo_json['connections'] if a not in (c['from_node'], c['to_node'])]
            topo_json['connections'].append({'from_node': before, 'to_node': after})
        topo_json['elements'] = [e for e in topo_json['elements'] if e['uid'] not in amps]
    if name == 'raman-shorttable':
        from gnpy.core.parameters import DEFAULT_RAMAN_COEFFICIENT as RC
        nb = int(sum(1 for x in RC['frequency_offset'] if x <= 15e12))
        wide = next(dict(a) for a in eqpt_json['Edfa'] if a['type_variety'] == 'std_medium_gain')
        wide.update(WIDE_BAND)
        eqpt_json['Edfa'].append(wide)
        for elem in topo_json['elements']:
            if elem['type'] == 'RamanFiber':
                elem['params']['raman_coefficient'] = {
                    'g0': [float(x) for x in RC['g0'][:nb]], 'frequency_offset': [float(x) for x in RC['frequency_offset'][:nb]],
                    'reference_frequency': float(RC['reference_frequency'])}
                elem['operational']['raman_pumps'] = [{'power': 0.4, 'frequency': 205.0e12,
                                                       'propagation_direction': 'counterprop'}]
            if elem['type'] == 'Edfa':
                elem['type_variety'] = 'wide_band'
    if name == 'raman-lowpump':
        for elem in topo_json['elements']:
            if elem['type'] == 'RamanFiber':
                elem['operational']['raman_pumps'] = [
                    {'power': 0.05, 'frequency': 201.0e12, 'propagation_direction': 'counterprop'},
                    {'power': 0.4, 'frequency': 187.0e12, 'propagation_direction': 'counterprop'},
                    {'power': 0.2, 'frequency': 184.0e12, 'propagation_direction': 'coprop'}]
    return eqpt_json, topo_json


VARIANTS = {'multiband-wide', 'mesh-mixed', 'raman-lowpump', 'edfa-unamplified', 'raman-shorttable'}


# ------------------------------------------------------------------------------------------------- projections
def mhz(f_hz):
    """absolute frequency in Hz -> MHz offset from 193.1 THz"""
    return int(round(float(f_hz) / 1e6)) - F0_MHZ


def hz(off_mhz):
    """MHz offset from 193.1 THz -> exact float Hz (integers below 2^53 are exact doubles)"""
    return float((int(off_mhz) + F0_MHZ) * 1_000_000)


def udbv(x):
    """array of dB floats -> list of micro-dB integers with +/-Inf sentinels (NaN -> -Inf + 1)"""
    out = []
    for v in np.asarray(x, dtype=float).ravel():
        if math.isnan(v):
            out.append(NAN_UDB)
        elif v > 1999:
            out.append(INF)
        elif v < -1999:
            out.append(-INF)
        else:
            out.append(int(round(v * 1e6)))
    return out


def ninv(x_db):
    """dB figures -> reciprocal linear values in units of 1e-9 (Inf sentinel when not representable below 2e9)"""
    out = []
    for v in np.asarray(x_db, dtype=float).ravel():
        if math.isnan(v):
            out.append(INF)
            continue
        r = 10 ** (-v / 10) * 1e9 if v < 1999 else 0.0
        out.append(INF if r >= INF else int(round(r)))
    return out


def ppb(part, total):
    with np.errstate(divide='ignore', invalid='ignore'):
        r = np.asarray(part, dtype=float) / np.asarray(total, dtype=float) * 1e9
    return [int(round(v)) if math.isfinite(v) and abs(v) < INF else -1 for v in r]


class Labels:
    """label ids standing for everything the transmitter attached to a channel"""

    def __init__(self):
        self.ids = {}

    @staticmethod
    def key(label, tx_power, tx_osnr, roll_off, delta_pdb):
        def num(x):                 # an undetermined mode has no tx_osnr yet (None)
            return -1.0 if x is None else float(x)
        return (str(label), num(tx_power), num(tx_osnr), num(roll_off), num(delta_pdb))

    def declare(self, keys):
        for k in sorted(set(keys)):
            self.ids.setdefault(k, len(self.ids) + 1)

    def of(self, k):
        return self.ids.get(k, 9999)


def project_spectrum(snap, labels):
    n = len(snap['frequency'])
    keys = [Labels.key(snap['label'][k], snap['tx_power'][k], snap['tx_osnr'][k], snap['roll_off'][k],
                       snap['delta_pdb_per_channel'][k]) for k in range(n)]
    return dict(f=[mhz(x) for x in snap['frequency']], w=[int(round(x / 1e6)) for x in snap['slot_width']],
                b=[int(round(x / 1e6)) for x in snap['baud_rate']], lab=[labels.of(k) for k in keys],
                s=ppb(snap['signal'], snap['pch']), a=ppb(snap['ase'], snap['pch']), n=ppb(snap['nli'], snap['pch']),
                osnr=udbv(snap['osnr_db']), nli=udbv(snap['nli_db']), gsnr=udbv(snap['gsnr_db']))


# ------------------------------------------------------------------------------------------------- networks
@contextlib.contextmanager
def sim_params(name):
    """process-wide SimParams set for the duration of a block and restored to the defaults afterwards"""
    from gnpy.core.parameters import SimParams
    from gnpy.tools.json_io import load_json
    if name:
        SimParams.set_params(name if isinstance(name, dict) else load_json(EX / name))
    try:
        yield
    finally:
        if name:
            SimParams.set_params({})


_LOADED = {}
NOT_LOADED = {}
LOAD_NOTES = {}


def network(name, service_req=None, initial_spectrum=None):
    """(designed network, equipment, reference request, sim_params name) of a shipped example or variant; None if it
    does not load.  With service_req (and initial_spectrum) the network is loaded afresh and designed the way the
    transmission example does for a service: designed_network(service_req=..., initial_spectrum=...); the request
    returned by that call is the one to propagate (not cached)."""
    if service_req is None and name in _LOADED:
        return _LOADED[name]
    if service_req is None and name in SAME_DESIGN:
        base = network(SAME_DESIGN[name])
        _LOADED[name] = base and (base[0], base[1], base[2], NETWORKS[name][2])
        return _LOADED[name]
    from gnpy.tools.json_io import load_equipments_and_configs, load_network, load_json, network_from_json
    from gnpy.tools.worker_utils import designed_network
    topo, eqpt, sp = NETWORKS[name]
    res = None
    try:
        if name in VARIANTS:
            import tempfile
            eqpt_json, topo_json = _variant(name, load_json(EX / eqpt), load_json(EX / topo))
            tlc.BUILD.mkdir(exist_ok=True)
            with tempfile.TemporaryDirectory(dir=tlc.BUILD) as tmp:
                (Path(tmp) / 'eqpt.json').write_text(json.dumps(eqpt_json))
                eq = load_equipments_and_configs(Path(tmp) / 'eqpt.json', [], [])
            net = network_from_json(topo_json, eq)
        else:
            eq = load_equipments_and_configs(EX / eqpt, [], [])
            try:
                net = load_network(EX / topo, eq)
            except Exception as e1:                     # noqa  (YANG validation of the shipped file fails)
                net = network_from_json(load_json(EX / topo), eq)
                LOAD_NOTES[name] = f'load_network failed ({type(e1).__name__}); loaded with network_from_json(load_json())'
        with sim_params(sp):
            if service_req is not None:
                sreq = service_req(eq)
                net, req, _ = designed_network(eq, net, service_req=sreq, initial_spectrum=initial_spectrum,
                                               **DESIGN_ARGS.get(name, {}))
                return net, eq, req, sp
            net, req, _ = designed_network(eq, net, **DESIGN_ARGS.get(name, {}))
        res = (net, eq, req, sp)
    except Exception as e:                          # noqa
        if service_req is not None:
            raise
        NOT_LOADED[name] = f'{type(e).__name__}: {str(e)[:200]}'
    _LOADED[name] = res
    return res


def transceivers(net):
    from gnpy.core.elements import Transceiver
    return sorted(n.uid for n in net.nodes() if isinstance(n, Transceiver))


def seeded_pairs(net, rng, k):
    """k seeded (source, destination) transceiver pairs between which the topology has a route (the EDFA and Raman
    examples are one-way links)"""
    import networkx as nx
    by = {n.uid: n for n in net.nodes()}
    trx = transceivers(net)
    pairs = [(a, b) for a in trx for b in trx if a != b]
    rng.shuffle(pairs)
    out = []
    for a, b in pairs:
        if nx.has_path(net, by[a], by[b]):
            out.append((a, b))
        if len(out) == k:
            break
    return out


def pairs_through(netname, uid, rng, k):
    """k seeded transceiver pairs of a loaded network whose route crosses the element `uid` away from its ends"""
    import gnpy.topology.request as rq
    net, _, base_req, _ = network(netname)
    out = []
    for a, b in seeded_pairs(net, rng, 10 ** 6):
        path = rq.compute_constrained_path(net, make_request(base_req, a, b))
        if any(el.uid == uid for el in path[2:-2]):
            out.append((a, b))
        if len(out) == k:
            break
    return out


def make_request(base_req, src, dst, spectrum=None, **over):
    r = copy.deepcopy(base_req)
    r.source, r.destination, r.nodes_list, r.loose_list = src, dst, [dst], ['STRICT']
    r.initial_spectrum = spectrum
    for k, v in over.items():
        setattr(r, k, v)
    return r


def carriers(entries):
    """entries: iterable of (f_hz, baud, slot, label, tx_power_w, delta_pdb, tx_osnr, roll_off) in the caller's order"""
    from gnpy.core.info import Carrier
    return {float(f): Carrier(delta_pdb=d, baud_rate=b, slot_width=w, roll_off=ro, tx_osnr=o, tx_power=p, label=lab)
            for (f, b, w, lab, p, d, o, ro) in entries}


def shipped_spectrum(fname):
    from gnpy.tools.json_io import load_initial_spectrum
    return load_initial_spectrum(EX / fname)


def permuted(spectrum, rng):
    items = list(spectrum.items())
    rng.shuffle(items)
    if [k for k, _ in items] == list(spectrum.keys()) and len(items) > 1:
        items = items[::-1]
    return dict(items)


# ------------------------------------------------------------------------------------------------- recording
def bands_of(el):
    """the band(s) an amplifier can carry, from its equipment parameters: f_min / f_max of the Edfa, and of every member
    amplifier of a Multiband_amplifier (NOT the derived `params.bands` attribute the launch filter itself reads)"""
    from gnpy.core.elements import Multiband_amplifier
    amps = list(el.amplifiers.values()) if isinstance(el, Multiband_amplifier) else [el]
    return [[mhz(a.params.f_min), mhz(a.params.f_max)] for a in amps]


def amp_bands(path):
    from gnpy.core.elements import Edfa, Multiband_amplifier
    return [bands_of(el) for el in path if isinstance(el, (Edfa, Multiband_amplifier))]


def service_request(eq, src, dst, trx_type, spacing, trx_mode=None):
    """a service loaded like any service file.  Without mode the transceiver mode is chosen by
    propagate_and_optimize_mode (one propagation per baud rate, one update_snr per candidate mode)"""
    from gnpy.tools.json_io import requests_from_json
    data = {'path-request': [{
        'request-id': f'svc-{trx_type}-{trx_mode}-{int(spacing / 1e9)}', 'source': src, 'destination': dst,
        'src-tp-id': src, 'dst-tp-id': dst, 'bidirectional': False,
        'path-constraints': {'te-bandwidth': {'technology': 'flexi-grid', 'trx_type': trx_type, 'trx_mode': trx_mode,
                                              'spacing': spacing, 'path_bandwidth': 100e9}}}]}
    r = requests_from_json(data, eq)[0]
    r.nodes_list, r.loose_list = [dst], ['STRICT']
    return r


def auto_mode_request(eq, src, dst, trx_type, spacing):
    return service_request(eq, src, dst, trx_type, spacing, None)


def record(name, netname, src, dst, spectrum=None, ref=None, auto_mode=None, via=None, service=None, path_objects=None,
           **over):
    """run the real propagate() - or, with auto_mode=(trx_type, spacing), the real propagate_and_optimize_mode() -
    once on a fresh copy of the path; returns (trace, side) where trace is the integer trace judged by TLC and side
    keeps what a human needs to read a violation (exception text, element uids).  The automatic mode selection
    propagates once per explored baud rate: the trace holds the LAST propagation and the figures the receiver
    reports when the call returns."""
    import gnpy.topology.request as rq
    from gnpy.core.exceptions import SpectrumError
    if service:
        # the transmission-example flow for a service with a user spectrum: the request to propagate is the one
        # designed_network() returns for (service_req, initial_spectrum); service = (trx_type, trx_mode, spacing)
        net, eq, req, sp = network(netname, service_req=lambda e: service_request(e, src, dst, service[0], service[2],
                                                                                 service[1]),
                                   initial_spectrum=spectrum)
        base_req = req
    else:
        net, eq, base_req, sp = network(netname)
    if service:
        pass
    elif auto_mode:
        req = auto_mode_request(eq, src, dst, *auto_mode)
    else:
        req = make_request(base_req, src, dst, spectrum, **over)
    if via:
        # a route made of legs concatenated through the transponders of the `via` sites (each crossed once, its ROADM
        # twice: drop then add), handed to propagate() as one path
        stops = [src] + list(via) + [dst]
        legs = [rq.compute_constrained_path(net, make_request(base_req, a, b)) for a, b in zip(stops[:-1], stops[1:])]
        if any(len(leg) < 2 for leg in legs):
            raise Machinery(f'{name}: no route along {stops} in {netname}')
        path = copy.deepcopy(legs[0] + [el for leg in legs[1:] for el in leg[1:]])
    elif path_objects is not None:
        path = path_objects             # the very element objects of an earlier propagation: a second crossing
    else:
        path = copy.deepcopy(rq.compute_constrained_path(net, req))
    if len(path) < 2:
        raise Machinery(f'{name}: no route from {src} to {dst} in {netname}')
    labels = Labels()
    given = []
    if spectrum is not None:
        keys = [Labels.key(c.label, c.tx_power, c.tx_osnr, c.roll_off, c.delta_pdb) for c in spectrum.values()]
        labels.declare(keys)
        given = [[mhz(f), int(round(c.slot_width / 1e6)), int(round(c.baud_rate / 1e6)), labels.of(k)]
                 for (f, c), k in zip(spectrum.items(), keys)]
    stages = []
    orig_filter = rq.filter_si

    def filter_si(p, equipment, si):
        from harness.record import snapshot
        del stages[:]                   # a new propagation starts (automatic mode selection: one per baud rate)
        rec.take()
        stages.append(('Launch', snapshot(si)))
        out = orig_filter(p, equipment, si)
        stages.append(('Filter', snapshot(out)))
        return out

    outcome, exc, tb = 0, None, None
    with sim_params(sp), Recording(keep_element=False) as rec:
        rq.filter_si = filter_si
        try:
            if auto_mode:
                rq.propagate_and_optimize_mode(path, req, eq)
            else:
                rq.propagate(path, req, eq)
        except SpectrumError as e:
            outcome, exc = 1, f'SpectrumError: {e}'
        except ValueError as e:
            if 'does not match amplifiers band' in str(e):
                outcome, exc = 2, f'ValueError: {e}'
            else:
                outcome, exc, tb = 3, f'ValueError: {e}', traceback.format_exc()
        except Exception as e:                              # noqa
            outcome, exc, tb = 3, f'{type(e).__name__}: {e}', traceback.format_exc()
        finally:
            rq.filter_si = orig_filter
    return _trace(name, netname, src, dst, path, eq, req, spectrum, auto_mode or service, labels, given, stages,
                  rec.events, outcome, exc, tb, ref)


def _trace(name, netname, src, dst, path, eq, req, spectrum, chosen_by_code, labels, given, stages, events, outcome, exc,
           tb, ref):
    """(trace, side) of one recorded propagation: stages = [('Launch', snapshot), ('Filter', snapshot)], events = the
    element crossings; the receiver's figures are read from path[-1] NOW (when the recorded call has returned)"""
    if spectrum is None and not chosen_by_code:
        # uniform grid of a fixed-mode request: carriers at f_min + i * spacing, i = 1 .. (f_max - f_min) // spacing,
        # every one with the request's symbol rate, roll-off, tx power, tx OSNR and power offset
        n = int((req.f_max - req.f_min) // req.spacing)
        key = Labels.key(f'{req.baud_rate * 1e-9:.2f}G', req.tx_power, req.tx_osnr, req.roll_off, req.offset_db)
        labels.declare([key])
        given = [[mhz(req.f_min + req.spacing * i), int(round(req.spacing / 1e6)), int(round(req.baud_rate / 1e6)),
                  labels.of(key)] for i in range(1, n + 1)]
    elif spectrum is None and stages:
        # automatic mode selection: the symbol rate is chosen by the code; the carriers are those the constructor was handed
        s0 = stages[0][1]
        keys = [Labels.key(s0['label'][k], s0['tx_power'][k], s0['tx_osnr'][k], s0['roll_off'][k],
                           s0['delta_pdb_per_channel'][k]) for k in range(len(s0['frequency']))]
        labels.declare(keys)
        given = [[mhz(s0['frequency'][k]), int(round(s0['slot_width'][k] / 1e6)), int(round(s0['baud_rate'][k] / 1e6)),
                  labels.of(keys[k])] for k in range(len(keys))]
    ev = []
    for cls, snap in stages:
        ev.append(dict(cls=cls, d=0, ops=[], **project_spectrum(snap, labels)))
    uids = ['', ''][:len(ev)]
    for e in events:
        ev.append(dict(cls=e['cls'], d=int(e['depth']), ops=list(e['ops']), **project_spectrum(e['post'], labels)))
        uids.append(e['uid'])
    fdev = 0.0          # float-level deviation of the share sum from 1 (before rounding to ppb), for the tolerance record
    for snap in [sn for _, sn in stages] + [e['post'] for e in events]:
        with np.errstate(divide='ignore', invalid='ignore'):
            d = np.abs((snap['signal'] + snap['ase'] + snap['nli']) / snap['pch'] - 1)
        if len(d) and np.all(np.isfinite(d)):
            fdev = max(fdev, float(np.max(d)))
    rx = dict(f=[], snr=[], osnr=[], onli=[], isnr=[], iosnr=[], inli=[], lab=[])
    if outcome == 0 and ev:
        t = path[-1]
        last = (stages[-1][1] if not events else events[-1]['post'])
        n = len(ev[-1]['f'])

        def at(a, k):
            return a[k] if a is not None and k < len(a) else None
        # the transmitter data the receiving Transceiver itself holds for each carrier (label, tx power)
        rxlab = [labels.of(Labels.key(at(t.propagated_labels, k), at(t.tx_power, k), last['tx_osnr'][k],
                                      last['roll_off'][k], last['delta_pdb_per_channel'][k]))
                 if len(t.tx_power) == n and len(t.propagated_labels) == n else 9999 for k in range(n)]
        rx = dict(f=list(ev[-1]['f']), snr=udbv(t.snr), osnr=udbv(t.osnr_ase), onli=udbv(t.osnr_nli),
                  isnr=ninv(t.snr), iosnr=ninv(t.osnr_ase), inli=ninv(t.osnr_nli), lab=rxlab)
    si = eq['SI']['default']
    trace = dict(name=name, outcome=outcome, req=given, amps=amp_bands(path), dflt=[mhz(si.f_min), mhz(si.f_max)],
                 ev=ev, rx=rx, ref=ref if ref is not None else dict(f=[], snr=[], osnr=[], onli=[]))
    side = dict(name=name, net=netname, src=src, dst=dst, exception=exc, traceback=tb, uids=uids,
                nch=len(given), classes=[e['cls'] for e in ev], float_share_dev=fdev, path=path)
    return trace, side


def record_planning(tag, netname, services):
    """the planning pipeline on a batch of fixed-mode services: requests_from_json, correct_json_route_list,
    build_oms_list, requests_aggregation, compute_path_dsjctn and compute_path_with_disjunction (the real ones, on a copy of
    the designed network),
    every propagate() call inside recorded as one trace.  services: (src, dst, trx_type, trx_mode, spacing,
    bidirectional); a bidirectional service is propagated A to Z and then Z to A.  The figures of every receiver -
    both ends of a bidirectional service - are read from the paths the pipeline RETURNS, when it has returned."""
    import gnpy.topology.request as rq
    from gnpy.tools.json_io import requests_from_json
    from gnpy.topology.spectrum_assignment import build_oms_list
    from harness.record import snapshot
    net, eq, _, sp = network(netname)
    net = copy.deepcopy(net)        # build_oms_list attaches the line systems to the elements: not on the shared network
    data = {'path-request': [{
        'request-id': f'{k}', 'source': s, 'destination': d, 'src-tp-id': s, 'dst-tp-id': d, 'bidirectional': bool(bi),
        'path-constraints': {'te-bandwidth': {'technology': 'flexi-grid', 'trx_type': trx, 'trx_mode': mode,
                                              'spacing': spacing, 'path_bandwidth': 100e9}}}
        for k, (s, d, trx, mode, spacing, bi) in enumerate(services)]}
    calls = []                  # one per propagate() call: path (the very objects), req, stages, events, outcome
    orig_filter, orig_propagate = rq.filter_si, rq.propagate

    def filter_si(p, equipment, si):
        if calls and calls[-1]['open']:
            calls[-1]['stages'].append(('Launch', snapshot(si)))
        out = orig_filter(p, equipment, si)
        if calls and calls[-1]['open']:
            calls[-1]['stages'].append(('Filter', snapshot(out)))
        return out

    def propagate(path, req, equipment):
        rec.take()
        c = dict(path=path, req=copy.copy(req), stages=[], events=[], outcome=0, exc=None, tb=None, open=True)
        calls.append(c)
        try:
            return orig_propagate(path, req, equipment)
        except Exception as e:                              # noqa
            c['outcome'], c['exc'], c['tb'] = 3, f'{type(e).__name__}: {e}', traceback.format_exc()
            raise
        finally:
            c['events'], c['open'] = rec.take(), False

    failure = None
    with sim_params(sp), Recording(keep_element=False) as rec:
        rq.filter_si, rq.propagate = filter_si, propagate
        try:
            build_oms_list(net, eq)
            rqs = requests_from_json(data, eq)
            rqs = rq.correct_json_route_list(net, rqs)
            rqs, dsjn = rq.requests_aggregation(rqs, [])
            pths = rq.compute_path_dsjctn(net, eq, rqs, dsjn)
            rq.compute_path_with_disjunction(net, eq, rqs, pths)
        except Exception as e:                              # noqa
            failure = (f'{type(e).__name__}: {e}', traceback.format_exc())
        finally:
            rq.filter_si, rq.propagate = orig_filter, orig_propagate
    if failure and not any(c['outcome'] for c in calls):
        # the pipeline itself failed on valid services (outside propagate): reported on a trace without events
        calls.append(dict(path=[], req=None, stages=[], events=[], outcome=3, exc=failure[0], tb=failure[1]))
    out = []
    for c in calls:
        path, req = c['path'], c['req']
        a, z = (path[0].uid, path[-1].uid) if path else ('', '')
        way = 'pipeline' if req is None else 'A->Z' if a == req.source else 'Z->A'
        bi = 'bidirectional' if req is not None and req.bidir else 'one-way'
        name = f'{netname}:{tag}:{bi}:{way}:{a}->{z}'
        if req is None:
            si = eq['SI']['default']
            # (the batch is valid and must be propagated: it is stood for by one carrier in the middle of the default band)
            out.append((dict(name=name, outcome=3, req=[[mhz((si.f_min + si.f_max) / 2), 50_000, 32_000, 1]], amps=[],
                             dflt=[mhz(si.f_min), mhz(si.f_max)], ev=[],
                             rx=dict(f=[], snr=[], osnr=[], onli=[], isnr=[], iosnr=[], inli=[], lab=[]),
                             ref=dict(f=[], snr=[], osnr=[], onli=[])),
                        dict(name=name, net=netname, src='', dst='', exception=c['exc'], traceback=c['tb'], uids=[], nch=0,
                             classes=[], float_share_dev=0.0, path=[])))
            continue
        out.append(_trace(name, netname, a, z, path, eq, req, None, False, Labels(), [], c['stages'], c['events'],
                          c['outcome'], c['exc'], c['tb'], None))
    return out


def record_chain(name, netname, pick, launch):
    """real elements of a designed network called in turn, outside propagate(), on a spectrum built by the caller (loads
    that a designed line cannot be driven to through its ROADMs and amplifiers, e.g. every carrier of a full band at the
    +9 dBm limit at a fibre input); ends in a Transceiver of the network.  Same trace format: Launch, Filter (nothing
    to filter), one event per element, the receiver's figures.
    pick(net) -> list of elements (deep-copied here); launch() -> SpectralInformation"""
    from gnpy.core.elements import Transceiver
    from harness.record import snapshot
    net, eq, _, sp = network(netname)
    chain = [copy.deepcopy(el) for el in pick(net)]
    chain.append(copy.deepcopy(next(n for n in net.nodes() if isinstance(n, Transceiver))))
    si = launch()
    labels = Labels()
    s0 = snapshot(si)
    keys = [Labels.key(s0['label'][k], s0['tx_power'][k], s0['tx_osnr'][k], s0['roll_off'][k],
                       s0['delta_pdb_per_channel'][k]) for k in range(len(s0['frequency']))]
    labels.declare(keys)
    given = [[mhz(s0['frequency'][k]), int(round(s0['slot_width'][k] / 1e6)), int(round(s0['baud_rate'][k] / 1e6)),
              labels.of(keys[k])] for k in range(len(keys))]
    outcome, exc, tb = 0, None, None
    with sim_params(sp), Recording(keep_element=False) as rec:
        try:
            for el in chain:
                si = el(si)
        except Exception as e:                              # noqa
            outcome, exc, tb = 3, f'{type(e).__name__}: {e}', traceback.format_exc()
    ev = [dict(cls=cls, d=0, ops=[], **project_spectrum(s0, labels)) for cls in ('Launch', 'Filter')]
    uids = ['', '']
    for e in rec.events:
        ev.append(dict(cls=e['cls'], d=int(e['depth']), ops=list(e['ops']), **project_spectrum(e['post'], labels)))
        uids.append(e['uid'])
    fdev = 0.0
    for snap in [s0] + [e['post'] for e in rec.events]:
        with np.errstate(divide='ignore', invalid='ignore'):
            d = np.abs((snap['signal'] + snap['ase'] + snap['nli']) / snap['pch'] - 1)
        if len(d) and np.all(np.isfinite(d)):
            fdev = max(fdev, float(np.max(d)))
    rx = dict(f=[], snr=[], osnr=[], onli=[], isnr=[], iosnr=[], inli=[], lab=[])
    if outcome == 0:
        t = chain[-1]
        rx = dict(f=list(ev[-1]['f']), snr=udbv(t.snr), osnr=udbv(t.osnr_ase), onli=udbv(t.osnr_nli),
                  isnr=ninv(t.snr), iosnr=ninv(t.osnr_ase), inli=ninv(t.osnr_nli), lab=list(ev[-1]['lab']))
    trace = dict(name=name, outcome=outcome, req=given, amps=[], dflt=[-50_000_000, 50_000_000], ev=ev, rx=rx,
                 ref=dict(f=[], snr=[], osnr=[], onli=[]))
    side = dict(name=name, net=netname, src=uids[2] if len(uids) > 2 else '', dst='chain', exception=exc, traceback=tb,
                uids=uids, nch=len(given), classes=[e['cls'] for e in ev], float_share_dev=fdev, path=chain)
    return trace, side


def full_band_load():
    """96 carriers on the 50 GHz grid, 32 and 42 GBaud alternating, +9 / +6 / +3 dBm in turn"""
    from gnpy.core.info import create_arbitrary_spectral_information
    idx = np.arange(96)
    pch = 1e-3 * 10 ** (np.choose(idx % 3, [9.0, 6.0, 3.0]) / 10)
    return create_arbitrary_spectral_information(frequency=191.35e12 + 50e9 * idx, slot_width=50e9, pch=pch,
                                                 baud_rate=np.where(idx % 2 == 0, 32e9, 42e9), roll_off=0.15,
                                                 tx_osnr=40.0, tx_power=pch, label='full')


def longest_fiber(net, type_variety):
    from gnpy.core.elements import Fiber
    fibers = sorted((n for n in net.nodes() if type(n) is Fiber and n.type_variety == type_variety),
                    key=lambda n: (-n.params.length, n.uid))
    return fibers[:1]


def ref_of(trace):
    r = trace['rx']
    return dict(f=r['f'], snr=r['snr'], osnr=r['osnr'], onli=r['onli'])


# ------------------------------------------------------------------------------------------------- scenarios
def seeded_carriers(rng, lo_mhz, hi_mhz, n_max=40, max_dbm=10.0):
    """arbitrary carrier list: slots of 50 / 75 / 100 / 37.5 GHz with 32 / 64 / 90 / 32 GBaud laid side by side with random
    guard gaps, per-carrier tx power (<= max_dbm), power offset and tx OSNR; returned in increasing frequency"""
    kinds = [(50_000, 32_000), (75_000, 64_000), (100_000, 90_000), (37_500 * 2, 60_000), (50_000, 50_000)]
    out = []
    edge = lo_mhz
    while len(out) < n_max:
        w, b = rng.choice(kinds)
        gap = rng.choice([0, 0, 12_500, 50_000, 200_000])
        f = edge + gap + w // 2
        if f + w // 2 > hi_mhz:
            break
        p_dbm = rng.choice([0.0, 0.0, -3.0, 2.5, max_dbm])
        out.append((hz(f), b * 1e6, w * 1e6, f'k{len(out) % 3}', 10 ** (p_dbm / 10) * 1e-3,
                    rng.choice([0.0, 0.0, 1.5, -2.0]), rng.choice([40.0, 35.0, 45.0]), 0.15))
        edge = f + w // 2
    return out


LEVELS = (-6.0, -3.0, 0.0, 3.0, 6.0)


def power_blocks(rng, n, lo_mhz=-1_000_000):
    """a strongly non-uniform comb of n 32 GBaud carriers on the 50 GHz grid: blocks of 3 to 8 neighbours launched at the
    same level, the level changing by 3 to 12 dB from one block to the next (several generations of transponders sharing a line)"""
    out, level = [], 0.0
    while len(out) < n:
        level = rng.choice([x for x in LEVELS if abs(x - level) >= 3.0])
        for _ in range(rng.randint(3, 8)):
            if len(out) < n:
                out.append((hz(lo_mhz + 50_000 * len(out)), 32e9, 50e9, f'{level:+.0f}dB', 1e-3, level, 40.0, 0.15))
    return out


def scenarios(tier, seed):
    """list of callables, each returning [(trace, side), ...] (a base run and, for order checks, its permuted twin)"""
    rng = random.Random(seed)
    jobs = []

    def uniform(tag, netname, k, **over):
        def go():
            net = network(netname)
            if net is None:
                return []
            return [record(f'{netname}:{tag}:{s}->{d}', netname, s, d, None, **over)
                    for s, d in seeded_pairs(net[0], rng, k)]
        jobs.append(go)

    def with_spectrum(tag, netname, spectrum_fn, pair=None, permute=True, then=()):
        """then: (name, spectrum_fn) pairs propagated afterwards over the very element objects of the base run (what-if
        studies on one designed line: each propagation stands for itself, whatever the line carried before)"""
        def go():
            net = network(netname)
            if net is None:
                return []
            s, d = pair or seeded_pairs(net[0], rng, 1)[0]
            sp = spectrum_fn()
            base = record(f'{netname}:{tag}:{s}->{d}', netname, s, d, sp)
            out = [base]
            if permute and base[0]['outcome'] == 0 and len(sp) > 1:
                out.append(record(f'{netname}:{tag}:permuted:{s}->{d}', netname, s, d, permuted(sp, rng),
                                  ref=ref_of(base[0])))
            for sub, fn in then:
                out.append(record(f'{netname}:{tag}:then-{sub}:{s}->{d}', netname, s, d, fn(), path_objects=base[1]['path']))
            return out
        jobs.append(go)

    def std(f_mhz, w=50_000, b=32_000, lab='x', p=1e-3):
        return (hz(f_mhz), b * 1e6, w * 1e6, lab, p, 0.0, 40.0, 0.15)

    def auto(tag, netname, k, trx_type, spacing, first=()):
        def go():
            net = network(netname)
            if net is None:
                return []
            pairs = list(first) + [p for p in seeded_pairs(net[0], rng, k) if p not in first]
            return [record(f'{netname}:{tag}:{s}->{d}', netname, s, d, auto_mode=(trx_type, spacing))
                    for s, d in pairs[:max(k, len(first))]]
        jobs.append(go)

    def via_route(tag, netname, k):
        """routes of two legs concatenated through the transponder of an intermediate site"""
        def go():
            net = network(netname)
            if net is None:
                return []
            trx = transceivers(net[0])
            out = []
            for s, d in seeded_pairs(net[0], rng, k):
                mids = [m for m in trx if m not in (s, d)]
                m = rng.choice(mids)
                out.append(record(f'{netname}:{tag}:{s}->{m}->{d}', netname, s, d, via=[m]))
            return out
        jobs.append(go)

    def planning_batch(tag, netname, k_both_ways, k_one_way, trx_type, trx_mode, spacing):
        """a batch of fixed-mode services through the planning pipeline: k_both_ways seeded pairs, each requested as a
        bidirectional service in BOTH orientations (whichever direction of the pair is the weaker one, it is once the
        A to Z and once the Z to A direction), then k_one_way unidirectional services"""
        def go():
            net = network(netname)
            if net is None:
                return []
            pairs = seeded_pairs(net[0], rng, k_both_ways + k_one_way)
            services = [(a, z, trx_type, trx_mode, spacing, True) for s, d in pairs[:k_both_ways] for a, z in ((s, d), (d, s))]
            services += [(s, d, trx_type, trx_mode, spacing, False) for s, d in pairs[k_both_ways:]]
            return record_planning(tag, netname, services)
        jobs.append(go)

    thorough = tier == 'thorough'
    # --- mesh V2 (single band, Fused nodes, several amplifier models)
    uniform('uniform', 'mesh', 20 if thorough else 1)
    # services computed by the planning pipeline, both directions of bidirectional ones
    planning_batch('planning', 'mesh', 4 if thorough else 1, 4 if thorough else 1, 'Voyager', 'mode 1', 50e9)
    if thorough:
        planning_batch('planning-44G', 'mesh', 2, 1, 'Voyager', 'mode 3', 75e9)
        planning_batch('planning', 'sweden5', 2, 1, 'OpenROADM MSA ver. 5.0', '200 Gbit/s, 31.57 Gbaud, DP-16QAM', 50e9)
    via_route('two-legs-through-a-transponder', 'mesh', 4 if thorough else 1)
    # grids anchored below the amplifiers' band by a fraction of the spacing
    uniform('uniform-grid-from-190.96THz', 'mesh', 1, f_min=190.96e12)
    if thorough:
        uniform('uniform-75GHz-grid-from-191.0THz', 'mesh', 1, f_min=191.0e12, spacing=75e9, baud_rate=64e9)

    def same_objects_again(netname, tag):
        """three propagations over the SAME element objects: the uniform grid, then two user spectra with the same
        plan and the same total power whose strong (+9 dB) and weak (-24 dB) carriers are swapped"""
        def go():
            net = network(netname)
            if net is None:
                return []
            s, d = seeded_pairs(net[0], rng, 1)[0]

            def comb(strong_first, tx):
                return carriers([(hz(50_000 * k), 32e9, 50e9, 's' if (k % 2 == 0) == strong_first else 'w', tx,
                                  9.0 if (k % 2 == 0) == strong_first else -24.0, 40.0, 0.15) for k in range(12)])
            out = [record(f'{netname}:{tag}:1-uniform:{s}->{d}', netname, s, d)]
            for n, sp in ((2, comb(True, 1e-3)), (3, comb(False, 1.5e-3))):
                out.append(record(f'{netname}:{tag}:{n}-swapped-powers:{s}->{d}', netname, s, d, sp,
                                  path_objects=out[-1][1]['path']))
            return out
        jobs.append(go)
    same_objects_again('mesh', 'same-objects')
    uniform('uniform-64G-75GHz+10dBm', 'mesh', 2 if thorough else 1, baud_rate=64e9, spacing=75e9, tx_power=1e-2)
    # automatic mode selection: several candidate modes are evaluated on one propagation
    # (the longest route of the example first: its highest-rate mode is not feasible, a second one is evaluated)
    auto('auto-mode-Voyager-75GHz', 'mesh', 6 if thorough else 3, 'Voyager', 75e9,
         first=[('trx Lannion_CAS', 'trx Vannes_KBE')])
    auto('auto-mode-Voyager-50GHz', 'mesh', 6 if thorough else 2, 'Voyager', 50e9)
    # the transmission-example flow for a service with a user spectrum: designed_network(service_req, initial_spectrum)
    def service_with_spectrum():
        net = network('mesh')
        if net is None:
            return []
        return [record(f'mesh:service+initial_spectrum2:{s}->{d}', 'mesh', s, d,
                       shipped_spectrum('initial_spectrum2.json'), service=('Voyager', 'mode 1', 50e9))
                for s, d in seeded_pairs(net[0], rng, 2 if thorough else 1)]
    jobs.append(service_with_spectrum)
    with_spectrum('initial_spectrum1', 'mesh', lambda: shipped_spectrum('initial_spectrum1.json'))
    with_spectrum('initial_spectrum2', 'mesh', lambda: shipped_spectrum('initial_spectrum2.json'))
    with_spectrum('one-carrier', 'mesh', lambda: carriers([std(0)]), permute=False)
    with_spectrum('two-carriers', 'mesh', lambda: carriers([std(100_000), std(0, lab='y')]))
    with_spectrum('overlap-by-1MHz', 'mesh', lambda: carriers([std(0), std(49_999), std(200_000)]), permute=False)
    with_spectrum('overlap-mixed-width-by-1MHz', 'mesh', lambda: carriers([std(0), std(62_499, w=75_000, b=64_000)]),
                  permute=False)
    with_spectrum('non-neighbour-order-overlap', 'mesh', lambda: carriers([std(200_000), std(0, w=100_000), std(60_000)]),
                  permute=False)
    with_spectrum('baud-wider-than-slot', 'mesh', lambda: carriers([std(0), std(100_000, b=50_001)]), permute=False)
    with_spectrum('touching-slots-baud=slot', 'mesh', lambda: carriers([std(50_000, b=50_000), std(0), std(112_500, w=75_000, b=64_000)]))
    with_spectrum('out-of-band-only', 'mesh', lambda: carriers([std(-3_500_000), std(-4_000_000)]), permute=False)
    for k in range(6 if thorough else 1):
        with_spectrum(f'seeded-mixed-{k}', 'mesh', lambda: carriers(seeded_carriers(rng, -1_800_000, 2_000_000)))
    # --- multi band: C+L path, mixed multi-band / single-band path, single-band path of the same network
    mb = lambda: shipped_spectrum('multiband_spectrum.json')           # noqa
    with_spectrum('multiband_spectrum', 'multiband', mb, pair=('trx Site_A', 'trx Site_D'))
    if thorough:
        with_spectrum('multiband_spectrum', 'multiband', mb, pair=('trx Site_D', 'trx Site_L'))
    # bands carrying different symbol rates: 32 GBaud / 50 GHz in C, 64 GBaud / 75 GHz in L
    mixed_rate = lambda: carriers([(hz(-1_100_000 + 50_000 * k), 32e9, 50e9, 'C-32G', 1e-3, 0.0, 40.0, 0.15)       # noqa
                                   for k in range(40 if thorough else 24)]
                                  + [(hz(-6_100_000 + 75_000 * k), 64e9, 75e9, 'L-64G', 1e-3, 0.0, 38.0, 0.15)
                                     for k in range(30 if thorough else 16)])

    def moved_up(k):
        """the plan above after a what-if edit: its k highest L-band carriers moved to free slots right below the C-band
        comb - as many carriers as before, the same lowest and highest ones, another split between the bands"""
        plan = list(mixed_rate().items())
        top_l = sorted(f for f, c in plan if c.label == 'L-64G')[-k:]
        return dict((hz(-1_200_000 - 75_000 * top_l.index(f)), c) if f in top_l else (f, c) for f, c in plan)
    with_spectrum('mixed-rate-bands', 'multiband', mixed_rate, pair=('trx Site_A', 'trx Site_D'), permute=thorough,
                  then=[('5-carriers-moved-from-L-to-C', lambda: moved_up(5))]
                  + ([('first-plan-again', mixed_rate), ('1-carrier-moved-from-L-to-C', lambda: moved_up(1))] if thorough else []))
    # the same amplifiers met in both orders: wide single-band first / multi-band first
    with_spectrum('multiband_spectrum', 'multiband-wide', mb, pair=('trx Site_L', 'trx Site_D'), permute=thorough)
    with_spectrum('multiband_spectrum', 'multiband-wide', mb, pair=('trx Site_D', 'trx Site_L'), permute=False)
    if thorough:
        with_spectrum('multiband_spectrum', 'multiband', mb, pair=('trx Site_L', 'trx Site_D'))
        with_spectrum('multiband_spectrum', 'multiband', mb, pair=('trx Site_G', 'trx Site_A'))
    edges = lambda: carriers([std(-1_850_000, lab='c-lo'), std(-1_850_001 - 50_000, lab='c-lo-out'),      # noqa
                              std(3_000_000, lab='c-hi'), std(3_000_001 + 50_000, lab='c-hi-out'),
                              std(-2_500_000, lab='gap'), std(-3_025_000, lab='l-hi'), std(-6_575_000, lab='l-lo'),
                              std(-6_575_001 - 50_000, lab='l-lo-out'), std(0, lab='mid'), std(50_000, lab='mid2'),
                              std(-4_000_000, lab='l-mid'), std(-4_050_000, lab='l-mid2')])
    with_spectrum('band-edges', 'multiband', edges, pair=('trx Site_A', 'trx Site_D'))
    with_spectrum('band-edges', 'multiband', edges, pair=('trx Site_D', 'trx Site_L'), permute=False)
    with_spectrum('band-edges', 'multiband-wide', edges, pair=('trx Site_L', 'trx Site_D'), permute=False)
    with_spectrum('band-edges', 'multiband-wide', edges, pair=('trx Site_D', 'trx Site_A'), permute=False)
    with_spectrum('one-carrier-per-band', 'multiband', lambda: carriers([std(0, lab='c'), std(-4_000_000, lab='l')]),
                  pair=('trx Site_A', 'trx Site_D'), permute=False)
    uniform('uniform', 'multiband', 8 if thorough else 1)
    # --- OpenROADM, EDFA example, fused ROADM, Raman, CORONET
    uniform('uniform', 'sweden5-lowpower', 4 if thorough else 1)
    if thorough:
        uniform('uniform', 'sweden5', 8)
    uniform('uniform', 'edfa-unamplified', 1)
    if thorough:
        uniform('uniform', 'edfa', 1)
    # automatic mode selection with modes that define CD / PMD / PDL penalties, on long routes
    auto('auto-mode-OpenROADM-87.5GHz', 'sweden5', 6 if thorough else 3, 'OpenROADM MSA ver. 5.0', 87.5e9)
    uniform('uniform', 'fusedroadm', 2 if thorough else 1)
    with_spectrum('seeded-mixed', 'fusedroadm', lambda: carriers(seeded_carriers(rng, -1_800_000, 2_000_000, 12)))
    with_spectrum('raman-mixed', 'raman-lowpump', lambda: carriers(seeded_carriers(rng, -1_800_000, 2_000_000, 6)),
                  permute=thorough)
    # NLI computed for a few channels only (none at the edges, two of them across a 5 dB power step) and inter- /
    # extrapolated for the others, on non-flat combs of 24 carriers and on the grid
    two_level = lambda: carriers([(hz(-600_000 + 50_000 * k), 32e9, 50e9, 'low' if k < 12 else 'high', 1e-3,       # noqa
                                   0.0 if k < 12 else 5.0, 40.0, 0.15) for k in range(24)])
    with_spectrum('two-power-levels', 'mesh-ggn', two_level, permute=False)
    if thorough:
        with_spectrum('seeded-mixed', 'mesh-ggn', lambda: carriers(seeded_carriers(rng, -1_800_000, 2_000_000, 24)),
                      permute=False)
    # the evaluated channels given by their number only, on combs made of blocks of carriers at very different levels
    for k in range(4 if thorough else 2):
        with_spectrum(f'power-blocks-{k}', 'mesh-ggn-n', lambda: carriers(power_blocks(rng, 40)), permute=False)
    uniform('uniform', 'mesh-ggn-n', 1)
    if thorough:
        uniform('uniform', 'mesh-ggn', 3)
    # fibres of either dispersion sign, ROADMs with detailed per-path impairment profiles
    uniform('uniform', 'mesh-mixed', 8 if thorough else 2)
    # a full band at +3 .. +9 dBm per carrier straight into the longest fibre of either dispersion sign
    for tv in ('NZDF_NEG', 'SSMF'):
        jobs.append(lambda tv=tv: [record_chain(f'mesh-mixed:full-band-high-power:{tv}', 'mesh-mixed',
                                                lambda net: longest_fiber(net, tv), full_band_load)]
                    if network('mesh-mixed') else [])
    # high but valid load (+9 dBm per carrier in the spans) on fibres of either dispersion sign
    with_spectrum('high-power', 'mesh-mixed', lambda: carriers([(hz(50_000 * k), 32e9 if k % 2 else 42e9, 50e9, 'hp', 1e-3,
                                                                 9.0, 40.0, 0.15) for k in range(12)]), permute=False)

    def through_lannion():
        net = network('mesh-mixed')
        if net is None:
            return []
        return [record(f'mesh-mixed:express-through-add-drop-shelf:{s}->{d}', 'mesh-mixed', s, d, None)
                for s, d in pairs_through('mesh-mixed', 'roadm Lannion_CAS', rng, 6 if thorough else 2)]
    jobs.append(through_lannion)
    with_spectrum('seeded-mixed', 'mesh-mixed', lambda: carriers(seeded_carriers(rng, -1_800_000, 2_000_000, 24)),
                  permute=thorough)
    # Raman span whose fibre has its own, shorter, Raman gain table: L-band carriers 15 to 18 THz below the pump
    with_spectrum('l-band-carriers', 'raman-shorttable',
                  lambda: carriers([(hz(-6_100_000 + 300_000 * k), 32e9, 50e9, 'L', 1e-3, 0.0, 40.0, 0.15) for k in range(10)]),
                  permute=False)
    if thorough:
        uniform('uniform', 'sweden4', 8)
        with_spectrum('initial_spectrum2', 'sweden5', lambda: shipped_spectrum('initial_spectrum2.json'))
        uniform('uniform', 'raman', 1)
        with_spectrum('raman-mixed', 'raman-gn', lambda: carriers(seeded_carriers(rng, -1_800_000, 2_000_000, 6)))
        uniform('uniform', 'raman-lowpump', 1)
        uniform('uniform', 'coronet', 8)
        with_spectrum('initial_spectrum2', 'coronet', lambda: shipped_spectrum('initial_spectrum2.json'))
    return jobs


def collect(chk):
    """run every scenario of the tier; returns (traces, sides)"""
    traces, sides = [], {}
    for job in scenarios(chk.tier, chk.seed):
        for tr, side in job():
            if tr['name'] in sides:
                tr['name'] = side['name'] = f"{tr['name']}#{len(sides)}"
            traces.append(tr)
            sides[tr['name']] = side
    if NOT_LOADED:
        chk.cov['networks_not_loaded'] = dict(NOT_LOADED)
    if LOAD_NOTES:
        chk.cov['network_load_notes'] = dict(LOAD_NOTES)
    return traces, sides


# ------------------------------------------------------------------------------------------------- judging
def judge(traces, chk, tag='prop'):
    """one TLC pass of Trace_Propagation over all traces; returns {name: [(step, clause), ...]}"""
    if not traces:
        return {}
    data = '\n'.join(json.dumps(t, separators=(',', ':')) for t in traces) + '\n'
    res = tlc.run('Trace_Propagation', extra_files={'trace.ndjson': data}, env={'TRACE_FILE': 'trace.ndjson'},
                  workers=min(4, int(__import__('os').environ.get('VERIF_TLC_WORKERS', '16'))), timeout=1800,
                  tag=f'{tag}-trace')
    if not res.ok:
        raise Machinery(f'trace validation run failed: {res.error or res.violated}\n{res.out[-2000:]}')
    chk.states += res.distinct
    chk.transitions += res.generated
    verdicts = {v['name']: v for v in res.emitted}
    out = {}
    for t in traces:
        v = verdicts.get(t['name'])
        if v is None:
            raise Machinery(f'no verdict for trace {t["name"]}')
        if v['n'] != len(t['ev']):
            raise Machinery(f'trace {t["name"]} consumed {v["n"]}/{len(t["ev"])} events')
        out[t['name']] = [(int(s), str(c)) for s, c in v['viol']]
    chk.cov['b3_trace_bytes'] = chk.cov.get('b3_trace_bytes', 0) + len(data)
    chk.cov['b3_judge_wall_s'] = round(chk.cov.get('b3_judge_wall_s', 0) + res.wall, 2)
    return out


def report(chk, traces, sides, verdicts, clauses, pid):
    """turn the verdicts on the clauses of one property into violations / coverage; returns the number of clean traces"""
    ok = 0
    exercised = {}
    for t in traces:
        side = sides[t['name']]
        mine = [(s, c) for s, c in verdicts[t['name']] if c in clauses]
        for e in t['ev']:
            exercised[e['cls']] = exercised.get(e['cls'], 0) + 1
        chk.case((side['net'], side['src'], side['dst'], t['name'].split(':')[1]), nontrivial=t['outcome'] == 0)
        if not mine:
            ok += 1
            continue
        seen = set()
        for step, clause in mine:
            cls = t['ev'][step - 1]['cls'] if step >= 1 else 'request'
            key = (clause, cls)
            if key in seen:
                continue
            seen.add(key)
            detail = dict(trace=t['name'], step=step, clause=clause, element_class=cls,
                          element=side['uids'][step - 1] if 1 <= step <= len(side['uids']) else None,
                          outcome=t['outcome'], exception=side['exception'], channels=side['nch'])
            if side['traceback']:
                detail['traceback'] = side['traceback'][-1500:]
            sig = f'B3|{clause}|{cls}'
            if step == 0 and t['outcome'] == 3:
                exc = (side['exception'] or '').split(':')[0]
                where = (side['traceback'] or '').strip().splitlines()
                fn = next((ln.split(' in ')[-1] for ln in reversed(where) if ln.strip().startswith('File "/repo')), '?')
                one = 'one-carrier-in-an-amplifier-band' if _has_single_channel_band(t) else 'other'
                sig = f'B3|{clause}|propagate-raises-{exc}-in-{fn}|{one}'
            chk.violation(sig, detail)
    chk.cov[f'{pid.lower()}_b3_element_crossings'] = exercised
    return ok


def _has_single_channel_band(t):
    """projection used only to name the class of a crashing input: does some amplifier band hold exactly one of the
    requested carriers?"""
    for bands in t['amps']:
        for lo, hi in bands:
            n = sum(1 for f, w, _, _ in t['req'] if f - w // 2 >= lo and f + w // 2 <= hi)
            if n == 1:
                return True
    return False


def deviations(traces):
    """measured worst deviations on the traces (for the tolerance record): share sum vs 1e9, passive-element change,
    amplifier NLI change, fibre OSNR change, permuted-order change (integers of the projections)"""
    dev = dict(share_sum_ppb=0, passive_udb=0, amp_nli_udb=0, fiber_osnr_udb=0, order_udb=0, inv_identity=0)
    for t in traces:
        base = None
        for e in t['ev']:
            for s, a, n in zip(e['s'], e['a'], e['n']):
                dev['share_sum_ppb'] = max(dev['share_sum_ppb'], abs(s + a + n - 10 ** 9))
            if e['d'] == 0 and base is not None and base['f'] == e['f']:
                def delta(key):
                    return max((abs(x - y) for x, y in zip(e[key], base[key]) if abs(x) < INF and abs(y) < INF), default=0)
                if e['cls'] in ('Roadm', 'Fused', 'Transceiver'):
                    dev['passive_udb'] = max(dev['passive_udb'], delta('gsnr'), delta('osnr'), delta('nli'))
                elif e['cls'] in ('Edfa', 'Multiband_amplifier'):
                    dev['amp_nli_udb'] = max(dev['amp_nli_udb'], delta('nli'))
                elif e['cls'] == 'Fiber':
                    dev['fiber_osnr_udb'] = max(dev['fiber_osnr_udb'], delta('osnr'))
            if e['d'] == 0:
                base = e
        r, ref = t['rx'], t['ref']
        if ref['f'] and ref['f'] == r['f']:
            for k in ('snr', 'osnr', 'onli'):
                dev['order_udb'] = max([dev['order_udb']] + [abs(x - y) for x, y in zip(r[k], ref[k]) if abs(x) < INF])
        for x, y, z in zip(r['isnr'], r['iosnr'], r['inli']):
            if max(x, y, z) < INF:
                dev['inv_identity'] = max(dev['inv_identity'], abs(x - y - z))
    return dev
