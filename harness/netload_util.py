"""Network loading (spec/NetworkLoad.tla): topology document + equipment library -> network graph, or a refusal.

B1  MC_NetworkLoad: every element document over a small vocabulary (type x variety x written-parameter pattern), a fixed
    set of elements under the connection lists of up to 3 entries over 8 connections (with and without a uid used twice),
    pairs of elements refused for different reasons; the lemmas of NetworkLoad.tla as invariants, witnesses for every refusal / lemma
    antecedent / recorded surprise in one ASSUME.
B2  TLC emits the library once (Header) and one `[c |-> document, e |-> expected outcome]` per case.  The library becomes a
    real equipment dict (example-data/eqpt_config.json with its Fiber / RamanFiber / Edfa / Roadm lists replaced, loaded by
    gnpy.tools.json_io._equipment_from_json; the loaded entries are projected back and must equal the Header), every
    document a real topology JSON dict loaded by the real gnpy.tools.json_io.network_from_json; the resulting graph (or
    the exception) is projected into the specification's integer record and compared with TLC's expectation field by
    field.  Python only encodes and projects.

Run alone:  PYTHONPATH=/verif /venv/bin/python -m harness.netload_util [--mutant NAME]
"""
import copy
import json
import os
import re
import tempfile
import traceback
from pathlib import Path

from harness import tlc
from harness.core import Check, Machinery
from harness.gnpy_util import EX, NONE

NO_NAME = '-'
# model integer -> document number: value = n / DIV[key] (a division by an exact power of ten is correctly rounded, so the
# double is the one the JSON literal would give); the projection multiplies back and must land on the integer
DIV = {'loss_coef': 1e3, 'att_in': 1e3, 'con_in': 1e3, 'con_out': 1e3, 'dispersion': 1e8, 'effective_area': 1e13,
       'pmd_coef': 1e18, 'length': 1, 'loss': 1e3,
       'gain_flatmax': 1e3, 'gain_min': 1e3, 'p_max': 1e3, 'f_min': 1e-9, 'f_max': 1e-9,
       'gain_target': 1e3, 'delta_p': 1e3, 'out_voa': 1e3, 'in_voa': 1e3, 'tilt_target': 1e3,
       'target_pch_out_db': 1e3, 'target_psd_out_mWperGHz': 1e6, 'target_out_mWperSlotWidth': 1e6,
       'add_drop_osnr': 1e3, 'pmd': 1e15, 'pdl': 1e3, 'temperature': 1,
       'loss_dB_per_m': 1e6, 'frequency': 1e-9}          # projection only: the loaded fibre's loss in micro-dB/m, Hz -> GHz
BOOLS = {'out_voa_auto', 'allowed_for_design'}
NAMES = {'type_variety', 'type_def'}
LISTS = {'preamp_variety_list', 'booster_variety_list', 'roadm-path-impairments'}
UNITS = {1: 'm', 1000: 'km'}                    # length_units: metres per unit; any other code is an unknown unit
PER_DEGREE_DIV = {'per_degree_pch_out_db': 1e3, 'per_degree_psd_out_mWperGHz': 1e6, 'per_degree_psd_out_mWperSlotWidth': 1e6}
EDFA_KEYS = ('type_variety', 'type_def', 'f_min', 'f_max', 'gain_flatmax', 'gain_min', 'p_max', 'out_voa_auto',
             'allowed_for_design')
EQ_KEYS = ('target_pch_out_db', 'target_psd_out_mWperGHz', 'target_out_mWperSlotWidth')
PUMP = {'power': 0.2, 'frequency': 205e12, 'propagation_direction': 'counterprop'}
# the part of an exception's text that names the rule which refused the load (projection of the message)
RULE_TEXT = (('Unknown network equipment', 'UnknownType'),
             ('was not recognized', 'UnknownVariety'),
             ('invalid equalization settings', 'TwoEqualisations'),
             ('more than one equalisation', 'TwoEqualisationValues'),
             ('Cannot convert length', 'BadLengthUnits'),
             ('without operational parameters', 'RamanNoOperational'),
             ('without raman pumps', 'RamanNoPumps'),
             ('without temperature', 'RamanNoTemperature'),
             ('can not find', 'UnknownEndpoint'))


def _obj(x):
    """TLC prints a function with an empty domain as []"""
    return {} if x == [] else x


# ---- spec -> gnpy: concretisation --------------------------------------------------------------------------------
def scalar(key, n):
    if isinstance(n, (list, str)):
        return n
    if n == NONE:
        return None
    if key in BOOLS:
        return bool(n)
    if key == 'length_units':
        return UNITS.get(n, 'yards')
    if key == 'raman_pumps':
        return [dict(PUMP) for _ in range(n)]
    if key not in DIV:
        raise Machinery(f'netload: no unit known for key {key!r}')
    return n if DIV[key] == 1 else n / DIV[key]


def json_object(d):
    """Dict [val, sub] of the specification -> JSON object"""
    out = {k: scalar(k, v) for k, v in _obj(d['val']).items()}
    for k, s in _obj(d['sub']).items():
        if k in PER_DEGREE_DIV:
            out[k] = {deg: v / PER_DEGREE_DIV[k] for deg, v in _obj(s['val']).items()}
        elif k == 'loss_coef':
            out[k] = {'value': [v / DIV['loss_coef'] for v in s['val']['value']],
                      'frequency': [f * 1e9 for f in s['val']['frequency']]}
        else:
            out[k] = json_object(s)
    return out


def equipment_document(lib):
    """the example equipment document with the Fiber / RamanFiber / Edfa / Roadm lists of the emitted library.  A value the
    equipment loader would default to (pmd_coef 0, effective_area None, the "default" ROADM name) is left out."""
    doc = json.loads((EX / 'eqpt_config.json').read_text())

    def fibre(entry):
        o = json_object(entry)
        if o['effective_area'] is None:
            del o['effective_area']
        if o['pmd_coef'] == 0:
            del o['pmd_coef']
        return o

    def edfa(entry):
        o = json_object(entry)
        del o['f_min'], o['f_max']                                  # the loader's DEFAULT_EDFA_CONFIG band
        o.update({'nf_min': 6, 'nf_max': 10} if o['type_def'] == 'variable_gain' else {'nf0': 5.5})
        return o

    def roadm(entry):
        o = json_object(entry)
        if o['type_variety'] == 'default':
            del o['type_variety']
        return o
    doc['Fiber'] = [fibre(e) for _, e in sorted(lib['Fiber'].items())]
    doc['RamanFiber'] = [fibre(e) for _, e in sorted(lib['RamanFiber'].items())]
    doc['Edfa'] = [edfa(e) for _, e in sorted(lib['Edfa'].items())]
    doc['Roadm'] = [roadm(e) for _, e in sorted(lib['Roadm'].items())]
    return doc


class Projector:
    def __init__(self):
        self.inexact = []
        self.worst = 0.0

    def q(self, key, x):
        """a number of the loaded network -> the specification's integer"""
        if x is None:
            return NONE
        if isinstance(x, bool):
            return int(x)
        v = x * DIV[key]
        r = round(v)
        dev = abs(v - r) / max(1.0, abs(r))
        self.worst = max(self.worst, dev)
        if dev > 1e-9:
            self.inexact.append(key)
        return r

    # -- the library, as loaded
    def library_entry(self, section, obj):
        d = obj.__dict__
        keys = EDFA_KEYS if section == 'Edfa' else ('type_variety',) if section == 'Transceiver' else tuple(d)
        val, sub = {}, {}
        for k in keys:
            v = d[k]
            if isinstance(v, dict):
                sub[k] = {'val': dict(v), 'sub': []}
            elif k in NAMES or k in LISTS:
                val[k] = v
            else:
                val[k] = self.q(k, v)
        return {'val': val or [], 'sub': sub or []}

    # -- one loaded element
    def fibre(self, n):
        p = n.params
        per_freq = p.loss_coef.ndim == 1
        ref = [] if not per_freq and float(p.f_loss_ref) == p.ref_frequency else \
            [self.q('frequency', float(f)) for f in p.f_loss_ref.reshape(-1)]
        out = dict(length=self.q('length', p.length), att_in=self.q('att_in', p.att_in), con_in=self.q('con_in', p.con_in),
                   con_out=self.q('con_out', p.con_out), dispersion=self.q('dispersion', p.dispersion.item()),
                   effective_area=self.q('effective_area', p._effective_area), pmd_coef=self.q('pmd_coef', p.pmd_coef),
                   pmd_coef_defined=int(p.pmd_coef_defined), loss_per_freq=bool(per_freq),
                   # dB/m in the fibre; the document's milli-dB/km is the same integer in micro-dB/m
                   loss_coef=[self.q('loss_dB_per_m', float(x)) for x in p.loss_coef.reshape(-1)], loss_freq=ref)
        if type(n).__name__ == 'RamanFiber':
            out.update(temperature=self.q('temperature', n.temperature), npumps=len(n.raman_pumps))
        return out

    def edfa(self, n):
        out = {k: (getattr(n.params, k) if k in NAMES else self.q(k, getattr(n.params, k))) for k in EDFA_KEYS}
        out['operational'] = {k: self.q(k, getattr(n.operational, k))
                              for k in ('gain_target', 'delta_p', 'out_voa', 'in_voa', 'tilt_target')}
        return out

    def roadm(self, n):
        p = n.params
        out = {k: self.q(k, getattr(p, k)) for k in EQ_KEYS + ('add_drop_osnr', 'pmd', 'pdl')}
        for attr, key in (('per_degree_pch_out_db', 'per_degree_pch_out_db'), ('per_degree_pch_psd', 'per_degree_psd_out_mWperGHz'),
                          ('per_degree_pch_psw', 'per_degree_psd_out_mWperSlotWidth')):
            out[attr] = {deg: round(v * PER_DEGREE_DIV[key]) for deg, v in getattr(p, attr).items()}
        out['preamp_variety_list'] = list(p.restrictions['preamp_variety_list'])
        out['booster_variety_list'] = list(p.restrictions['booster_variety_list'])
        return out

    def node(self, n):
        cls = type(n).__name__
        p = self.fibre(n) if cls in ('Fiber', 'RamanFiber') else self.edfa(n) if cls == 'Edfa' else \
            self.roadm(n) if cls == 'Roadm' else dict(loss=self.q('loss', n.params.loss)) if cls == 'Fused' else \
            dict(design_bands=list(n.params.design_bands))
        return dict(status='ok', uid=n.uid, cls=cls, variety=getattr(n, 'type_variety', NO_NAME), p=p)    # = ResolveElement's record

    def graph(self, g):
        nodes = list(g.nodes())
        index = {id(n): i + 1 for i, n in enumerate(nodes)}
        edges = []
        for a, b, w in g.edges(data='weight'):
            cm = w * 100
            if abs(cm - round(cm)) > 1e-6:
                self.inexact.append('weight')
            edges.append({'from': index[id(a)], 'to': index[id(b)], 'w': round(cm)})
        return dict(status='ok', nodes=[self.node(n) for n in nodes], edges=sorted(edges, key=_edge_key))


def _edge_key(e):
    return e['from'], e['to'], e['w']


def project_exception(ex):
    text = str(ex)
    m = re.search(r"must include '(\w+)'", text)
    if m:
        rule = 'Missing:' + m.group(1)
    elif isinstance(ex, TypeError):
        frames = [f.name for f in traceback.extract_tb(ex.__traceback__)]
        rule = 'RamanNeedsConOut' if 'db2lin' in frames else 'other:' + text[:60]
    else:
        rule = next((r for pat, r in RULE_TEXT if pat in text), 'other:' + text[:60])
    return dict(status='error', kind=type(ex).__name__, rule=rule)


def normalise_expected(e):
    """TLC's [] for an object without keys; the edge set in the projection's order"""
    if e['status'] != 'ok':
        return e
    e = copy.deepcopy(e)
    for n in e['nodes']:
        for k in ('per_degree_pch_out_db', 'per_degree_pch_psd', 'per_degree_pch_psw'):
            if k in n['p']:
                n['p'][k] = _obj(n['p'][k])
    e['edges'] = sorted(e['edges'], key=_edge_key)
    return e


def load_library(lib, edfa_default):
    """write the equipment document under build/, read it back, build the equipment dict with the real loader and check that
    what was loaded IS the library of the specification (the in-memory entry is used, as load_eqpt_topo_from_json does)"""
    from gnpy.tools.json_io import load_json, _equipment_from_json, Amp
    from gnpy.tools.default_edfa_config import DEFAULT_EXTRA_CONFIG
    tlc.BUILD.mkdir(exist_ok=True)
    fd, name = tempfile.mkstemp(prefix='nl-eqpt-', suffix='.json', dir=tlc.BUILD)
    try:
        with os.fdopen(fd, 'w') as fh:
            json.dump(equipment_document(lib), fh)
        eqpt = _equipment_from_json(load_json(Path(name)), DEFAULT_EXTRA_CONFIG)
    finally:
        os.unlink(name)
    proj = Projector()
    for section, entries in lib.items():
        if sorted(eqpt[section]) != sorted(entries):
            raise Machinery(f'netload: library section {section}: loaded {sorted(eqpt[section])}, specification {sorted(entries)}')
        for variety, entry in entries.items():
            got = proj.library_entry(section, eqpt[section][variety])
            if got != entry or proj.inexact:
                raise Machinery(f'netload: library entry {section}/{variety} loaded as {got}, specification says {entry} '
                                f'(inexact: {proj.inexact})')
    defaults = {k: (Amp.default_values[k] if k in NAMES else proj.q(k, Amp.default_values[k])) for k in EDFA_KEYS}
    if defaults != edfa_default['val']:
        raise Machinery(f'netload: Amp.default_values {defaults} differ from the specification {edfa_default["val"]}')
    return eqpt


def element_document(el, variant):
    out = {'uid': el['uid'], 'type': el['type']}
    if el['variety'] != NO_NAME:
        out['type_variety'] = el['variety']
    if el['hasParams']:
        out['params'] = json_object(el['params'])
    if el['hasOper']:
        out['operational'] = json_object(el['oper'])
    elif variant % 2 == 1:
        out['operational'] = None                    # the same model input: no operational block
    return out


def topology_document(c, variant):
    return {'elements': [element_document(el, variant) for el in c['elements']],
            'connections': [{'from_node': x['from'], 'to_node': x['to']} for x in c['connections']]}


# ---- verdict: plain equality with TLC's expectation; these only name what differs ---------------------------------------
def mismatch(e, got):
    if e['status'] != got['status']:
        return f"raises-{got['kind']}-{got['rule'].split(':')[0]}" if e['status'] == 'ok' else f"accepts-{e['rule']}"
    if e['status'] == 'error':
        return f"{e['kind']}-{e['rule']}-reported-as-{got['kind']}-{got['rule'].split(':')[0]}"
    diff = set()
    if len(e['nodes']) != len(got['nodes']):
        diff.add('nodes')
    for a, b in zip(e['nodes'], got['nodes']):
        diff |= {k for k in ('uid', 'cls', 'variety') if a[k] != b[k]}
        diff |= {f'p.{k}' for k in set(a['p']) | set(b['p']) if a['p'].get(k) != b['p'].get(k)}
    if e['edges'] != got['edges']:
        diff.add('edges')
    if got.get('inexact'):
        diff.add('inexact')
    return '+'.join(sorted(diff)) or 'other'


def input_class(c, lib):
    if c['fam'] == 'graph':
        uids = [el['uid'] for el in c['elements']]
        return f"graph,{'uid-twice' if len(set(uids)) < len(uids) else 'uids-unique'},{len(c['connections'])}cx"
    if c['fam'] == 'order':
        return 'two-elements'
    el = c['elements'][0]
    v = el['variety']
    known = 'no-variety' if v == NO_NAME else 'empty-variety' if v == '' else \
        'known-variety' if v in lib.get(el['type'], {}) else 'unknown-variety'
    written = sorted(_obj(el['params']['val'])) + sorted(_obj(el['params']['sub']))
    nulls = any(x == NONE for x in _obj(el['params']['val']).values() if isinstance(x, int))
    return f"{c['fam']},{known},{'nothing-written' if not written else 'null-written' if nulls else 'values-written'}"


# ---- the part -----------------------------------------------------------------------------------------------------
_LIBRARIES = {}


def run_part(chk):
    import gnpy.tools.json_io as jio
    # function-shaped, depth 1: one worker is the fastest (the initial states are computed by one thread anyway)
    r = tlc.run('MC_NetworkLoad', timeout=600, workers=1, tag='network-load')
    chk.add_mc('MC_NetworkLoad (lemmas on every document of the vocabulary + cases emitted)', r)
    heads = [x for x in r.emitted if 'lib' in x]
    cases = [x for x in r.emitted if 'c' in x]
    if len(heads) != 1 or not cases or len(cases) != r.distinct:
        raise Machinery(f'MC_NetworkLoad: {len(heads)} header(s), {len(cases)} cases for {r.distinct} states')
    lib = heads[0]['lib']
    key = json.dumps(heads[0], sort_keys=True)
    if key not in _LIBRARIES:
        _LIBRARIES[key] = load_library(lib, heads[0]['edfa_default'])
    eqpt = _LIBRARIES[key]
    proj = Projector()
    n = 0
    outcomes = {}
    for i, x in enumerate(cases):
        c, e = x['c'], normalise_expected(x['e'])
        doc = topology_document(c, i)
        shown = copy.deepcopy(doc)                                       # network_from_json consumes its argument
        proj.inexact = []
        try:
            g = jio.network_from_json(doc, eqpt)
        except Exception as ex:                                          # noqa: any exception is an observation
            got = project_exception(ex)
        else:
            got = proj.graph(g)
            if proj.inexact:
                got['inexact'] = sorted(set(proj.inexact))
        chk.case(('network-load', json.dumps(c, sort_keys=True)))
        n += 1
        label = e.get('rule') or 'ok'
        outcomes[label] = outcomes.get(label, 0) + 1
        if got != e:
            chk.violation(f'B2|NetworkLoad|{mismatch(e, got)}|{input_class(c, lib)}',
                          dict(case=c, expected=e, observed=got, document=shown))
        elif e['status'] == 'ok' and c['fam'] in ('Roadm', 'graph') and (len(e['edges']) >= 2 or i % 97 == 0):
            chk.sample(dict(kind='B2 document loaded by network_from_json as NetworkLoad.tla expects', document=shown,
                            outcome=e))
    chk.traces += n
    chk.cov['network_load_cases'] = n
    chk.cov['network_load_outcomes'] = dict(sorted(outcomes.items()))
    chk.cov['network_load_projection_tolerance_rel'] = 1e-9
    chk.cov['network_load_projection_worst_deviation_rel'] = proj.worst
    chk.assume('network loading: elements Transceiver, Fused, Fiber, RamanFiber, Edfa, Roadm (Multiband_amplifier not modelled); '
               'every element has a uid and a type; "params" is an object or absent (never null - a null params with a known '
               'variety dies with a TypeError); length and loss_coef are numbers when written (null dies with a TypeError); no '
               'gamma, ref_wavelength, dispersion_per_frequency, lumped_losses or raman_coefficient; no object written where '
               'the library holds a number; Edfa params followed: type_variety, type_def, f_min, f_max, gain_flatmax, gain_min, '
               'p_max, out_voa_auto, allowed_for_design (ripple, dgt, nf model pass through unobserved); operational values are '
               'numbers or null (the empty string is not in the vocabulary); ROADM roadm-path-impairments, per_degree_impairments '
               'and design_bands empty; metadata absent; every connection has from_node and to_node')
    chk.assume('network loading: library = 2 fibre types (SSMF with pmd_coef and effective_area, NZDF with neither), RamanFiber SSMF, '
               '2 amplifiers (variable_gain ampA, fixed_gain ampB), 2 ROADMs ("default" with power equalisation and restrictions, '
               '"psd" with PSD equalisation), the transceivers of example-data/eqpt_config.json; the loaded equipment entries are '
               'projected back and must equal the library the specification printed; numbers are compared as integers of the '
               'specification\'s units after multiplication and round() (relative tolerance 1e-9, worst measured deviation '
               'recorded; an observation off the raster is flagged); the rule that refused a load is read from the exception '
               'text (for the TypeError: from the traceback); edge weights in centimetres')
    return n


# ---- mutants: realistic slips in the anchored code that the repository's tests do not notice -------------------------
def _rewrite(module, fname, *pairs):
    """re-compile a function of the anchored code with each (old, new) text replaced exactly once"""
    import inspect
    import textwrap
    src = textwrap.dedent(inspect.getsource(getattr(module, fname)))
    for old, new in pairs:
        if src.count(old) != 1:
            raise Machinery(f'mutant: pattern {old!r} found {src.count(old)} time(s) in {fname}, expected 1')
        src = src.replace(old, new)
    ns = {}
    exec(compile(src, f'<mutant {fname}>', 'exec'), module.__dict__, ns)
    setattr(module, fname, ns[fname])
    return ns[fname]


def _mut_library_wins():
    """merge: the library's value replaces the one written in the element"""
    import gnpy.core.utils as U
    import gnpy.tools.json_io as jio
    jio.merge_amplifier_restrictions = _rewrite(
        U, 'merge_amplifier_restrictions',
        ('copy_dict1[key] = merge_amplifier_restrictions(copy_dict1[key], dict2[key])',
         'copy_dict1[key] = merge_amplifier_restrictions(copy_dict1[key], dict2[key])\n            else:\n'
         '                copy_dict1[key] = dict2[key]'))


def _mut_zero_is_absent():
    """merge: a 0 (or null) written in the element is taken for a missing key"""
    import gnpy.core.utils as U
    import gnpy.tools.json_io as jio
    jio.merge_amplifier_restrictions = _rewrite(U, 'merge_amplifier_restrictions', ('if key in dict1:', 'if dict1.get(key):'))


def _mut_unknown_roadm_default():
    """a Roadm naming a variety the library does not know is loaded as the default ROADM"""
    import gnpy.tools.json_io as jio
    _rewrite(jio, 'network_from_json',
             ('        cls = _cls_for(typ)\n',
              "        cls = _cls_for(typ)\n        if typ == 'Roadm' and variety not in equipment[typ]:\n"
              "            variety = 'default'\n"))


def _mut_weight_entering_fibre():
    """the edge ENTERING a fibre gets the fibre's length"""
    import gnpy.tools.json_io as jio
    _rewrite(jio, 'network_from_json',
             ('if isinstance(nodes[from_node], elements.Fiber):\n                edge_length = nodes[from_node].params.length',
              'if isinstance(nodes[to_node], elements.Fiber):\n                edge_length = nodes[to_node].params.length'))


def _mut_pmd_defined_always():
    """the library's pmd_coef is remembered as defined by the element (it would be exported)"""
    import gnpy.core.utils as U
    import gnpy.tools.json_io as jio
    jio.use_pmd_coef = _rewrite(U, 'use_pmd_coef', ("dict1['pmd_coef_defined'] = False", "dict1['pmd_coef_defined'] = True"))


def _mut_second_equalisation_ignored():
    """two equalisation keys in a ROADM element are no longer refused by the loader"""
    import gnpy.tools.json_io as jio
    _rewrite(jio, 'merge_equalization',
             ('if sum(roadm_equalizations.values()) > 1:', 'if sum(roadm_equalizations.values()) > 3:'),
             ('if sum(roadm_equalizations.values()) == 1:', 'if sum(roadm_equalizations.values()) >= 1:'))


MUTANTS = {'library_wins': _mut_library_wins, 'zero_is_absent': _mut_zero_is_absent,
           'unknown_roadm_default': _mut_unknown_roadm_default, 'weight_entering_fibre': _mut_weight_entering_fibre,
           'pmd_defined_always': _mut_pmd_defined_always, 'second_equalisation_ignored': _mut_second_equalisation_ignored}


def main(argv=None):
    import argparse
    import time
    ap = argparse.ArgumentParser(description='network loading part alone, with a throw-away Check')
    ap.add_argument('--mutant', choices=sorted(MUTANTS))
    a = ap.parse_args(argv)
    if a.mutant:
        MUTANTS[a.mutant]()
    chk = Check('C08', tier='quick')
    t0 = time.time()
    n = run_part(chk)
    sigs = {}
    for sig, _ in chk.violations:
        sigs[sig] = sigs.get(sig, 0) + 1
    mc = chk.mc_runs[0]
    print(f'network loading{" [mutant " + a.mutant + "]" if a.mutant else ""}: cases={n} TLC states={mc["distinct"]} '
          f'TLC wall={mc["wall"]}s total wall={time.time() - t0:.1f}s violations={len(chk.violations)} '
          f'signatures={len(sigs)} worst projection deviation={chk.cov["network_load_projection_worst_deviation_rel"]:.1e}')
    for sig, k in list(sigs.items())[:5]:
        print(f'  {sig}  ({k} case(s))')
    return 1 if chk.violations else 0


if __name__ == '__main__':
    raise SystemExit(main())
