"""Shared machinery of C01 / C02 on the PowerLedger model: bounded model checking of MC_PowerLedger with a chosen
clause list, emission of behaviours, replay of every emitted behaviour on a real SpectralInformation (B2) and the
B3 pass over recorded propagations (harness.propagation_util).

The expectation of every comparison is what TLC printed (exact rationals of the ledger, exact reciprocal figures
of merit); Python converts them to float and compares within a relative tolerance.
"""
import sys
from pathlib import Path
import math
import zlib
from concurrent.futures import ThreadPoolExecutor
from fractions import Fraction

import numpy as np

from harness import tlc
from harness import propagation_util as pu
from harness.core import Machinery

REL = 1e-12
BOUNDS = {   # tier -> (B1 depth, exhaustive emission depth, simulated traces (x ~14 emitted behaviours), their depth)
    'quick': (4, 3, 150, 6),
    'thorough': (6, 4, 3000, 6),
}


def ledger_cfg(depth, clauses):
    """MC_PowerLedger.cfg with MaxDepth set and only the given clause lines (each check judges its own clauses)"""
    base = (tlc.SPEC / 'MC_PowerLedger.cfg').read_text().replace('MaxDepth = 4', f'MaxDepth = {depth}')
    lines = [ln for ln in base.splitlines() if not ln.startswith(('INVARIANT', 'PROPERTY'))]
    return '\n'.join(lines + list(clauses)) + '\n'


def emit_cfg(depth):
    return (tlc.SPEC / 'MC_PowerLedgerEmit.cfg').read_text().replace('MaxDepth = 3', f'MaxDepth = {depth}')


def model_check(chk, depth, clauses, tag):
    """B1 on MC_PowerLedger with the given clause lines; vacuity: witnesses reachable here, every action taken is
    checked on the emitted behaviours (emitted_behaviours)"""
    witnesses = ('WitnessMuxAfterOps', 'WitnessNoiseInBand', 'WitnessInterleavedMux', 'WitnessThreeParts')
    with ThreadPoolExecutor(max_workers=len(witnesses)) as pool:      # the short witness runs overlap the main run
        ws = {w: pool.submit(tlc.run, 'MC_PowerLedger', cfg_text=ledger_cfg(4, [f'INVARIANT {w}']), timeout=600,
                             workers=1, tag=f'{tag}-witness') for w in witnesses}
        r = tlc.run('MC_PowerLedger', cfg_text=ledger_cfg(depth, clauses), timeout=3000, tag=f'{tag}-mc')
    chk.add_mc(f'MC_PowerLedger depth={depth} [{len(clauses)} clauses]', r)
    for w, fut in ws.items():
        if fut.result().violated != w:
            raise Machinery(f'vacuous model: {w} is not reachable')
    chk.exhaustive = True
    return r


def emitted_behaviours(chk, emit_depth, sim_num, sim_depth, tag):
    with ThreadPoolExecutor(max_workers=1) as pool:                  # the sampling run overlaps the exhaustive one
        sim = pool.submit(tlc.run, 'MC_PowerLedgerEmit', cfg_text=emit_cfg(sim_depth), simulate=f'num={sim_num}',
                          depth=sim_depth + 1, seed=chk.seed + 1, workers=1, timeout=1800, tag=f'{tag}-sim')
        r2 = tlc.run('MC_PowerLedgerEmit', cfg_text=emit_cfg(emit_depth), timeout=1800, tag=f'{tag}-emit')
    chk.add_mc(f'MC_PowerLedgerEmit MaxDepth={emit_depth}', r2)
    out = list(r2.emitted)
    taken = {s['op'] for h in out for s in h}
    if taken != {'Scale', 'AddASE', 'AddNLI', 'Demux', 'Mux'}:
        raise Machinery(f'vacuous model: only the actions {sorted(taken)} are taken up to depth {emit_depth}')
    r3 = sim.result()
    if r3.violated or not r3.emitted:
        raise Machinery(f'simulation run failed: {r3.error}\n{r3.out[-1500:]}')
    return out + r3.emitted


# --------------------------------------------------------------------------------------------- real-code side (B2)
SPACING = 100e9
BAUD = [32e9, 64e9, 90e9]
SLOT = [50e9, 75e9, 100e9]
F1 = 193.1e12


def fr(q):
    return Fraction(int(q[0]), int(q[1]))


UNITS = (1.0, 1e-3, 1e-6, 1e-9, 1e-12)     # watts per model unit of power: the ledger laws are homogeneous in power


def launch_si(powers):
    """the three model channels as carriers of DIFFERENT symbol rates and slot widths (the ledger laws do not depend on
    them; nothing in the code may either); powers in watts"""
    from gnpy.core.info import create_arbitrary_spectral_information
    n = len(powers)
    return create_arbitrary_spectral_information(frequency=[F1 + SPACING * k for k in range(n)],
                                                 pch=[float(p) for p in powers], baud_rate=BAUD[:n], slot_width=SLOT[:n],
                                                 tx_osnr=40.0, tx_power=[float(p) for p in powers], roll_off=0.15,
                                                 label=[f'ch{k + 1}' for k in range(n)])


def description(powers, order):
    """the same launch as launch_si(), as the per-channel arrays a caller hands to the SpectralInformation constructor
    itself (nothing has noise yet: signal share 1), the channels listed in the given order"""
    n = len(powers)
    return dict(frequency=np.array([F1 + SPACING * k for k in order]), baud_rate=np.array([BAUD[k] for k in order]),
                slot_width=np.array([SLOT[k] for k in order]), pch=np.array([float(powers[k]) for k in order]),
                signal_ratio=np.ones(n), ase_ratio=np.zeros(n), nli_ratio=np.zeros(n), roll_off=np.full(n, 0.15),
                chromatic_dispersion=np.zeros(n), pmd=np.zeros(n), pdl=np.zeros(n), latency=np.zeros(n),
                delta_pdb_per_channel=np.zeros(n), tx_osnr=np.full(n, 40.0),
                tx_power=np.array([float(powers[k]) for k in order]), label=np.array([f'ch{k + 1}' for k in order]))


LAUNCHES = ('helper', 'constructor, channels in frequency order', 'constructor, channels in another order')


def launch_pair(powers, how):
    """(spectrum to drive, twin): two spectra launched from ONE description - through the create_* helper called twice,
    or by handing the SAME arrays twice to the constructor (model: parts[1] and twin)"""
    if how == 0:
        return launch_si(powers), launch_si(powers)
    from gnpy.core.info import SpectralInformation
    n = len(powers)
    desc = description(powers, list(range(n)) if how == 1 else [(k + 1) % n for k in range(n)][::-1])
    return SpectralInformation(**desc), SpectralInformation(**desc)


def ids_of(si):
    return [int(round((f - F1) / SPACING)) + 1 for f in si.frequency]


def apply_step(parts, step, variant, unit=1.0):
    """drive the real objects through one model operation; returns the new list of spectra"""
    from gnpy.core.info import demuxed_spectral_information, muxed_spectral_information, select_channels
    op, j = step['op'], step['j']
    if op in ('Scale', 'AddASE', 'AddNLI'):
        si = parts[j - 1]
        vec = np.array([float(fr(step['arg'][c - 1])) for c in ids_of(si)])
        if op != 'Scale':
            vec = vec * unit                # powers are expressed in the model's unit; factors are pure numbers
        if op == 'Scale':
            if variant == 0:
                si.apply_attenuation_lin(vec)
            elif variant == 1:
                si.apply_gain_lin(vec)
            elif variant == 2:
                si.apply_attenuation_db(-10 * np.log10(vec))
            else:
                si.apply_gain_db(10 * np.log10(vec))
        elif op == 'AddASE':
            si.add_ase(vec)
        else:
            si.add_nli(vec)
        return parts
    if op == 'Demux':
        si = parts[j - 1]
        have = ids_of(si)
        out = []
        for exp in step['parts'][j - 1:j + 1]:          # the model says which channels go where, selected ones first
            ids = [ch['id'] for ch in exp]
            if ids == list(range(min(ids), max(ids) + 1)):
                band = {'f_min': F1 + SPACING * (min(ids) - 1) - SPACING / 2, 'f_max': F1 + SPACING * (max(ids) - 1) + SPACING / 2}
                out.append(demuxed_spectral_information(si, band))          # a band
            else:
                out.append(select_channels(si, np.array([c in ids for c in have])))   # the complement of a band
        return parts[:j - 1] + out + parts[j:]
    if op == 'Mux':
        return [muxed_spectral_information(list(parts))]
    raise Machinery(f'unknown model operation {op}')


LEDGER = (('pch', 'P'), ('signal', 'S'), ('ase', 'A'), ('nli', 'N'))
FIGURES = (('snr_lin', 0), ('snr_nli', 1), ('gsnr', 2))       # reciprocal of: 1/OSNR_ASE, 1/SNR_NLI, 1/GSNR in step['q']


def compare(parts, step, worst, what, unit=1.0):
    """None when the real spectra carry exactly what the model printed for this step, else a short description.
    what = 'ledger': (pch, signal, ase, nli) against the exact (P, S, A, N);
    what = 'figures': the figures of merit the code derives (snr_lin, snr_nli, gsnr) against the exact reciprocals"""
    exp_parts = step['parts']
    if len(parts) != len(exp_parts):
        return f'{len(parts)} spectra instead of {len(exp_parts)}'
    for si, exp in zip(parts, exp_parts):
        if si is None or ids_of(si) != [ch['id'] for ch in exp]:
            return f'channels {None if si is None else ids_of(si)} instead of {[ch["id"] for ch in exp]}'
        if what == 'ledger':
            views = [(name, key, np.asarray(getattr(si, name), dtype=float)) for name, key in LEDGER]
            car = si.carriers                       # the per-channel view handed to users (Channel tuples)
            views += [(f'carriers.{name}', key, np.array([getattr(c, name) for c in car], dtype=float))
                      for name, key in LEDGER[1:]]
            for name, key, got in views:
                for k, ch in enumerate(exp):
                    e = float(fr(ch[key])) * unit
                    d = abs(got[k] - e)
                    if e != 0:
                        worst[0] = max(worst[0], d / abs(e))
                    if not (d <= REL * abs(e)):
                        return f'{name} of channel {ch["id"]}: {got[k]!r} instead of {ch[key][0]}/{ch[key][1]}'
        else:
            with np.errstate(divide='ignore', invalid='ignore'):
                for name, pos in FIGURES:
                    got = 1.0 / np.asarray(getattr(si, name), dtype=float)        # 1/inf = 0: no such noise yet
                    for k, ch in enumerate(exp):
                        q = step['q'][ch['id'] - 1][pos]
                        e = float(fr(q))
                        d = abs(got[k] - e)
                        if e != 0 and math.isfinite(d):
                            worst[0] = max(worst[0], d / abs(e))
                        if not (d <= REL * abs(e)):
                            return f'1/{name} of channel {ch["id"]}: {got[k]!r} instead of {q[0]}/{q[1]}'
    return None


def replay(chk, behaviours, what='ledger'):
    worst = [0.0]
    seen = set()
    steps = 0
    launched = {}
    for hist in behaviours:
        key = zlib.crc32(repr([(s['op'], s['j'], s['arg']) for s in hist]).encode())
        if key in seen:
            continue
        seen.add(key)
        unit = UNITS[key % len(UNITS)]          # from watts down to picowatts per model unit
        powers = [float(p) * unit for p in (1, 2, 4)]
        how = (key // len(UNITS)) % len(LAUNCHES)
        launched[how] = launched.get(how, 0) + 1
        ok = True
        try:
            si, twin = launch_pair(powers, how)
            parts = [si]
            source = None                   # the real spectrum the sub-spectra were extracted from (model: src)
            for n, step in enumerate(hist):
                if step['op'] == 'Demux' and len(parts) == 1:
                    source = parts[0]
                parts = apply_step(parts, step, (key + n) % 4, unit)
                if step['op'] == 'Mux':
                    source = None
                steps += 1
                bad = compare(parts, step, worst, what, unit)
                sig = f'{what}-differ-from-model'
                if not bad and what == 'ledger' and source is not None:
                    bad = compare([source], dict(parts=[step['src']]), worst, 'ledger', unit)
                    bad = bad and 'source spectrum of the extraction: ' + bad
                if not bad and what == 'ledger':
                    # the spectrum launched from the same description and never driven (model: twin)
                    bad = compare([twin], dict(parts=[step['twin']]), worst, 'ledger', unit)
                    bad = bad and 'twin spectrum (same launch description, never driven): ' + bad
                    sig = 'twin-spectrum-differs-from-model' if bad else sig
                if bad:
                    prev = hist[n - 1]['op'] if n else 'Launch'
                    chk.violation(f'B2|{step["op"]}|after-{prev}|{sig}',
                                  dict(ops=[(s['op'], s['j']) for s in hist[:n + 1]], step=n + 1, difference=bad, watts_per_unit=unit,
                                       arg=step['arg'], launched_through=LAUNCHES[how]))
                    ok = False
                    break
        except Machinery:
            raise
        except Exception as e:                                     # noqa
            chk.violation(f'B2|{type(e).__name__}|exception-in-ledger-operation',
                          dict(ops=[(s['op'], s['j']) for s in hist], exception=f'{type(e).__name__}: {e}',
                               launched_through=LAUNCHES[how]))
            ok = False
        chk.case(key, nontrivial=any(s['op'] in ('AddASE', 'AddNLI') for s in hist))
        if ok:
            chk.traces += 1
        if len(hist) >= 5 and any(s['op'] == 'Mux' for s in hist):
            chk.sample(dict(kind='B2 behaviour replayed on a real SpectralInformation',
                            ops=[f'{s["op"]}({s["j"]})' for s in hist],
                            final_ledger=[{k: (f'{ch[k][0]}/{ch[k][1]}' if k != 'id' else ch[k]) for k in ('id', 'P', 'S', 'A', 'N')}
                                          for ch in hist[-1]['parts'][0]]), limit=1)
    chk.cov['b2_behaviours'] = len(seen)
    chk.cov['b2_launched_through'] = {LAUNCHES[h]: c for h, c in sorted(launched.items())}
    chk.cov['b2_steps'] = steps
    chk.cov['b2_relative_tolerance'] = REL
    chk.cov['b2_worst_relative_deviation'] = worst[0]


# clauses of Trace_Propagation that hold for an ARBITRARY spectrum handed to an element (no launch / filter / receiver context)
STATELESS = {'Conservation', 'SharesInUnitInterval', 'OpGrammar', 'NeverImprovesGsnr', 'NeverImprovesOsnr', 'NeverImprovesNli',
             'PassiveUnchanged', 'KeepsNli', 'KeepsOsnr', 'MultiBandPartition'}


def suite_traces(chk, clauses, pid):
    """DESIGN 2.6 source 4 (thorough tier): the repository's own test-suite is run on a scratch copy of the working tree with
    harness.pytest_plugin installed; every element crossing its tests perform becomes a two-spectrum trace judged by
    Trace_Propagation for the clauses that need no context.  What the maintainers' tests exercise but do not assert is
    checked against the specification."""
    import json
    import os
    import shutil
    import subprocess
    import tempfile
    import time
    from harness.gnpy_util import REPO
    from harness import tlc
    t0 = time.time()
    work = Path(tempfile.mkdtemp(prefix=f'suite-{pid.lower()}-', dir=tlc.BUILD))
    try:
        tree = work / 'tree'
        shutil.copytree(REPO, tree, ignore=shutil.ignore_patterns('.git', '__pycache__', '*.pyc', '.pytest_cache'))
        out = work / 'suite.ndjson'
        env = dict(os.environ, VERIF_PYTEST_TRACE=str(out), PYTHONPATH=f'{tree}:{tlc.ROOT}', VERIF_PYTEST_PER_TEST='15',
                   VERIF_PYTEST_MAX='300')
        env.pop('VERIF_MUTANT', None)
        r = subprocess.run([sys.executable, '-m', 'pytest', '-q', '-p', 'no:cacheprovider', '-p', 'harness.pytest_plugin',
                            '--timeout=900', '-rf', '-n', '8', 'tests'], cwd=tree, env=env, capture_output=True, text=True,
                           timeout=3000)
        tail = (r.stdout.strip().splitlines() or [''])[-1]
        failed = sorted({ln.split(' - ')[0].replace('FAILED ', '') for ln in r.stdout.splitlines() if ln.startswith('FAILED ')})
        traces, stats = [], []
        for f in sorted(work.glob('suite.ndjson*')):
            if f.name.endswith('.stats'):
                stats.append(json.loads(f.read_text()))
            else:
                traces += [json.loads(ln) for ln in f.read_text().splitlines() if ln.strip()]
        if not traces:
            raise Machinery(f'test-suite recording produced no trace: {tail}\n{r.stderr[-1500:]}')
        for k, t in enumerate(traces):
            t['name'] = f'{t["name"]}|{k}'
        verdicts = pu.judge(traces, chk, tag=f'{pid.lower()}-suite')
        ok = 0
        for t in traces:
            mine = [(st, c) for st, c in verdicts[t['name']] if c in clauses and c in STATELESS]
            chk.case(('suite', t['name'].split('#')[0], t['ev'][-1]['cls']))
            if not mine:
                ok += 1
            for st, c in mine:
                cls = t['ev'][st - 1]['cls'] if st >= 1 else 'request'
                chk.violation(f'B3|suite|{c}|{cls}', dict(trace=t['name'], step=st, clause=c, element_class=cls))
        chk.traces += ok
        by_cls = {}
        for t in traces:
            by_cls[t['ev'][-1]['cls']] = by_cls.get(t['ev'][-1]['cls'], 0) + 1
        chk.cov['suite_traces'] = dict(crossings_judged=len(traces), by_class=by_cls, test_suite_tail=tail, tests_failing_in_the_scratch_copy=failed,
                                       tests_seen=sum(x['tests'] for x in stats),
                                       crossings_dropped_by_cap=sum(x['dropped_by_cap'] for x in stats),
                                       not_projectable=sum(x['not_projectable'] for x in stats),
                                       wall_s=round(time.time() - t0, 1),
                                       clauses=sorted(set(clauses) & STATELESS))
    finally:
        shutil.rmtree(work, ignore_errors=True)


def run_b3(chk, clauses, pid):
    if chk.tier == 'thorough':
        suite_traces(chk, clauses, pid)
    traces, sides = pu.collect(chk)
    verdicts = pu.judge(traces, chk, tag=pid.lower())
    ok = pu.report(chk, traces, sides, verdicts, clauses, pid)
    judged = [t for t in traces if t['outcome'] == 0]
    chk.traces += ok
    chk.cov['b3_traces'] = len(traces)
    chk.cov['b3_traces_completed'] = len(judged)
    chk.cov['b3_events'] = sum(len(t['ev']) for t in traces)
    chk.cov['b3_channel_snapshots'] = sum(len(e['f']) for t in traces for e in t['ev'])
    chk.cov['b3_networks'] = sorted({sides[t['name']]['net'] for t in traces})
    chk.cov['b3_measured_deviation'] = pu.deviations(traces)
    chk.cov['b3_float_share_sum_deviation'] = max((sides[t['name']]['float_share_dev'] for t in traces), default=0.0)
    chk.cov['b3_tolerances'] = dict(TolUdb=10, TolOrderUdb=1, TolPpb=3, TolInv=3)
    for t in judged:
        if any(e['cls'] == 'Multiband_amplifier' for e in t['ev']):
            e = t['ev'][-1]
            chk.sample(dict(kind='B3 trace judged by Trace_Propagation', name=t['name'],
                            elements=sides[t['name']]['classes'], channels=len(e['f']),
                            receiver_first_channel=dict(f_mhz=e['f'][0], shares_ppb=[e['s'][0], e['a'][0], e['n'][0]],
                                                        reported_udb=[t['rx']['snr'][0], t['rx']['osnr'][0], t['rx']['onli'][0]])))
            break
    return traces


