"""C14 - spectrum assignment never double-books and honours what the user fixed.

B1  TLC explores every history of <= MaxHist requests of MC_SpectrumAssign with the nine C14 clauses as invariants.
B2  every complete history emitted by TLC is replayed into the real pth_assign_spectrum on real OMS objects
    (line network, grid shrunk with OMS.update_spectrum); request result and every OMS bitmap are compared with
    the model after every step.
B3  real planning()-level assignment runs on the shipped networks / seeded batches are recorded and judged by
    Trace_SpectrumAssign, which carries the model's occupancy forward on the real 6.25 GHz axis.
"""
import copy
import json
import random

import networkx as nx

from harness import tlc
from harness.core import Machinery
from harness.gnpy_util import equipment, line_or_mesh_json, designed, node_map, NONE, EX, TD

F0 = 193.1e12
GRID = 6.25e9

BOUNDS = {  # tier -> (MaxHist for B1, MaxHist for exhaustive emission, simulate num, simulate depth)
    'quick': (4, 3, 1500, 5),
    'thorough': (5, 3, 60000, 7),
}


def cfg(maxhist, emit, policy='first_fit'):
    base = (tlc.SPEC / 'MC_SpectrumAssign.cfg').read_text()
    base = base.replace('MaxHist = 4', f'MaxHist = {maxhist}').replace('Policy = "first_fit"', f'Policy = "{policy}"')
    if emit:
        # generation run: only the emission "invariant"
        lines = [ln for ln in base.splitlines() if not ln.startswith(('INVARIANT', 'PROPERTY'))]
        base = '\n'.join(lines) + '\nINVARIANT Emit\n'
    return base


# ------------------------------------------------------------------------------------------- real-code side (B2)
class Bench:
    """line network with nlinks links; model OMS 2k-1 = link k forward, 2k = link k reverse"""

    def __init__(self, nlinks, nmin, nmax, idxmin, idxmax, unusable):
        self.eq = equipment()
        self.sites = [chr(ord('A') + i) for i in range(nlinks + 1)]
        links = [(self.sites[i], self.sites[i + 1], 80) for i in range(nlinks)]
        js = line_or_mesh_json(self.sites, links)
        # the last link is a patch cord: its two OMS consist of a single Fused element (no fibre, no amplifier)
        a, b = self.sites[-2], self.sites[-1]
        for x, y in ((a, b), (b, a)):
            el = next(e for e in js['elements'] if e['uid'] == f'fiber ({x} -> {y})')
            el.clear()
            el.update({'uid': f'fiber ({x} -> {y})', 'type': 'Fused', 'params': {'loss': 1}})
        # the first link is asymmetric: its reverse direction holds a patch panel (one element more than the forward one)
        a, b = self.sites[0], self.sites[1]
        js['elements'] += [{'uid': f'patch ({b} -> {a})', 'type': 'Fused', 'params': {'loss': 0.5}},
                           {'uid': f'patch2 ({b} -> {a})', 'type': 'Fused', 'params': {'loss': 0.5}}]
        for c in js['connections']:
            if c['from_node'] == f'fiber ({b} -> {a})' and c['to_node'] == f'roadm {a}':
                c['to_node'] = f'patch ({b} -> {a})'
        js['connections'] += [{'from_node': f'patch ({b} -> {a})', 'to_node': f'patch2 ({b} -> {a})'},
                              {'from_node': f'patch2 ({b} -> {a})', 'to_node': f'roadm {a}'}]
        self.net, _, _ = designed(js, self.eq)
        self.nodes = node_map(self.net)
        self.nmin, self.nmax, self.idxmin, self.idxmax = nmin, nmax, idxmin, idxmax
        self.unusable = {int(k): set(v) for k, v in unusable.items()}
        self.paths = {}

    def fresh(self):
        from gnpy.topology.spectrum_assignment import build_oms_list, BitmapValue
        oms_list = build_oms_list(self.net, self.eq)
        by = {(o.el_id_list[0], o.el_id_list[-1]): o for o in oms_list}
        m = {}
        for k in range(len(self.sites) - 1):
            a, b = self.sites[k], self.sites[k + 1]
            m[2 * k + 1] = by[(f'roadm {a}', f'roadm {b}')]
            m[2 * k + 2] = by[(f'roadm {b}', f'roadm {a}')]
        guard = (self.idxmin - self.nmin) * GRID
        assert self.nmax - self.idxmax == self.idxmin - self.nmin
        pad = 2        # the OMS of the last link start `pad` slots higher and are widened by align_grids (as build_oms_list does)
        last = {2 * (len(self.sites) - 1) - 1, 2 * (len(self.sites) - 1)}
        for mo, o in m.items():
            lo = self.nmin + pad if mo in last else self.nmin
            if mo in last and not all(n in self.unusable.get(mo, ()) for n in range(self.nmin, lo)):
                raise Machinery('bench: the padded indices must be unusable in the model')
            bm = [BitmapValue.UNUSABLE if n in self.unusable.get(mo, ()) else BitmapValue.FREE
                  for n in range(lo, self.nmax + 1)]
            # a quarter-slot nudge away from zero keeps int() truncation of frequency_to_n on the intended index
            fmin = F0 + lo * GRID + (0.25 * GRID if lo > 0 else -0.25 * GRID if lo < 0 else 0)
            fmax = F0 + self.nmax * GRID + (0.25 * GRID if self.nmax > 0 else -0.25 * GRID if self.nmax < 0 else 0)
            o.update_spectrum(fmin, fmax, guardband=guard, grid=GRID, existing_spectrum=bm)
            b = o.spectrum_bitmap
            b.freq_index_min, b.freq_index_max = self.idxmin, self.idxmax
        from gnpy.topology.spectrum_assignment import align_grids
        align_grids(list(m.values()))
        for mo, o in m.items():
            b = o.spectrum_bitmap
            if (b.n_min, b.n_max) != (self.nmin, self.nmax):
                raise Machinery(f'bench grid mismatch {(b.n_min, b.n_max)}')
        return oms_list, m

    def path_for(self, oms_set):
        """model path (set of OMS ids) -> (src site, dst site, bidirectional)"""
        fwd = sorted((o + 1) // 2 for o in oms_set if o % 2 == 1)
        rev = sorted(o // 2 for o in oms_set if o % 2 == 0)
        if fwd:
            if fwd != list(range(fwd[0], fwd[-1] + 1)) or (rev and rev != fwd):
                raise Machinery(f'template path {oms_set} is not a line path')
            return self.sites[fwd[0] - 1], self.sites[fwd[-1]], bool(rev)
        if rev != list(range(rev[0], rev[-1] + 1)):
            raise Machinery(f'template path {oms_set} is not a line path')
        return self.sites[rev[-1]], self.sites[rev[0] - 1], False

    def route(self, a, b):
        return nx.dijkstra_path(self.net, self.nodes[f'trx {a}'], self.nodes[f'trx {b}'])


def make_request(t, i):
    from gnpy.topology.request import PathRequest
    r = PathRequest(request_id=f'r{i}', source='x', destination='y', trx_type='t', trx_mode='m',
                    spacing=t['spacing'] * 1e6, bit_rate=t['rate'] * 1e6, path_bandwidth=t['bw'] * 1e6,
                    effective_freq_slot=[{'N': None if s['n'] == NONE else s['n'],
                                          'M': None if s['m'] == NONE else s['m']} for s in t['slots']])
    if t['pre']:
        r.blocking_reason = 'MODE_NOT_FEASIBLE'
    return r


def occupied(o, exclude=()):
    """indices marked OCCUPIED, without the ones the model treats as unusable (padding added by grid alignment)"""
    from gnpy.topology.spectrum_assignment import BitmapValue
    b = o.spectrum_bitmap
    return sorted(n for n, v in zip(b.freq_index, b.bitmap) if v is BitmapValue.OCCUPIED and n not in exclude)


def tdesc(t):
    sl = ''.join('(%s,%s)' % ('-' if s['n'] == NONE else s['n'], '-' if s['m'] == NONE else s['m']) for s in t['slots'])
    return (f"path={''.join(map(str, sorted(t['path'])))}|slots={sl}|bw={t['bw'] // 1000}G/{t['rate'] // 1000}G"
            f"|sp={t['spacing'] / 1000:g}GHz|pre={int(t['pre'])}")


def detached(p, rp):
    """copies of the route elements as a deepcopy of the propagated paths gives them - same uid and oms_id, but their `.oms` is
    another object (with its own copy of the map) than the entry of oms_list; a full deepcopy drags the whole network along
    through the OMS element lists and cost minutes per run"""
    seen = {}

    def one(e):
        c = copy.copy(e)
        o = getattr(e, 'oms', None)
        if o is not None:
            if id(o) not in seen:
                oc = copy.copy(o)
                oc.spectrum_bitmap = copy.deepcopy(o.spectrum_bitmap)
                seen[id(o)] = oc
            c.oms = seen[id(o)]
        return c
    return [one(e) for e in p], [one(e) for e in rp]


def replay_history(bench, js, chk, policy='first_fit'):
    """returns True when the real code followed the model on the whole history"""
    from gnpy.topology.spectrum_assignment import pth_assign_spectrum
    from gnpy.topology.request import find_reversed_path
    oms_list, m = bench.fresh()
    occ = {k: set() for k in m}
    for i, h in enumerate(js['hist']):
        t, exp = h['t'], h['out']
        a, b, bid = bench.path_for(set(t['path']))
        p = bench.route(a, b)
        rp = find_reversed_path(p) if bid else []
        rq = make_request(t, i)
        if (i + len(js['hist'])) % 3 == 1:
            # every third request comes with COPIES of the route elements (what compute_path_with_disjunction returns for the
            # propagated paths): same oms_id, other objects - the spectrum state lives in oms_list, not in the route handed in
            p, rp = detached(p, rp)
        try:
            pth_assign_spectrum([p], [rq], oms_list, [rp], policy=policy)
            st = getattr(rq, 'blocking_reason', None)
            if t['pre']:
                got = ('preblocked', [])
            elif st:
                got = (st, [])
            else:
                got = ('served', [{'n': n, 'm': mm} for n, mm in zip(rq.N, rq.M)])
        except Exception as e:                                   # an exception on a valid request is a violation
            got = (f'EXC {type(e).__name__}: {e}', [])
        if exp['st'] == 'served':
            add = set()
            for s in exp['nm']:
                add |= set(range(s['n'] - s['m'], s['n'] + s['m']))
            for o in t['path']:
                occ[o] |= add
        same_res = got[0] == exp['st'] and got[1] == exp['nm']
        bad_oms = [k for k in occ if occupied(m[k], bench.unusable.get(k, ())) != sorted(occ[k])]
        blocked_wrote = (exp['st'] != 'served') and bad_oms
        if not same_res or bad_oms:
            kind = 'result' if not same_res else ('blocked-request-changed-state' if blocked_wrote else 'occupancy')
            sig = f'B2|{tdesc(t)}|{kind}|model={exp["st"]}|code={got[0].split(":")[0][:40]}' \
                + ('' if policy == 'first_fit' else f'|{policy}')
            chk.violation(sig, dict(history=[tdesc(x['t']) for x in js['hist']], step=i, model=exp,
                                    code=dict(st=got[0], nm=got[1]),
                                    model_occ={k: sorted(v) for k, v in occ.items()},
                                    code_occ={k: occupied(m[k], bench.unusable.get(k, ())) for k in occ}))
            return False
    final = {int(k): sorted(v) for k, v in js['occ'].items()} if isinstance(js['occ'], dict) else \
        {i + 1: sorted(v) for i, v in enumerate(js['occ'])}
    if any(occupied(m[k], bench.unusable.get(k, ())) != final[k] for k in final):
        chk.violation('B2|final-occupancy', dict(history=[tdesc(x['t']) for x in js['hist']]))
        return False
    return True


# ----------------------------------------------------------------------------------------------------- B3 traces
def intervals(bits, idx):
    """list of [a, b] inclusive index intervals where predicate bits[i] holds"""
    out = []
    for n, v in zip(idx, bits):
        if v:
            if out and out[-1][1] == n - 1:
                out[-1][1] = n
            else:
                out.append([n, n])
    return out


def record_planning(name, net, eq, data, chk, policy='first_fit'):
    """run the real planning() and record one trace: one event per request, observed around the real
    pth_assign_spectrum call (inputs captured before the call, results and bitmaps after it)"""
    import gnpy.tools.worker_utils as wu
    from gnpy.topology.spectrum_assignment import build_path_oms_id_list, BitmapValue
    from gnpy.core.elements import Edfa, Multiband_amplifier
    from harness.checks.c15 import fidx, bands_of
    orig = wu.pth_assign_spectrum
    box = {}

    def wrapper(pths, rqs, oms_list, rpths, policy='first_fit'):
        b0 = oms_list[0].spectrum_bitmap
        tr = dict(name=name, policy=policy, nmin=b0.n_min, nmax=b0.n_max, idxmin=b0.freq_index_min, idxmax=b0.freq_index_max,
                  unusable={}, noms=len(oms_list))
        for o in oms_list:
            b = o.spectrum_bitmap
            if b.freq_index != list(range(b0.n_min, b0.n_max + 1)):
                raise Machinery(f'{name}: OMS {o.oms_id} index axis differs from OMS 0')
            # the usable band is what the OMS's amplifiers have in common (configuration), not what the bitmap says:
            # the bitmap is only taken at its word for an OMS without any amplifier (SI default band)
            amps = [[(fidx(x['f_min'], 'lo'), fidx(x['f_max'], 'hi')) for x in bands_of(e)]
                    for e in o.el_list if isinstance(e, (Edfa, Multiband_amplifier))]
            if amps:
                common = [all(any(lo <= n <= hi for lo, hi in a) for a in amps) for n in b.freq_index]
                tr['unusable'][o.oms_id] = intervals([not c for c in common], b.freq_index)
            else:
                tr['unusable'][o.oms_id] = intervals([v is not BitmapValue.FREE for v in b.bitmap], b.freq_index)
        # the guard limits are configuration too: the network band (lowest / highest amplifier band edge) shrunk by the
        # guard band, projected with the property's rule (a slot is inside when its centre is)
        allb = [x for o in oms_list for e in o.el_list if isinstance(e, (Edfa, Multiband_amplifier)) for x in bands_of(e)]
        if allb:
            tr['idxmin'] = fidx(min(x['f_min'] for x in allb) + b0.guardband, 'lo')
            tr['idxmax'] = fidx(max(x['f_max'] for x in allb) - b0.guardband, 'hi')
            tr['code_guard'] = [b0.freq_index_min, b0.freq_index_max]
        evs = []
        for pth, rq, rpth in zip(pths, rqs, rpths):
            pre = hasattr(rq, 'blocking_reason')
            ev = dict(id=str(rq.request_id), pre=pre, path=[], bw=0, rate=1, spacing=12500, slots=[])
            if not pre:
                # raw request values in Mbit/s and MHz: the spec derives channel count and slots per channel itself
                ev.update(path=sorted(build_path_oms_id_list(pth + rpth)), bw=int(round(rq.path_bandwidth / 1e6)),
                          rate=int(round(rq.bit_rate / 1e6)), spacing=int(round(rq.spacing / 1e6)),
                          slots=[dict(n=NONE if n is None else n, m=NONE if m is None else m)
                                 for n, m in zip(rq.N, rq.M)])
            evs.append(ev)
        exc = None
        try:
            orig(pths, rqs, oms_list, rpths, policy=policy)
        except Exception as e:                      # noqa
            exc = f'{type(e).__name__}: {e}'
        served_ids = {sid for o in oms_list for sid in o.service_list}
        for k, (ev, rq) in enumerate(zip(evs, rqs)):
            st = getattr(rq, 'blocking_reason', None)
            if ev['pre']:
                ev.update(st='preblocked', nm=[])
            elif st:
                ev.update(st=st, nm=[])
            elif rq.request_id in served_ids and rq.N is not None and None not in list(rq.N) + list(rq.M):
                ev.update(st='served', nm=[dict(n=n, m=m) for n, m in zip(rq.N, rq.M)])
            else:
                # not processed: the call died on this request (the loop is sequential); judge the prefix only
                ev.update(st='EXC', nm=[])
                kind = ''.join('(%s,%s)' % ('-' if x['n'] == NONE else 'N', '-' if x['m'] == NONE else 'M')
                               for x in ev['slots'])
                chk.violation(f'B3|exception-in-assignment|slots={kind}|{(exc or "no result").split(":")[0]}',
                              dict(trace=name, event=ev, exception=exc))
                evs = evs[:k]
                break
        tr['ev'] = evs
        tr['exc'] = exc
        tr['final'] = {o.oms_id: intervals([v is BitmapValue.OCCUPIED for v in o.spectrum_bitmap.bitmap],
                                           o.spectrum_bitmap.freq_index) for o in oms_list}
        box['tr'] = tr
        if exc:
            raise RuntimeError(exc)

    wu.pth_assign_spectrum = wrapper
    try:
        try:
            wu.planning(net, eq, data, user_policy=policy)
        except RuntimeError:
            if 'tr' not in box:
                raise
        except Machinery:
            raise
        except Exception as e:                       # noqa
            if 'tr' not in box:
                # the batch never reached the assignment: routing / propagation of these (loadable) services raised
                chk.violation(f'B3|planning-raises-before-assignment|{type(e).__name__}',
                              dict(trace=name, exception=f'{type(e).__name__}: {e}'))
                box['tr'] = None
    finally:
        wu.pth_assign_spectrum = orig
    return box['tr']


def random_services(net, rng, n, tag, nrange=(-240, 400)):
    """seeded service batch (JSON form): free / fixed N / fixed M / fixed both / multi-slot / over-provisioned,
    uni- and bidirectional, 50 and 75 GHz spacing; distinct fixed N values are spread so that some collide"""
    from gnpy.core.elements import Transceiver
    trx = sorted(x.uid for x in net.nodes() if isinstance(x, Transceiver))
    out = []
    kinds = []
    for i in range(n):
        s, d = rng.sample(trx, 2)
        nbwl = rng.choice([1, 1, 2, 3, 8, 30])
        spacing, pcm = rng.choice([(50e9, 4), (75e9, 6)])
        kind = rng.choice(['free', 'free', 'fixN', 'fixM', 'fixNM', 'two', 'over', 'twofixed'])
        n0 = rng.randrange(nrange[0], nrange[1], 8)
        w = nbwl * pcm
        slots = {'free': [(None, None)], 'fixN': [(n0, None)], 'fixM': [(None, w)], 'fixNM': [(n0, w)],
                 'two': [(n0, pcm), (None, None)], 'over': [(n0, w + pcm), (None, None)],
                 'twofixed': [(n0, w), (n0 + 2 * w + 8, w)]}[kind]
        kinds.append(kind)
        out.append({'request-id': f'{tag}{i}', 'source': s, 'destination': d, 'src-tp-id': s, 'dst-tp-id': d,
                    'bidirectional': rng.random() < 0.5,
                    'path-constraints': {'te-bandwidth': {
                        'technology': 'flexi-grid', 'trx_type': 'Voyager', 'trx_mode': 'mode 1',
                        'effective-freq-slot': [{'N': a, 'M': b} for a, b in slots], 'spacing': spacing,
                        'max-nb-of-channel': None, 'output-power': 0.001, 'path_bandwidth': nbwl * 100e9}}})
    return {'path-request': out}, kinds


def loadable(data, kinds, eq, chk):
    """keep the requests the loader accepts; a ServiceError is a legitimate rejection, anything else is a crash"""
    from gnpy.tools.json_io import requests_from_json
    from gnpy.core.exceptions import ServiceError
    keep = []
    for r, kind in zip(data['path-request'], kinds):
        try:
            requests_from_json({'path-request': [r]}, eq)
            keep.append(r)
        except ServiceError:
            continue
        except Exception as e:                       # noqa
            chk.violation(f'B3|load|slot-kind={kind}|{type(e).__name__}',
                          dict(request=r, exception=f'{type(e).__name__}: {e}',
                               note='a user-fixed N/M must be used as given or the request blocked, not crash the load'))
    return {'path-request': keep}


def trace_module(tr):
    """Trace_SpectrumAssign instance data for one network (literal constants: fastest for TLC)"""
    unus = ', '.join(f'{o} :> ({" \\cup ".join(f"({a}..{b})" for a, b in iv) or "{}"})'
                     for o, iv in sorted(tr['unusable'].items(), key=lambda kv: int(kv[0])))
    return f'''---- MODULE TraceData ----
EXTENDS Integers, TLC
TNMin == {tlc.tla_value(tr["nmin"])}
TNMax == {tr["nmax"]}
TIdxMin == {tlc.tla_value(tr["idxmin"])}
TIdxMax == {tr["idxmax"]}
TOMS == 0..{tr["noms"] - 1}
TPolicy == "{tr.get("policy", "first_fit")}"
TUnusable == {" @@ ".join(f"({x.strip()})" for x in unus.split(", ")) if unus else "<<>>"}
====
'''


def core_proof(chk):
    """SpectrumCoreProofs.tla: the TLAPS proof that the core machine SpectrumAssign refines (property CoreStep of the bounded
    model) keeps occupancy = union of grants and never double-books - for any OMS set, the unbounded axis, any history"""
    import re
    import shutil
    import subprocess
    import tempfile
    work = tempfile.mkdtemp(prefix='tlaps-c14-', dir=tlc.BUILD)
    try:
        for f in ('SpectrumCore.tla', 'SpectrumCoreProofs.tla'):
            shutil.copy(tlc.SPEC / f, work)
        r = subprocess.run(['tlapm', '--cleanfp', 'SpectrumCoreProofs.tla'], cwd=work, capture_output=True, text=True, timeout=900)
        out = r.stdout + r.stderr
        m = re.search(r'All (\d+) obligations? proved', out)
        if not m:
            raise Machinery(f'tlapm did not prove SpectrumCoreProofs: {out[-1500:]}')
        chk.cov['tlaps_core_proof'] = dict(module='SpectrumCoreProofs', obligations_proved=int(m.group(1)),
                                           theorem='Safety == Spec => []Inv (TypeOK, Exact, NoDouble)',
                                           bound_to_model_by='PROPERTY CoreStep of MC_SpectrumAssign (every Assign step is a core Accept step or stutters)')
    finally:
        shutil.rmtree(work, ignore_errors=True)


def run(chk):
    b1_hist, emit_hist, sim_num, sim_depth = BOUNDS[chk.tier]
    if chk.tier == 'thorough':
        core_proof(chk)
    # ---- B1: exhaustive model checking of the bounded model, all clauses as invariants
    r = tlc.run('MC_SpectrumAssign', cfg_text=cfg(b1_hist, emit=False), timeout=1800, tag='c14-mc')
    chk.add_mc(f'MC_SpectrumAssign MaxHist={b1_hist}', r)
    chk.exhaustive = True
    # ---- B2: emission of complete histories, exhaustive at emit_hist and sampled deeper
    r2 = tlc.run('MC_SpectrumAssign', cfg_text=cfg(emit_hist, emit=True), timeout=1800, tag='c14-emit')
    chk.add_mc(f'emit MaxHist={emit_hist}', r2)
    hists = list(r2.emitted)
    r3 = tlc.run('MC_SpectrumAssign', cfg_text=cfg(sim_depth, emit=True), simulate=f'num={sim_num}',
                 depth=sim_depth + 1, seed=chk.seed + 1, workers=1, timeout=1800, tag='c14-sim')
    if r3.violated or (r3.error and 'Finished' not in r3.out and not r3.emitted):
        raise Machinery(f'simulation run failed: {r3.error}')
    hists += r3.emitted
    # the same model under the last_fit policy: B1 at one request less, B2 by simulation
    r4 = tlc.run('MC_SpectrumAssign', cfg_text=cfg(b1_hist - 1, emit=False, policy='last_fit'), timeout=1800, tag='c14-mc-last')
    chk.add_mc(f'MC_SpectrumAssign last_fit MaxHist={b1_hist - 1}', r4)
    r5 = tlc.run('MC_SpectrumAssign', cfg_text=cfg(sim_depth, emit=True, policy='last_fit'), simulate=f'num={sim_num // 2}',
                 depth=sim_depth + 1, seed=chk.seed + 2, workers=1, timeout=1800, tag='c14-sim-last')
    if r5.violated or (r5.error and 'Finished' not in r5.out and not r5.emitted):
        raise Machinery(f'simulation run (last_fit) failed: {r5.error}')
    hists = [('first_fit', js) for js in hists] + [('last_fit', js) for js in r5.emitted]
    bench = Bench(2, -8, 8, -7, 7, {3: list(range(5, 9)) + [-8, -7], 4: list(range(5, 9)) + [-8, -7]})
    seen = set()
    steps = 0
    for policy, js in hists:
        key = (policy,) + tuple(tdesc(h['t']) for h in js['hist'])
        if key in seen:
            continue
        seen.add(key)
        try:
            ok = replay_history(bench, js, chk, policy)
        except Machinery:
            raise
        except Exception as e:                                  # noqa
            # the bench hands OMS.update_spectrum a band whose edges sit a quarter slot outside the outermost slot
            # centres and a bitmap of exactly those slots: refusing it means the band edges are mapped to other slots
            chk.violation(f'B2|bench|real OMS refuses a consistent (band, bitmap)|{type(e).__name__}',
                          dict(exception=f'{type(e).__name__}: {e}', grid=[bench.nmin, bench.nmax]))
            break
        steps += len(js['hist'])
        chk.case(key, nontrivial=any(h['out']['st'] == 'served' for h in js['hist']))
        if ok:
            chk.traces += 1
        if len(chk.samples) < 2 and len(js['hist']) >= 3 and any(h['out']['st'] != 'served' for h in js['hist']):
            chk.sample(dict(kind='B2 history replayed into pth_assign_spectrum',
                            steps=[dict(request=tdesc(h['t']), model_outcome=h['out']) for h in js['hist']]))
    chk.cov['b2_histories'] = len(seen)
    chk.cov['b2_steps'] = steps
    chk.assume('slot lists are non-empty; user M values are positive')
    chk.assume('B2 OMS objects are real OMS instances on a designed 3-ROADM line, grid shrunk via OMS.update_spectrum')
    run_b3(chk)


def run_b3(chk):
    """code -> spec: record real planning() runs on real networks and let TLC judge them, model carried forward"""
    from gnpy.tools.json_io import load_network, load_json
    from gnpy.tools.worker_utils import designed_network
    rng = random.Random(chk.seed)
    jobs = []
    nbatches = 3 if chk.tier == 'quick' else 15

    def fresh_net(netf='meshTopologyExampleV2.json', eqf='eqpt_config.json'):
        e = equipment(eqf)
        net = load_network(EX / netf, e)
        return designed_network(e, net)[0], e
    net, eq = fresh_net()
    jobs.append(record_planning('meshV2:shipped-services', net, eq,
                                load_json(EX / 'meshTopologyExampleV2_services.json'), chk))
    for b in range(nbatches):
        net, eq = fresh_net()
        data, kinds = random_services(net, rng, 14, f'b{b}-')
        jobs.append(record_planning(f'meshV2:seeded-batch-{b}', net, eq, loadable(data, kinds, eq, chk), chk,
                                    policy='last_fit' if b % 3 == 2 else 'first_fit'))
    # multiband network (C+L OMS next to C-only OMS): unusable gaps inside the axis
    for b in range(1 if chk.tier == 'quick' else 6):
        net, eq = fresh_net('multiband_example_network.json', 'eqpt_config_multiband.json')
        # fixed N values spread over the L band, the gap between the bands and the C band
        data, kinds = random_services(net, rng, 12, f'm{b}-', nrange=(-1040, 440))
        jobs.append(record_planning(f'multiband:seeded-batch-{b}', net, eq, loadable(data, kinds, eq, chk), chk,
                                    policy='last_fit' if b % 2 == 1 else 'first_fit'))
    # crafted batch on the multiband network: user-fixed slots in the L band, in the C band, in the un-amplified gap between
    # the two bands and across each inner band edge (the last three must be refused, whatever the code's map says)
    net, eq = fresh_net('multiband_example_network.json', 'eqpt_config_multiband.json')
    from gnpy.core.elements import Transceiver
    trx = sorted(x.uid for x in net.nodes() if isinstance(x, Transceiver))
    crafted = []
    # one pair of sites joined by C+L sections, both directions, three spacings: six requests that cannot be aggregated
    plan = [(-700, 6), (0, 6), (-390, 6), (-483, 6), (-302, 6), (-390, None)]
    for k, (n0, m0) in enumerate(plan):
        s_, d_ = (trx[0], trx[1]) if k % 2 == 0 else (trx[1], trx[0])
        crafted.append({'request-id': f'x{k}', 'source': s_, 'destination': d_, 'src-tp-id': s_, 'dst-tp-id': d_,
                        'bidirectional': k in (2, 3),
                        'path-constraints': {'te-bandwidth': {
                            'technology': 'flexi-grid', 'trx_type': 'Voyager', 'trx_mode': 'mode 1',
                            'effective-freq-slot': [{'N': n0, 'M': m0}], 'spacing': [50e9, 62.5e9, 75e9][k // 2],
                            'max-nb-of-channel': None, 'output-power': 0.001, 'path_bandwidth': 100e9}}})
    jobs.append(record_planning('multiband:crafted-band-edges', net, eq,
                                loadable({'path-request': crafted}, ['crafted'] * len(crafted), eq, chk), chk))
    # a two-span link whose three amplifiers have three different band definitions (medium, wider, narrower): every one of
    # them limits the usable band of the section, in whatever order they come
    eq3 = equipment('eqpt_config_multiband.json')
    for order in ([0, 1, 2], [1, 0, 2], [2, 1, 0])[:(1 if chk.tier == 'quick' else 3)]:
        kinds3 = ['std_medium_gain', 'std_low_gain', 'std_low_gain_reduced_band']
        js = line_or_mesh_json(['A', 'B'], [])
        for x, y in (('A', 'B'), ('B', 'A')):
            names = [f'booster {x}{y}', f'inline {x}{y}', f'preamp {x}{y}']
            for nm, k in zip(names, order):
                js['elements'].append({'uid': nm, 'type': 'Edfa', 'type_variety': kinds3[k]})
            for sp in (1, 2):
                js['elements'].append({'uid': f'span{sp} {x}{y}', 'type': 'Fiber', 'type_variety': 'SSMF',
                                       'params': {'length': 80, 'length_units': 'km', 'loss_coef': 0.2, 'con_in': None,
                                                  'con_out': None}})
            chain = [f'roadm {x}', names[0], f'span1 {x}{y}', names[1], f'span2 {x}{y}', names[2], f'roadm {y}']
            js['connections'] += [{'from_node': p, 'to_node': q} for p, q in zip(chain, chain[1:])]
        from gnpy.tools.json_io import network_from_json
        net = designed_network(eq3, network_from_json(js, eq3))[0]
        fixed = [(None, None), (-240, 4), (None, None), (-100, 4), (None, 4)]
        reqs = [{'request-id': f't{k}', 'source': 'trx A' if k % 2 == 0 else 'trx B',
                 'destination': 'trx B' if k % 2 == 0 else 'trx A', 'src-tp-id': 'x', 'dst-tp-id': 'y', 'bidirectional': False,
                 'path-constraints': {'te-bandwidth': {
                     'technology': 'flexi-grid', 'trx_type': 'Voyager', 'trx_mode': 'mode 1',
                     'effective-freq-slot': [{'N': n0, 'M': m0}], 'spacing': [50e9, 62.5e9, 75e9][k % 3],
                     'max-nb-of-channel': None, 'output-power': 0.001, 'path_bandwidth': 100e9}}}
                for k, (n0, m0) in enumerate((n, None if m is None else 6) for n, m in fixed)]
        jobs.append(record_planning(f'three-band-definitions:{"".join(map(str, order))}', net, eq3,
                                    loadable({'path-request': reqs}, ['crafted'] * len(reqs), eq3, chk), chk))
    # amplifier band edges off the 6.25 GHz grid (191.2781 - 196.1230 THz): the slots cut by an edge are outside the band
    for b in range(1 if chk.tier == 'quick' else 4):
        from gnpy.tools.json_io import _equipment_from_json, DEFAULT_EXTRA_CONFIG
        eqj = load_json(EX / 'eqpt_config.json')
        for amp in eqj['Edfa']:
            if amp.get('type_def') in ('variable_gain', 'fixed_gain'):
                amp['f_min'], amp['f_max'] = 191.2781e12 + b * 1.1e9, 196.1230e12 - b * 0.7e9
        eq = _equipment_from_json(copy.deepcopy(eqj), DEFAULT_EXTRA_CONFIG)
        net = designed_network(eq, load_network(EX / 'meshTopologyExampleV2.json', eq))[0]
        data, kinds = random_services(net, rng, 10, f'g{b}-')
        jobs.append(record_planning(f'meshV2-offgrid-amps:seeded-batch-{b}', net, eq, loadable(data, kinds, eq, chk), chk))
    jobs = [j for j in jobs if j is not None]
    traces_ok = judge_traces(jobs, chk)
    chk.cov['b3_traces'] = len(jobs)
    chk.cov['b3_requests'] = sum(len(t['ev']) for t in jobs)
    chk.traces += traces_ok


def judge_traces(jobs, chk):
    ok = 0
    # group by identical grid+unusable layout so constants can be literal
    groups = {}
    for tr in jobs:
        key = json.dumps([tr['nmin'], tr['nmax'], tr['idxmin'], tr['idxmax'], tr['noms'], tr['unusable'],
                          tr.get('policy', 'first_fit')], sort_keys=True)
        groups.setdefault(key, []).append(tr)
    for key, trs in groups.items():
        data = '\n'.join(json.dumps(dict(name=t['name'], ev=t['ev'], final=[t['final'][o] for o in sorted(t['final'])]))
                         for t in trs) + '\n'
        res = tlc.run('Trace_SpectrumAssign', extra_modules={'TraceData': trace_module(trs[0])},
                      extra_files={'trace.ndjson': data}, env={'TRACE_FILE': 'trace.ndjson'}, workers=1,
                      timeout=1800, tag='c14-trace')
        if not res.ok:
            raise Machinery(f'trace validation run failed: {res.error or res.violated}\n{res.out[-2000:]}')
        chk.states += res.distinct
        chk.transitions += res.generated
        verdicts = {v['name']: v for v in res.emitted}
        for t in trs:
            v = verdicts.get(t['name'])
            if v is None:
                raise Machinery(f'no verdict for trace {t["name"]}')
            if v['n'] != len(t['ev']):
                raise Machinery(f'trace {t["name"]} consumed {v["n"]}/{len(t["ev"])} events')
            if v['viol']:
                for step, clause in v['viol'][:3]:
                    e = t['ev'][step - 1] if step >= 1 else {}
                    sig = f'B3|{clause}|{e.get("st")}|slots={"".join("(%s,%s)" % (("-" if s["n"] == NONE else "N"), ("-" if s["m"] == NONE else "M")) for s in e.get("slots", []))}'
                    if t.get('policy', 'first_fit') != 'first_fit':
                        sig += f'|{t["policy"]}'
                    chk.violation(sig, dict(trace=t['name'], step=step, clause=clause, event=e))
            else:
                ok += 1
            if t is trs[0] and len(chk.samples) < 4:
                chk.sample(dict(kind='B3 trace of real assignment judged by Trace_SpectrumAssign', name=t['name'],
                                first_events=[{k: e[k] for k in ('id', 'path', 'slots', 'bw', 'rate', 'spacing', 'st', 'nm')}
                                              for e in t['ev'][:3]]))
    return ok


# ------------------------------------------------------------------------------------------------------ mutants
def _mut_alias():
    import gnpy.topology.spectrum_assignment as sa
    orig = sa.bitmap_sum

    def bitmap_sum(b1, b2):         # aggregate writes through into the first OMS (missing copy)
        res = orig(b1, b2)
        b1[:] = res
        return b1
    sa.bitmap_sum = bitmap_sum


def _mut_offbyone():
    import gnpy.topology.spectrum_assignment as sa
    sa.mvalue_to_slots = lambda n, m: (n - m, n + m)


def _mut_guard():
    import gnpy.topology.spectrum_assignment as sa
    orig = sa.spectrum_selection

    def sel(test_oms, requested_m, requested_n=None, policy=sa.FIRST_FIT):
        b = test_oms.spectrum_bitmap
        save = b.freq_index_max
        b.freq_index_max = b.n_max
        try:
            return orig(test_oms, requested_m, requested_n, policy)
        finally:
            b.freq_index_max = save
    sa.spectrum_selection = sel


def _mut_lastfit():
    import gnpy.topology.spectrum_assignment as sa
    orig = sa.select_candidate
    sa.select_candidate = lambda c, policy: orig(c, sa.LAST_FIT if len(c) > 3 else policy)


def _mut_lastfit_second():
    import gnpy.topology.spectrum_assignment as sa
    orig = sa.select_candidate
    sa.select_candidate = lambda c, policy: c[-2] if policy == sa.LAST_FIT and len(c) > 1 else orig(c, policy)


def _mut_reverse_lost():
    import gnpy.topology.spectrum_assignment as sa
    orig = sa.build_path_oms_id_list
    sa.build_path_oms_id_list = lambda pth: sorted(orig(pth))[:max(1, len(orig(pth)) - 1)] if len(orig(pth)) > 2 else orig(pth)


MUTANTS = {'lastfit_second': _mut_lastfit_second, 'alias': _mut_alias, 'offbyone': _mut_offbyone, 'guard': _mut_guard, 'lastfit': _mut_lastfit,
           'reverse_lost': _mut_reverse_lost}
