"""C16 - each request's result is independent of the other requests in the batch; computing requests leaves the
designed network's settings unchanged; only the spectrum slots depend on history.

B1  spec/Planning.tla (batch pipeline: Process(r)* then Report) instantiated by MC_Planning: every ordering of every
    subset of a pool of six request classes (1956 histories) with Independent, SettingsAreTheDesign,
    OnlySlotsDependOnHistory, BlockedHoldsNoSpectrum as invariants and NetworkFrozen as action property.  The same
    model with Leaky = TRUE (propagation on the shared element objects) MUST violate them - the clauses are not vacuous.
B2  every history TLC enumerates is concretised into a real batch (the six classes realised on a bench network) and
    replayed through the real worker_utils.planning() on a freshly designed network; the projected results, the solo
    result of every class, TLC's predicted verdict per position and network_to_json before/after go to a second TLC
    pass (Trace_Planning) which decides Independent / ModelAgrees / OnlySlotsDependOnHistory / NetworkFrozen.
B3  the shipped service files, batches of near-identical requests (a base + its one-attribute variants: hop type,
    transceiver power, reference power, direction flag, channel count, spacing, include list) and seeded random
    batches, in original, reversed and seeded-shuffled order; every response entry is compared with the run of its own
    unit alone (unit = requests the user cannot tell apart - same resolved parameters - or tied by a synchronization
    vector; an entry that mixes two units has no solo counterpart and violates Independent).  The first ordering is the
    reference every other ordering is compared with (OrderIndependent - the only way to judge members of a
    synchronization vector, which cannot be computed alone); the last run of every batch builds the requests through
    the API (PathRequest(**params)) instead of the JSON loader; synchronization batches with several feasible disjoint
    combinations; batches under non-default process-wide SimParams (GGN on a few channels of the comb), with
    SimParamsFrozen judged like NetworkFrozen.  The crafted mesh bench of this part (MESH) has Raman-pumped spans (element
    class RamanFiber) and runs under the DEFAULT process-wide parameters (Raman solver off); one near-identical base (E)
    leaves the mode open over a fine ladder of thresholds, so that its variants - same transponder type, spacing and
    route, another comb - each select their own mode when computed alone.
"""
import copy
import random

from harness import tlc
from harness.core import Machinery
from harness.gnpy_util import EX, TD
from harness import planning_util as pu

MESH = 'meshV2+island+raman'     # the crafted mesh bench of B3: mesh V2 + an unreachable site + Raman-pumped spans

CLAUSES16 = ('OneEntryPerRequest', 'Independent', 'ModelAgrees', 'OnlySlotsDependOnHistory', 'NetworkFrozen', 'SimParamsFrozen',
             'OrderIndependent', 'OnlyRouteRedesigned', 'RedesignIsForTheRequest')


# ---------------------------------------------------------------------------------------------- pool concretisation
def pool(bench):
    """the six request classes of MC_Planning realised on a bench.  Geometry assumed by the model and checked on the
    solo runs below: dense / sat / loose / slot pairwise share an OMS, the free ones take the bottom of the band when alone,
    slot fixes the bottom of the band."""
    if bench == 'meshV2':
        return {
            'dense': pu.rq('dense', 'Lannion_CAS', 'Lorient_KMA', typ='Voyager', mode='mode 1', spacing=37.5e9),
            'sat': pu.rq('sat', 'Lannion_CAS', 'Vannes_KBE', typ='VerifDense', mode=None, spacing=25e9, bw=200e9,
                         bidir=True),
            # nopath / loose: same ends, same include list (an amplifier of the opposite direction), hop type differs
            # (forced mode WITH impairment penalties: the receiver dense and slot also end on then holds penalties)
            'nopath': pu.rq('nopath', 'Lannion_CAS', 'Lorient_KMA', typ='VerifMixed', mode='p1',
                            route=['east edfa in Lorient_KMA to Loudeac']),
            'loose': pu.rq('loose', 'Lannion_CAS', 'Lorient_KMA', typ='VerifMixed', mode='p1',
                           route=['east edfa in Lorient_KMA to Loudeac'], strict=False),
            'badmode': pu.rq('badmode', 'Lannion_CAS', 'Vannes_KBE', typ='VerifHard', mode=None, spacing=75e9, bidir=True),
            'slot': pu.rq('slot', 'Brest_KLA', 'Lorient_KMA', route=['roadm Lannion_CAS'], slots=[(0, 4)]),
        }
    if bench == 'testTopology':
        return {
            'dense': pu.rq('dense', 'a', 'g', typ='VerifDense', mode='d1', spacing=37.5e9),
            'sat': pu.rq('sat', 'a', 'h', typ='VerifDense', mode=None, spacing=25e9, bw=200e9, bidir=True),
            # nopath / loose: same ends, same include list (nodes in an impossible order), hop type differs
            'nopath': pu.rq('nopath', 'a', 'g', typ='VerifMixed', mode='p1', route=['roadm h', 'roadm a', 'roadm h']),
            'loose': pu.rq('loose', 'a', 'g', typ='VerifMixed', mode='p1', route=['roadm h', 'roadm a', 'roadm h'],
                           strict=False),
            'badmode': pu.rq('badmode', 'a', 'h', typ='VerifHard', mode=None, spacing=75e9, bidir=True),
            'slot': pu.rq('slot', 'a', 'g', typ='Voyager', mode='mode 1', slots=[(0, 4)]),
        }
    raise KeyError(bench)


SOLO_STATUS = {'dense': '', 'sat': '', 'nopath': 'NO_PATH_WITH_CONSTRAINT', 'loose': '', 'badmode': 'NO_FEASIBLE_MODE',
               'slot': ''}


def prepare_pool(bench, chk):
    """solo runs of the six classes; fixes the slot class at the bottom of the band (from the dense solo run) and
    verifies the concretisation realises the model's classes (otherwise the harness is wrong: machinery)"""
    p = pool(bench)
    probe = pu.run_batch(bench, {'path-request': [p['dense']]}, f'{bench}:probe', want_csv=False)
    if probe.exc or not probe.entries[0]['o']['nm']:
        raise Machinery(f'{bench}: dense probe failed {probe.exc}')
    n, m = probe.entries[0]['o']['nm'][0]
    p['slot']['path-constraints']['te-bandwidth']['effective-freq-slot'] = [{'N': n - m + 4, 'M': 4}]
    solos = {}
    for c, r in p.items():
        run = pu.run_batch(bench, {'path-request': [r]}, f'{bench}:solo:{c}')
        if run.exc:
            chk.violation(f'B2|exception-in-planning|{c}|{run.exc.split(":")[0]}',
                          dict(bench=bench, cls=c, exception=run.exc, tb=run.tb))
            return None, None
        if len(run.entries) != 1:
            chk.violation(f'B2|OneEntryPerRequest|{bench}|{c}|alone',
                          dict(bench=bench, cls=c, request=r, entries=[e['e']['idstr'] for e in run.entries]))
            return None, None
        got = run.entries[0]['o']
        if got['reason'] != SOLO_STATUS[c] or (c == 'sat' and got['mode'] != 'd1'):
            # the class is defined by its library entry and route; MC_Planning predicts its verdict alone (sat: the first
            # explored mode is rejected for its penalty, the second - no penalty defined - is selected).  Green on the
            # unchanged tree, so a deviation is the code's
            chk.violation(f'B2|ModelAgrees|{bench}|{c}|alone',
                          dict(bench=bench, cls=c, predicted=SOLO_STATUS[c] or 'served', reason=got['reason'],
                               mode=got['mode'], raised=got['raised'], request=r))
        solos[c] = run
    if any(not solos[c].entries[0]['o']['nm'] for c in ('dense', 'sat', 'slot', 'loose')):
        return p, solos                       # a deviating class was reported above; the geometry cannot be read off it
    oms = {c: set(solos[c].entries[0]['o']['oms']) for c in ('dense', 'sat', 'slot', 'loose')}
    lo = {c: solos[c].entries[0]['o']['nm'][0][0] - solos[c].entries[0]['o']['nm'][0][1] for c in oms}
    if not all(oms[a] & oms[b] for a in oms for b in oms) or len(set(lo.values())) != 1:
        raise Machinery(f'{bench}: pool geometry differs from the model {oms} {lo}')
    clamped = clamp_report(bench, p)
    chk.cov[f'{bench}_amplifiers_clamped_by_dense/sat'] = clamped
    if not clamped['dense'] or not clamped['sat']:
        raise Machinery(f'{bench}: dense/sat classes do not saturate any amplifier {clamped}')
    return p, solos


def clamp_report(bench, p):
    """how many amplifiers of the propagated copy ended below their designed gain (shows the classes do what they are
    named after; measurement only)"""
    from gnpy.core.elements import Edfa
    from gnpy.tools.worker_utils import planning
    out = {}
    for c in ('dense', 'sat'):
        net, eq = pu.fresh_network(bench)
        g0 = {n.uid: n.effective_gain for n in net.nodes() if isinstance(n, Edfa)}
        _, pp, _, _, _, _ = planning(net, eq, {'path-request': [copy.deepcopy(p[c])]})
        out[c] = sum(1 for e in pp[0] if isinstance(e, Edfa) and g0[e.uid] - e.effective_gain > 1e-6)
    return out


def trace_spec_selftest(chk, t0):
    """each C16 clause of Trace_Planning must fire when the field it talks about is corrupted in a recorded history"""
    base = copy.deepcopy(t0)
    base['name'] = 'selftest:base'
    k = next(i for i, x in enumerate(base['ent']) if x['c16']['cur']['reason'] == '' and x['c16']['cur']['nm'])
    cases = [('Independent', lambda t: t['ent'][k]['c16']['cur']['rx'].update(snr01=t['ent'][k]['c16']['cur']['rx']['snr01'] + 10)),
             ('ModelAgrees', lambda t: t['ent'][k]['c16'].update(exp='NO_SPECTRUM')),
             ('OnlySlotsDependOnHistory', lambda t: (t['ent'][0]['c16']['cur'].update(nm=[[123, 4]]),
                                                     t['ent'][0]['c16']['solo'].update(nm=[[7, 4]]))),
             ('NetworkFrozen', lambda t: t['netA'].__setitem__(0, 1)),
             ('SimParamsFrozen', lambda t: t['simA'].__setitem__(0, 1)),
             ('OrderIndependent', lambda t: t['ent'][k]['c16'].update(
                 hasRef=True, ref=dict(t['ent'][k]['c16']['cur'], found=True, route=['elsewhere'])))]
    traces = [base]
    for clause, f in cases:
        t = copy.deepcopy(base)
        t['name'] = f'selftest:{clause}'
        f(t)
        traces.append(t)
    v = pu.judge(traces, chk, 'c16-selftest')
    if v['selftest:base']:
        return
    silent = [c for c, _ in cases if c not in {x[1] for x in v[f'selftest:{c}']}]
    if silent:
        raise Machinery(f'Trace_Planning clauses that do not fire on a corrupted trace: {silent}')
    chk.cov['trace_clauses_shown_to_fire'] = len(cases)


# ------------------------------------------------------------------------------------------------------------- B2
def b2(chk, bench, hists):
    p, solos = prepare_pool(bench, chk)
    if p is None:
        return 0
    solo_core = {c: pu.core_of(solos[c].entries[0]) for c in p}
    traces, runs = [], {}
    for h in hists:
        order = h['order']
        name = f'{bench}:' + '>'.join(order)
        run = pu.run_batch(bench, {'path-request': [copy.deepcopy(p[c]) for c in order]}, name)
        chk.case(name, nontrivial=len(order) > 1)
        if run.exc:
            chk.violation(f'B2|exception-in-planning|{bench}|{">".join(sorted(order))}',
                          dict(bench=bench, order=order, exception=run.exc, tb=run.tb))
            continue
        if [e['e']['idstr'] for e in run.entries] != order:
            chk.violation(f'B2|OneEntryPerRequest|{bench}|batch', dict(order=order, got=[e['e']['idstr'] for e in run.entries]))
            continue
        c16 = {i: dict(exp=h['st'][i], solo=solo_core[c], unit=i + 1) for i, c in enumerate(order)}
        traces.append(pu.trace_of(run, c16=c16, j19=False))
        runs[name] = (run, h)
    if traces and not chk.mutant and 'trace_clauses_shown_to_fire' not in chk.cov:
        trace_spec_selftest(chk, next(t for t in traces if len(t['ent']) >= 2 and t['ent'][0]['c16']['cur']['nm']))
    verdicts = pu.judge(traces, chk, f'c16-b2-{bench}')
    for name, viol in verdicts.items():
        run, h = runs[name]
        if not viol:
            chk.traces += 1
        for step, clause in viol:
            if clause not in CLAUSES16:
                continue
            cls = h['order'][step - 1] if step <= len(h['order']) else 'batch'
            before = sorted(set(h['order'][:step - 1])) if step <= len(h['order']) else sorted(h['order'])
            chk.violation(f'B2|{clause}|{bench}|{cls}|after={"+".join(before) or "-"}',
                          dict(bench=bench, order=h['order'], step=step, clause=clause,
                               entry=run.entries[step - 1] if step <= len(run.entries) else None,
                               solo=solo_core.get(cls),
                               net_changed=[u for u, a, b in zip(run.net_uids, run.netB, run.netA) if a != b][:10]))
    if len(chk.samples) < 2 and traces:
        t = next((t for t in traces if len(t['ent']) >= 3), traces[0])
        chk.sample(dict(kind='B2 history replayed through planning() and judged by Trace_Planning', name=t['name'],
                        per_request=[dict(predicted=x['c16']['exp'], reason=x['c16']['cur']['reason'],
                                          mode=x['c16']['cur']['mode'], snr01_udB=x['c16']['cur']['rx']['snr01'],
                                          solo_snr01_udB=x['c16']['solo']['rx']['snr01'], nm=x['c16']['cur']['nm'],
                                          solo_nm=x['c16']['solo']['nm']) for x in t['ent']]))
    return len(traces)


def b2_redesign(chk, bench, hists):
    """Planning.tla, variant Redesign: TLC-enumerated histories replayed through planning(redesign=True); every request is
    compared with its run alone under the same option (results: Independent; the settings its redesign left on its route:
    RedesignIsForTheRequest), every redesign may touch its own route only (OnlyRouteRedesigned) and nothing else changes
    a setting (NetworkFrozen).  The model's abstract verdicts are not compared here (exp = '')."""
    p = pool(bench)
    probe = pu.run_batch(bench, {'path-request': [p['dense']]}, f'{bench}:probe', want_csv=False)
    if probe.exc or not probe.entries[0]['o']['nm']:
        raise Machinery(f'{bench}: dense probe failed {probe.exc}')
    n, m = probe.entries[0]['o']['nm'][0]
    p['slot']['path-constraints']['te-bandwidth']['effective-freq-slot'] = [{'N': n - m + 4, 'M': 4}]
    solo_core, solo_post, moved = {}, {}, 0
    for c, r in p.items():
        run = pu.run_batch(bench, {'path-request': [copy.deepcopy(r)]}, f'{bench}:redesign:solo:{c}', redesign=True)
        if run.exc or len(run.entries) != 1:
            chk.violation(f'B2|exception-in-planning|redesign|{c}|{(run.exc or "entries").split(":")[0]}',
                          dict(bench=bench, cls=c, exception=run.exc, tb=getattr(run, 'tb', '')))
            return 0
        solo_core[c] = pu.core_of(run.entries[0])
        for d in run.red:
            solo_post[d['id']] = d['post']
            moved += bool(d['changed'])
    if not moved:
        raise Machinery(f'{bench}: no redesign of the pool changes any setting - the variant is not exercised')
    chk.cov['redesign_solo_runs_that_changed_settings'] = moved
    traces, runs = [], {}
    for h in hists:
        order = h['order']
        name = f'{bench}:redesign:' + '>'.join(order)
        run = pu.run_batch(bench, {'path-request': [copy.deepcopy(p[c]) for c in order]}, name, redesign=True)
        chk.case(name, nontrivial=len(order) > 1)
        if run.exc:
            chk.violation(f'B2|exception-in-planning|redesign|{bench}|{">".join(sorted(order))}',
                          dict(bench=bench, order=order, exception=run.exc, tb=run.tb))
            continue
        if [e['e']['idstr'] for e in run.entries] != order:
            chk.violation(f'B2|OneEntryPerRequest|redesign|{bench}|batch', dict(order=order))
            continue
        c16 = {i: dict(exp='', solo=solo_core[c], unit=i + 1) for i, c in enumerate(order)}
        traces.append(pu.trace_of(run, c16=c16, j19=False, soloPost=solo_post))
        runs[name] = (run, h)
    if traces and not chk.mutant and 'redesign_trace_clauses_shown_to_fire' not in chk.cov:
        t0 = next(t for t in traces if len(t['red']) >= 2 and any(d['changed'] for d in t['red']))
        bad = []
        for clause, mut in (('OnlyRouteRedesigned', lambda t: t['red'][0].update(given=t['red'][0]['given'][1:] if t['red'][0]['changed'][0] == t['red'][0]['given'][0] else [g for g in t['red'][0]['given'] if g != t['red'][0]['changed'][0]])),
                            ('RedesignIsForTheRequest', lambda t: t['red'][0].update(soloPost=[x ^ 1 for x in t['red'][0]['soloPost']])),
                            ('NetworkFrozen', lambda t: t.update(netA=[t['netA'][0] ^ 1] + t['netA'][1:]) if 1 not in
                             {k for d in t['red'] for k in d['changed']} else t.update(netA=t['netA'][:-1] + [t['netA'][-1] ^ 1]))):
            t = copy.deepcopy(t0)
            d0 = next(d for d in t['red'] if d['changed'])
            t['red'].remove(d0)
            t['red'].insert(0, d0)
            mut(t)
            t['name'] = 'selftest-' + clause
            v = pu.judge([t], chk, 'c16-redesign-selftest')
            if clause not in {c for _, c in v[t['name']]}:
                bad.append(clause)
        if bad:
            raise Machinery(f'Trace_Planning redesign clauses that do not fire on a corrupted trace: {bad}')
        chk.cov['redesign_trace_clauses_shown_to_fire'] = ['OnlyRouteRedesigned', 'RedesignIsForTheRequest', 'NetworkFrozen']
    verdicts = pu.judge(traces, chk, f'c16-b2-redesign-{bench}')
    for name, viol in verdicts.items():
        run, h = runs[name]
        if not viol:
            chk.traces += 1
        for step, clause in viol:
            if clause not in CLAUSES16:
                continue
            cls = h['order'][step - 1] if step <= len(h['order']) else 'batch'
            before = sorted(set(h['order'][:step - 1])) if step <= len(h['order']) else sorted(h['order'])
            chk.violation(f'B2|{clause}|redesign|{bench}|{cls}|after={"+".join(before) or "-"}',
                          dict(bench=bench, order=h['order'], step=step, clause=clause,
                               entry=run.entries[step - 1] if step <= len(run.entries) else None, solo=solo_core.get(cls),
                               redesigns=[dict(id=d['id'], changed=[run.net_uids[k - 1] for k in d['changed']][:8],
                                               outside=[run.net_uids[k - 1] for k in d['changed'] if k not in d['given']][:8])
                                          for d in run.red]))
    return len(traces)


# ------------------------------------------------------------------------------------------------------------- B3
def restrict(data, ids):
    d = {'path-request': [copy.deepcopy(r) for r in data['path-request'] if str(r['request-id']) in ids]}
    sync = [copy.deepcopy(s) for s in data.get('synchronization', []) if set(s['svec']['request-id-number']) <= set(ids)]
    if sync:
        d['synchronization'] = sync
    return d


def reorder(data, order):
    d = copy.deepcopy(data)
    d['path-request'] = [d['path-request'][k] for k in order]
    return d


def b3_file(chk, bench, label, data, orders, solo_cache, api=True, warm=False, builder=None):
    """the batch in several orderings (the first one is the reference) and, last, built through the API; every entry is
    compared with (solo) the run of its unit alone and (ref) the same entry of the reference ordering"""
    import time as _t
    _t0 = _t.time()
    try:
        return _b3_file(chk, bench, label, data, orders, solo_cache, api, warm, builder)
    finally:
        chk.cov.setdefault('b3_wall_s_per_batch', {})[label] = round(_t.time() - _t0, 1)


def _b3_file(chk, bench, label, data, orders, solo_cache, api, warm, builder):
    traces, runs = [], {}
    ref = None
    todo = [(oname, order, 'json', None) for oname, order in orders]
    if api:
        todo.append(('api', orders[0][1], 'api', None))
    if warm:            # the same batch on a designed network that was already used to simulate its forced-mode requests
        used = [r for r in data['path-request'] if r['path-constraints']['te-bandwidth'].get('trx_mode')]
        if used:
            heavy = copy.deepcopy(used[0])                  # ... and a SATURATING comb between the same ends
            heavy['path-constraints']['te-bandwidth'].update({'trx_type': 'VerifDense', 'trx_mode': 'd1', 'spacing': 25e9,
                                                              'max-nb-of-channel': None,
                                                              'effective-freq-slot': [{'N': None, 'M': None}]})
            heavy['request-id'] = 'saturating-comb'
            todo.append(('used-network', orders[0][1], 'json', pu.loadable(bench, [heavy]) + used))
    lab = label.split('-')[0].split('@')[0]
    ids0 = [str(r['request-id']) for r in data['path-request']]
    for oname, order, via, warm_reqs in todo:
        # builder: the batch comes from another entry point (a service sheet holding exactly these rows, in this order)
        d = builder([ids0[k] for k in order]) if builder else reorder(data, order)
        name = f'{label}:{oname}'
        run = pu.run_batch(bench, d, name, via=via, warm=warm_reqs)
        chk.case(name, nontrivial=len(order) > 1)
        if run.warm_changed:       # the exported operating gain moved (amplifiers clamped by the warm-up): counted only -
            chk.cov['used_network_runs_with_clamped_amplifiers'] = \
                chk.cov.get('used_network_runs_with_clamped_amplifiers', 0) + 1    # the DESIGNED settings must survive
        if run.exc:
            if run.refused and ref is None and via == 'json':
                chk.cov['b3_batches_refused_by_the_code'] = chk.cov.get('b3_batches_refused_by_the_code', 0) + 1
                return []                  # ServiceError / DisjunctionError for the batch as written: nothing to compare
            kind = 'refusal-depends-on-order-or-entry-path' if run.refused else 'exception-in-planning'
            chk.violation(f'B3|{kind}|{lab}|{"used" if warm_reqs else via}|{run.exc.split(":")[0]}',
                          dict(name=name, exception=run.exc, tb=run.tb, requests=d['path-request']))
            continue
        if ref is None:
            ref = {frozenset(x['e']['ids']): pu.core_of(x) for x in run.entries}
        units = pu.units_by_key(run.inputs, d)
        unit_of = {i: k + 1 for k, u in enumerate(units) for i in u}
        c16 = {}
        for k, ent in enumerate(run.entries):
            u = units[unit_of[ent['e']['ids'][0]] - 1] if ent['e']['ids'][0] in unit_of else ent['e']['ids']
            key = (label, tuple(u))
            if len(u) == len(run.inputs) and via == 'json':
                solo_cache.setdefault(key, run)            # the unit is the whole batch: this run IS its run alone
            if key not in solo_cache:
                solo_cache[key] = pu.run_batch(bench, builder(list(u)) if builder else restrict(d, u),
                                               f'{label}:solo:{"+".join(u)}')
            srun = solo_cache[key]
            solo = None
            if srun.exc:
                chk.violation(f'B3|exception-in-planning|{lab}|json|{srun.exc.split(":")[0]}',
                              dict(name=srun.name, exception=srun.exc, tb=srun.tb, requests=srun.data['path-request']))
            else:
                solo = next((pu.core_of(x) for x in srun.entries if set(x['e']['ids']) == set(ent['e']['ids'])), None)
            c16[k] = dict(exp='', solo=solo, unit=unit_of.get(ent['e']['ids'][0], 0),
                          ref=ref.get(frozenset(ent['e']['ids'])))
        traces.append(pu.trace_of(run, c16=c16, j19=False))
        runs[name] = run
    return [(t, runs[t['name']], data, label) for t in traces]


def b3_judge(chk, jobs):
    """one TLC pass over every recorded B3 batch"""
    verdicts = pu.judge([j[0] for j in jobs], chk, 'c16-b3')
    for t, run, data, label in jobs:
        viol = verdicts[t['name']]
        if not viol:
            chk.traces += 1
        for step, clause in viol:
            if clause not in CLAUSES16:
                continue
            ent = run.entries[step - 1] if step <= len(run.entries) else None
            what = 'batch' if ent is None else ('sync' if any(
                set(ent['e']['ids']) & set(s['svec']['request-id-number']) for s in data.get('synchronization', [])) else
                ('aggregated' if len(ent['e']['ids']) > 1 else 'single'))
            via = 'api' if t['name'].endswith(':api') else 'used' if t['name'].endswith(':used-network') else 'json'
            chk.violation(f'B3|{clause}|{label.split("-")[0].split("@")[0]}|{what}|{via}', dict(
                trace=t['name'], step=step, clause=clause, entry=ent,
                net_changed=[u for u, a, b in zip(run.net_uids, run.netB, run.netA) if a != b][:10]))
    for t, _, _, _ in jobs[-1:]:
        chk.sample(dict(kind='B3 batch, reordered, each entry against its unit run alone', name=t['name'],
                        first_entries=[dict(id=x['e']['idstr'], reason=x['c16']['cur']['reason'], nm=x['c16']['cur']['nm'],
                                            solo_nm=x['c16']['solo']['nm'], snr01_udB=x['c16']['cur']['rx']['snr01'],
                                            solo_snr01_udB=x['c16']['solo']['rx']['snr01']) for x in t['ent'][:4]]))
    return len(jobs)


def shipped(tier):
    from gnpy.tools.json_io import load_gnpy_json
    files = [('meshV2', 'meshV2_services', load_gnpy_json(EX / 'meshTopologyExampleV2_services.json')),
             ('testTopology', 'testTopology_testservices', load_gnpy_json(TD / 'testTopology_testservices.json'))]
    if tier == 'thorough':
        files.append(('CORONET', 'CORONET_services', load_gnpy_json(TD / 'CORONET_services.json')))
    return files


def run(chk):
    import time
    t0 = time.time()
    phase = chk.cov.setdefault('phase_wall_s', {})
    # ---- B1
    base = (tlc.SPEC / 'MC_Planning.cfg').read_text()
    # all clauses as invariants; the same exhaustive run prints one line per history for B2 (Emit)
    r = tlc.run('MC_Planning', cfg_text=base + '\nINVARIANT Emit\n', timeout=600, tag='c16-mc')
    chk.add_mc('MC_Planning (1956 histories + reports, Leaky=FALSE, histories emitted)', r)
    chk.exhaustive = True
    bare = '\n'.join(ln for ln in base.splitlines() if not ln.startswith(('INVARIANT', 'PROPERTY')))
    for clause, kind in (('Independent', 'INVARIANT'), ('OnlySlotsDependOnHistory', 'INVARIANT'),
                         ('NetworkFrozen', 'PROPERTY'), ('SimParamsFrozen', 'PROPERTY'),
                         ('ReportedViewsIndependent', 'INVARIANT')):
        if chk.tier == 'quick' and clause in ('OnlySlotsDependOnHistory', 'ReportedViewsIndependent'):
            continue                                      # thorough tier only (one JVM start less in the quick tier)
        rl = tlc.run('MC_Planning', cfg_text=bare.replace('Leaky = FALSE', 'Leaky = TRUE') + f'\n{kind} {clause}\n',
                     timeout=600, tag='c16-leaky')
        chk.add_mc(f'MC_Planning Leaky=TRUE must violate {clause}', rl, require_ok=False)
        if rl.violated != clause:
            raise Machinery(f'vacuity: the defective model (Leaky) does not violate {clause}: {rl.error}')
    chk.cov['clauses_shown_non_vacuous'] = ['Independent', 'NetworkFrozen', 'SimParamsFrozen'] + \
        (['OnlySlotsDependOnHistory', 'ReportedViewsIndependent'] if chk.tier == 'thorough' else [])
    # the pipeline variant --redesign-per-request: same pool, every history; the settings now change, but only on the route of
    # the request being computed and to what a design for that request alone gives - so the results stay independent
    red = base.replace('Redesign = FALSE', 'Redesign = TRUE').replace('PROPERTY NetworkFrozen', 'PROPERTY OnlyRouteRedesigned') \
        + '\nPROPERTY RedesignIsForTheRequest\n'
    rr = tlc.run('MC_Planning', cfg_text=red, timeout=600, tag='c16-mc-redesign')
    chk.add_mc('MC_Planning Redesign=TRUE (1956 histories + reports)', rr)
    for clause, kind in (('Independent', 'INVARIANT'), ('RedesignIsForTheRequest', 'PROPERTY')):
        if chk.tier == 'quick' and clause == 'Independent':
            continue
        rl = tlc.run('MC_Planning', cfg_text=bare.replace('Leaky = FALSE', 'Leaky = TRUE').replace('Redesign = FALSE', 'Redesign = TRUE')
                     + f'\n{kind} {clause}\n', timeout=600, tag='c16-leaky-redesign')
        chk.add_mc(f'MC_Planning Redesign=TRUE Leaky=TRUE must violate {clause}', rl, require_ok=False)
        if rl.violated != clause:
            raise Machinery(f'vacuity: the defective redesign model (Leaky) does not violate {clause}: {rl.error}')
    chk.cov['clauses_shown_non_vacuous'] += ['RedesignIsForTheRequest (Redesign)'] + \
        (['Independent (Redesign)'] if chk.tier == 'thorough' else [])
    phase['B1'] = round(time.time() - t0, 1)
    # ---- B2
    hists = sorted(r.emitted, key=lambda h: (len(h['order']), h['order']))
    if len(hists) != 1956:
        raise Machinery(f'{len(hists)} histories emitted, 1956 expected')
    if chk.tier == 'quick':
        rng = random.Random(chk.seed)
        short = [h for h in hists if len(h['order']) <= 2]
        long_ = [h for h in hists if len(h['order']) > 2]
        sel = short + rng.sample(long_, 10)
        n = b2(chk, 'meshV2', sel)
        chk.cov['b2_histories'] = {'meshV2': n}
        pairs = [h for h in hists if len(h['order']) == 2 and {'dense', 'sat'} & set(h['order'])]
        chk.cov['b2_histories_redesign'] = {'meshV2': b2_redesign(chk, 'meshV2', rng.sample(pairs, 6) + rng.sample(long_, 4))}
    else:
        rng = random.Random(chk.seed)
        tt = [h for h in hists if len(h['order']) <= 3] + rng.sample([h for h in hists if len(h['order']) > 3], 200)
        chk.cov['b2_histories'] = {'meshV2': b2(chk, 'meshV2', hists), 'testTopology': b2(chk, 'testTopology', tt)}
        chk.cov['b2_histories_redesign'] = {'meshV2': b2_redesign(chk, 'meshV2', tt), 'testTopology': b2_redesign(chk, 'testTopology', tt[:150])}
    chk.cov['model_histories_with_slot_dependence'] = sum(1 for h in hists if not all(h['sameAsSolo']))
    phase['B1+B2'] = round(time.time() - t0, 1)
    # ---- B3
    rng = random.Random(chk.seed + 16)
    nshuf = 1 if chk.tier == 'quick' else 8
    cache = {}
    jobs = []
    for bench, label, data in shipped(chk.tier):
        n = len(data['path-request'])
        orders = [('original', list(range(n)))]
        if n > 1 and (chk.tier == 'thorough' or n <= 10):
            orders.append(('reversed', list(reversed(range(n)))))
        if n > 1:
            for k in range(nshuf if (chk.tier == 'thorough' or n <= 10) else 0):
                o = list(range(n))
                rng.shuffle(o)
                orders.append((f'shuffled-{k}', o))
        jobs += b3_file(chk, bench, label, data, orders, cache)
    # near-identical requests: a base and its one-attribute variants must each come out as if computed alone
    # (the crafted mesh bench of this part has Raman-pumped spans - an element class of its own - and runs under the default
    # process-wide simulation parameters, i.e. Raman solver off)
    for bench in ([MESH] if chk.tier == 'quick' else [MESH, 'testTopology']):
        for label, reqs in pu.near_identical(bench):
            if chk.tier == 'quick' and label.endswith('-C'):
                continue        # long bidirectional automatic-mode base: thorough tier (quick has it under GGN, one span)
            n = len(reqs)
            orders = [('original', list(range(n))), ('reversed', list(reversed(range(n))))]
            if chk.tier == 'thorough':
                for k in range(2):
                    o = list(range(n))
                    rng.shuffle(o)
                    orders.append((f'shuffled-{k}', o))
            jobs += b3_file(chk, bench, f'{label}@{bench}', {'path-request': reqs}, orders, cache,
                            warm=chk.tier == 'thorough' or not label.endswith('-B'),
                            api=chk.tier == 'thorough' or label.endswith('-A'))
        # include lists naming line elements of the own route (explicit routes) next to bidirectional requests whose
        # reverse direction runs through the same OMS
        for label, reqs in pu.explicit_route_batches(bench)[:1 if chk.tier == 'quick' else 2]:
            n = len(reqs)
            orders = [('original', list(range(n))), ('reversed', list(reversed(range(n))))]
            jobs += b3_file(chk, bench, f'{label}@{bench}', {'path-request': reqs}, orders, cache, warm=True,
                            api=chk.tier == 'thorough')
    # the XLSX service-sheet entry point (site names resolved to the amplifier of the crossing direction): a sheet with
    # all the rows, in two orders, against sheets holding one row each
    rows = pu.sheet_rows()
    ids = list(rows) if chk.tier == 'thorough' else list(rows)[:4]
    orders = [('original', list(range(len(ids)))), ('reversed', list(reversed(range(len(ids)))))]
    jobs += b3_file(chk, 'ila', 'sheet@ila', {'path-request': [{'request-id': i} for i in ids]}, orders, cache, api=False,
                    builder=pu.sheet_builder(rows))
    # synchronization vectors with several feasible disjoint combinations: every ordering of the path-request list
    for bench in (['meshV2'] if chk.tier == 'quick' else ['meshV2', 'testTopology']):
        for label, data in pu.sync_batches(bench):
            n = len(data['path-request'])
            orders = [('original', list(range(n))), ('reversed', list(reversed(range(n))))]
            if n > 2:
                for k in range(0 if chk.tier == 'quick' else 4):
                    o = list(range(n))
                    rng.shuffle(o)
                    orders.append((f'shuffled-{k}', o))
            jobs += b3_file(chk, bench, f'{label}@{bench}', data, orders, cache,
                            api=chk.tier == 'thorough' or label == 'sync-same-ends')
    # non-default process-wide simulation parameters (GGN evaluated on a few channels of the propagated comb): batches
    # mixing channel counts (the spacing / channel-count variants of a base request), forced and automatic mode,
    # uni- and bidirectional
    for bench in (['meshV2+island@ggn'] if chk.tier == 'quick' else ['meshV2+island@ggn', 'meshV2+island@ggnss']):
        for label, reqs in pu.near_identical(bench, light=chk.tier == 'quick'):
            n = len(reqs)
            orders = [('original', list(range(n))), ('reversed', list(reversed(range(n))))]
            jobs += b3_file(chk, bench, f'{label}@{bench}', {'path-request': reqs}, orders, cache, api=False)
    # seeded random batches (every blocking reason, fixed / multi slots, aggregation), each in several orders
    nrand = 1 if chk.tier == 'quick' else 32
    for b in range(nrand):
        bench = MESH if b % 4 != 3 else 'testTopology'
        reqs = pu.loadable(bench, pu.random_batch(rng, bench, f'r{b}-', 10))
        n = len(reqs)
        orders = [('original', list(range(n))), ('reversed', list(reversed(range(n))))]
        for k in range(1 if chk.tier == 'quick' else 2):
            o = list(range(n))
            rng.shuffle(o)
            orders.append((f'shuffled-{k}', o))
        jobs += b3_file(chk, bench, f'seeded-{b}', {'path-request': reqs}, orders, cache)
    phase['..B3 runs'] = round(time.time() - t0, 1)
    chk.cov['b3_batches'] = b3_judge(chk, jobs)
    phase['..B3 judged'] = round(time.time() - t0, 1)
    # ---- pipeline composition (spec/Gnpy.tla): stage-by-stage traces of real runs judged by Trace_Gnpy:
    # only Design changes settings, only Assign changes occupancy, SimParams untouched, blocked requests hold nothing
    from harness import pipeline
    import copy as _copy
    from gnpy.tools.json_io import network_from_json
    rmc = tlc.run('MC_Gnpy', timeout=600, tag='gnpy-mc')
    chk.add_mc('MC_Gnpy (pipeline composition, 3 requests)', rmc)
    if chk.tier == 'thorough':
        rmr = tlc.run('MC_Gnpy', cfg_text=(tlc.SPEC / 'MC_Gnpy.cfg').read_text().replace('Redesign = FALSE', 'Redesign = TRUE'),
                      timeout=600, tag='gnpy-mc-redesign')
        chk.add_mc('MC_Gnpy Redesign=TRUE (the propagation stage may redesign the routes)', rmr)
    ptraces = []
    for b in range(2 if chk.tier == 'quick' else 12):
        bench = 'meshV2+island'
        eqb = pu.bench_equipment(pu.BENCH_EQPT[bench])
        reqs = pu.loadable(bench, pu.random_batch(rng, bench, f'p{b}-', 8))
        try:
            ptraces.append(pipeline.record_run(f'pipeline-{b}',
                                               lambda: network_from_json(_copy.deepcopy(pu._topo(bench)), eqb),
                                               eqb, {'path-request': reqs}))
        except Exception as ex:              # noqa: the stage recorder indexes the result lists by request: a run whose
            import traceback                 # lists are misaligned (or that raises) is the code's doing, not the harness's
            chk.violation(f'pipeline|exception-while-recording-a-run|{type(ex).__name__}',
                          dict(batch=f'pipeline-{b}', exception=f'{type(ex).__name__}: {ex}', tb=traceback.format_exc(),
                               requests=reqs))
    nok = pipeline.judge(ptraces, chk)
    chk.traces += nok
    chk.cov['pipeline_traces'] = len(ptraces)
    # several complete runs in one process, each from freshly loaded files: a run is a function of its inputs
    sessions = []
    try:
        sessions.append(pipeline.record_session('session-0', chk.tier))
    except Machinery:
        raise
    except Exception as ex:                  # noqa: shipped files and plain requests: a run that raises is the code's doing
        chk.violation(f'pipeline|exception-in-a-session-run|{type(ex).__name__}',
                      dict(session='session-0', exception=f'{type(ex).__name__}: {ex}'))
    if sessions:
        chk.traces += pipeline.judge_sessions(sessions, chk)
    chk.cov['session_runs'] = sum(len(s['runs']) for s in sessions)
    chk.cov['tolerance_udB'] = 3
    chk.cov['measured_deviation_udB'] = 0
    chk.cov['rule'] = ('B2: one case per (bench, history) - non-trivial when the history has >= 2 requests; '
                       'B3: one case per (service file, order)')
    chk.assume('the network is designed once and requests are computed by worker_utils.planning(); the variant '
               'planning(redesign=True) (--redesign-per-request) is covered by MC_Planning Redesign=TRUE and the B2 redesign '
               'replays: there the settings of the route of the request being computed may change, nothing else')
    chk.assume('solo run of a request = the batch restricted to its unit (requests with the same resolved parameters - the '
               'only ones that may be aggregated - or tied to it by a synchronization vector), in the same relative order, '
               'on a freshly designed network')
    chk.assume('two orderings of one batch (synchronization vectors untouched) must give every request the same result: both '
               'equal the result computed alone; a batch the code refuses (ServiceError / DisjunctionError) is not judged, a '
               'refusal that depends on the ordering is')
    chk.assume('requests built through the API (PathRequest(**params) with the loader\'s resolved values, optional keys not '
               'given left to the class defaults) are the same requests: they are compared with the same solo runs')
    chk.assume('reported views compared between runs: response entry (route, mode, metrics, z-a block), the CSV row of '
               'jsontocsv (all columns; bandwidth / pass flag / cost only when neither run blocked the request in spectrum '
               'assignment), the receivers at the return of each propagation and the element list of the reverse path')
    chk.assume('used-network runs: a saturating comb and the forced-mode requests of the batch are first simulated one by one '
               'on the network\'s own elements (compute_constrained_path + propagate); planning() on that network must give '
               'every request the result it has on a fresh network (the operating gain exported by network_to_json may have '
               'been clamped by the warm-up - the designed gain must not)')
    chk.assume('service sheets: json_io.load_requests on a copy of tests/data/ila_constraint.xlsx whose Service sheet holds the '
               'rows of the batch (all of them / one of them)')
    chk.assume('network settings are observed through json_io.network_to_json (one CRC per exported element) plus the element '
               'list of every OMS (from the start of routing to the end of planning)')
    chk.assume('bench equipment = shipped eqpt_config.json plus library transceiver types (VerifDense 25 GHz comb, '
               'VerifHard unreachable OSNR thresholds, VerifMixed / VerifEdge impairment penalties, VerifLadder 201 modes '
               'with thresholds every 0.1 dB); no gnpy code is modified')
    chk.assume(f'B3 crafted mesh bench {MESH}: the spans of {pu.RAMAN_MIN_KM} km or more that end at '
               f'{pu.RAMAN_SITE["meshV2"]} are RamanFibers (two counter-propagating pumps), used under the default process-wide '
               'simulation parameters (Raman solver off - API use without a sim-params file); this network is loaded and '
               'designed once per process and every run works on its own deep copy (measured: same results and same '
               'network_to_json as a fresh load + design)')
    chk.assume('B2 expectation "blocked NO_SPECTRUM / served" relies on first-fit filling from the bottom of the band '
               '(checked on the solo runs); N/M values themselves are C14 business and only compared solo vs batch')


# ------------------------------------------------------------------------------------------------------ mutants
def _mut_no_deepcopy():
    """compute_path_with_disjunction propagates on the network's own element objects"""
    import gnpy.topology.request as R
    R.deepcopy = lambda x: list(x) if isinstance(x, list) else copy.deepcopy(x)


def _mut_shared_receiver():
    """the copy keeps the network's destination Transceiver object (results of a later request overwrite it)"""
    import gnpy.topology.request as R

    def dc(x):
        if isinstance(x, list) and x and hasattr(x[-1], 'update_snr'):
            y = copy.deepcopy(x)
            y[-1] = x[-1]
            return y
        return copy.deepcopy(x)
    R.deepcopy = dc


def _mut_gain_written_back():
    """after a propagation the amplifiers' operating gain is written back to the network's own elements"""
    import gnpy.topology.request as R
    from gnpy.core.elements import Edfa
    link, keep = {}, []

    def dc(x):
        y = copy.deepcopy(x)
        if isinstance(x, list):
            for a, b in zip(x, y):
                link[id(b)] = a
                keep.append(b)
        return y
    orig = R.propagate

    def propagate(path, req, equipment):
        out = orig(path, req, equipment)
        for e in path:
            if isinstance(e, Edfa) and id(e) in link:
                link[id(e)].effective_gain = e.effective_gain
        return out
    R.deepcopy = dc
    R.propagate = propagate


def _mut_roadm_state_reused():
    """a ROADM keeps per-degree state from one path to the next (class-level): each further crossing of the same
    degree lowers the egress target by 0.05 dB"""
    import gnpy.core.elements as E
    orig = E.Roadm.propagate
    seen = {}

    def propagate(self, spectral_info, degree, from_degree):
        key = (self.uid, degree)
        n = seen.get(key, 0)
        seen[key] = n + 1
        if n:
            if degree in self.per_degree_pch_out_dbm:
                self.per_degree_pch_out_dbm = dict(self.per_degree_pch_out_dbm)
                self.per_degree_pch_out_dbm[degree] -= 0.05 * n
            elif self.target_pch_out_dbm is not None:
                self.target_pch_out_dbm -= 0.05 * n
        return orig(self, spectral_info, degree, from_degree)
    E.Roadm.propagate = propagate


def _mut_design_mutated():
    """propagation rounds the designed amplifier settings of the live network as a side effect"""
    import gnpy.topology.request as R
    from gnpy.core.elements import Edfa
    orig = R.compute_path_with_disjunction

    def cpwd(network, equipment, pathreqlist, pathlist, redesign=False):
        out = orig(network, equipment, pathreqlist, pathlist, redesign=redesign)
        for p in pathlist:
            for e in p:
                if isinstance(e, Edfa) and e.out_voa is not None:
                    e.out_voa = round(e.out_voa + 0.5, 0)
        return out
    import gnpy.tools.worker_utils as W
    W.compute_path_with_disjunction = cpwd


def _mut_rolloff_not_kept():
    """the request does not keep the roll-off of the automatically selected mode (defect fixed by 2e4020fb): the reverse
    propagation under a GGN model has none"""
    import inspect
    import textwrap
    import gnpy.topology.request as R
    import gnpy.tools.worker_utils as W
    src = textwrap.dedent(inspect.getsource(R.compute_path_with_disjunction))
    if src.count("pathreq.roll_off = mode['roll_off']") != 2:
        raise Machinery('mutant rolloff_not_kept: pattern not found twice')
    src = src.replace("pathreq.roll_off = mode['roll_off']", 'pass')
    ns = {}
    exec(compile(src, '<mutant compute_path_with_disjunction>', 'exec'), R.__dict__, ns)
    R.compute_path_with_disjunction = W.compute_path_with_disjunction = ns['compute_path_with_disjunction']


def _mut_penalties_kept():
    """a receiver keeps the penalties of its previous evaluation when the mode defines none"""
    import gnpy.core.elements as E
    orig = E.Transceiver.calc_penalties

    def calc_penalties(self, penalties):
        if not penalties:
            return
        orig(self, penalties)
    E.Transceiver.calc_penalties = calc_penalties


def _mut_csv_rev_carried():
    """the CSV writer carries the reverse-direction block of a bidirectional row into the following rows"""
    import gnpy.topology.request as R
    orig = R._jsontopath_metric
    last = {}

    def jsontocsv(json_data, equipment, fileout):
        import io
        import csv as _csv
        buf = io.StringIO()
        orig_csv(json_data, equipment, buf)
        buf.seek(0)
        rows = list(_csv.DictReader(buf))
        rev = [k for k in rows[0] if k.startswith('reversed path')] if rows else []
        carry = None
        for r in rows:
            if r['path'] and any(r[k] for k in rev):
                carry = {k: r[k] for k in rev}
            elif r['path'] and carry and r['Pass?'] in ('True', 'False'):
                r.update(carry)
        w = _csv.DictWriter(fileout, fieldnames=list(rows[0]) if rows else [])
        w.writeheader()
        w.writerows(rows)
    orig_csv = R.jsontocsv
    R.jsontocsv = jsontocsv


def _mut_redesign_whole_network():
    """--redesign-per-request: 'subgraph views are slow' - the redesign is run on the graph the view was taken from"""
    import gnpy.core.network as N
    orig = N.design_network

    def design_network(reference_channel, network, equipment, set_connector_losses=True, verbose=True):
        return orig(reference_channel, getattr(network, '_graph', network), equipment,
                    set_connector_losses=set_connector_losses, verbose=verbose)
    N.design_network = design_network


def _mut_redesign_sticky_reduction():
    """--redesign-per-request: a power offset reduced for a heavier request is kept as if the operator had set it (the
    redesign never raises a delta_p again)"""
    import gnpy.core.network as N
    orig = N.set_one_amplifier
    low = {}

    def set_one_amplifier(node, *a, **kw):
        out = orig(node, *a, **kw)
        dp = getattr(node, 'delta_p', None)
        if dp is not None:
            low[node.uid] = min(low.get(node.uid, dp), dp)
            if dp > low[node.uid]:
                node.effective_gain = node.effective_gain - (dp - low[node.uid])
                node.delta_p = low[node.uid]
        return out
    N.set_one_amplifier = set_one_amplifier


MUTANTS = {'redesign_whole_network': _mut_redesign_whole_network, 'redesign_sticky_reduction': _mut_redesign_sticky_reduction,
           'no_deepcopy': _mut_no_deepcopy, 'shared_receiver': _mut_shared_receiver,
           'gain_written_back': _mut_gain_written_back, 'roadm_state_reused': _mut_roadm_state_reused,
           'design_mutated': _mut_design_mutated, 'rolloff_not_kept': _mut_rolloff_not_kept,
           'penalties_kept': _mut_penalties_kept, 'csv_rev_carried': _mut_csv_rev_carried}
