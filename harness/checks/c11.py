"""C11 - every computed route is a real, loop-free, constraint-respecting shortest path.

B1  TLC checks RoutingModel (the router at the grain of compute_constrained_path / compute_path_dsjctn) against the
    clauses of Routing.tla: exhaustively on all 125 3-site meshes (links: none, 0 km amplifier-only patch, 50, 140, 300 km) (all end points, all include lists of <= 2
    ROADMs, all labellings) and on 4-site meshes (quick: the seeded sample replayed below; thorough: all 15 625), plus
    model-level sanity of the judgement (what the model does not allow is rejected).
B2  MC_Routing's generation configuration emits (mesh, batch) cases; every mesh becomes a real topology, is
    auto-designed once and every batch goes through the real pipeline functions in planning() order (written in one of
    the equivalent ways Routing.tla lists: index base and order of the route objects, line hops element by element,
    API objects, include list opened / closed by the request's own transceivers, the same request objects cleaned
    and routed a second time); the returned
    element lists are projected and JUDGED by TLC (Trace_Routing, brute-force oracle of Routing.tla).
B3  shipped networks: mesh V2 with its services file through the real planning(), seeded batches on mesh V2 (with
    the oracle) and on CORONET (too large for enumeration: reality / loop-freeness / STRICT hops / reverse only).
"""
import random
import time

from harness import tlc
from harness import routing_util as ru
from harness.core import Machinery

PID = 'C11'
RAMAN = {'quick': 8, 'thorough': 48}      # one generated mesh in so many holds RamanFiber spans (slow to design)

TIERS = {
    #            4-site meshes, singles 1-in-Thin, lines, twins, pairs (free riders), 5-site meshes, Thin5, B3 seeded, CORONET
    'quick': dict(meshes4=130, thin=20, lines=12, twins=6, pairs=12, meshes5=0, thin5=0, grids=3, grid_reqs=16, b3=40, conus=14, glob=0),
    'thorough': dict(meshes4=None, thin=40, lines=6, twins=3, pairs=5, meshes5=150, thin5=15, grids=10, grid_reqs=40, b3=300, conus=60, glob=25),
}


def b1_runs(ids4, w, doubling=False):
    """the two model-checking runs of B1 as thunks (run side by side with the generation)"""
    def small():
        return (f'MC_Routing 3 sites: all {500 if doubling else 125} meshes, all src/dst, all include lists <= 2, all labellings',
                tlc.run('MC_Routing', cfg_text=ru.mc_cfg(NSites=3, OneSrcDst=False, LinePer=6, TwinPer=3, PairPer=5,
                                                         Doubling=doubling),
                        timeout=1800, tag='c11-mc3', workers=w))

    def four():
        if ids4 is None:
            return ('MC_Routing 4 sites: all 15625 meshes, src/dst fixed by symmetry, all include lists <= 2',
                    tlc.run('MC_Routing', cfg_text=ru.mc_cfg(sanity=False, LinePer=2, TwinPer=1, PairPer=2, TriplePer=1,
                                                             OverlapPer=1),
                            timeout=6000, tag='c11-mc4', workers=w))
        return (f'MC_Routing 4 sites: {len(ids4)} sampled meshes, all include lists <= 2',
                tlc.run('MC_Routing', cfg_text=ru.mc_cfg(UseSample=True), workers=w,
                        extra_modules={'RoutingSample': ru.sample_module(ids4)}, timeout=1800, tag='c11-mc4'))
    return small, four


def keep_for_c11(b):
    """singles, lines, twins, and the pairs: their free riders are judged in full, and what C11 says of every
    returned route (real, loop-free, STRICT hops crossed, reverse) is judged for the grouped requests as well"""
    return True


def run(chk):
    if chk.replay:
        return ru.replay(chk, PID)
    chk.cov['rule'] = ('cases are (mesh, batch) pairs enumerated by MC_Routing (all include lists of <= 2 ROADMs with all labellings, thinned 1-in-Thin by a hash; seeded fibre include lists, twins, pairs with a free rider) plus seeded batches on shipped networks; distinct = distinct (network, requests, groups); non-trivial = the batch has an include list or a synchronisation group')
    p = TIERS[chk.tier]
    rng = random.Random(chk.seed)
    salt = chk.seed % 10007
    all4 = p['meshes4'] is None
    if all4:       # every mesh without parallel links, plus a seeded sample of those with one doubled pair of sites
        ids4 = list(range(1, ru.BASE ** 6)) + [i for i in ru.stratified_meshes(4, 4000, rng) if i >= ru.BASE ** 6]
    else:
        ids4 = [i for i in ru.stratified_meshes(4, p['meshes4'], rng) if i != 0]
    t0 = time.time()
    gen = dict(NSites=4, OneSrcDst=False, Thin=p['thin'], LinePer=p['lines'], TwinPer=p['twins'], PairPer=p['pairs'],
               TriplePer=0, OverlapPer=0, Salt=salt)
    parts = ru.slices(ids4, 2048)              # bounded memory: generate / replay / judge 2048 meshes at a time
    # B1 (two TLC runs) goes on beside everything else and is collected at the end
    small, four = b1_runs(None, max(2, ru.nworkers() // 2), doubling=True) if all4 else b1_runs(ids4[::3], ru.share(3))
    # the generation (a TLC run) goes on while B3 is recorded here, in the main thread (time limits need it);
    # B3 is judged in the same TLC pass as B2
    gen_run = ru.background(lambda: ru.generate(chk, parts[0], 'c11-gen4', workers=ru.share(2), **gen))
    # 4 x 4 lattices: include lists of 2 or 3 ROADMs that force snake-shaped routes (own generation run, same replay)
    grid_run = ru.background(lambda: ru.generate(
        chk, [200002 + 8 * (salt % 1000 + i) for i in range(p['grids'])], 'c11-grid',     # (ids without Raman spans)
        workers=ru.share(3), grid=True,
        NSites=16, GridCols=4, LinePer=p['grid_reqs'], Salt=salt))
    recorded = b3(chk, p, random.Random(chk.seed + 3))
    jobs = gen_run.result()
    jobs.update(grid_run.result())
    bg = [ru.background(small), ru.background(four)]
    if all4:       # the clauses on the model's answers for lattice batches as well
        gids = [200002 + 8 * (salt % 1000 + i) for i in range(3)]
        bg.append(ru.background(lambda: (
            'MC_Routing 4 x 4 lattices: corner-to-corner requests, include lists of 2 or 3 ROADMs',
            tlc.run('MC_Routing', cfg_text=ru.mc_cfg(grid=True, sanity=False, UseSample=True, NSites=16, GridCols=4,
                                                     LinePer=20, Salt=salt),
                    extra_modules={'RoutingSample': ru.sample_module(gids)}, timeout=3000, tag='c11-mcgrid', workers=2))))
    chk.exhaustive = True
    timing = dict(first_generation_and_b3_recording=round(time.time() - t0, 1))
    t1 = time.time()
    stats, traces, metas = ru.b2(chk, PID, raman_every=RAMAN[chk.tier], jobs=jobs, keep=keep_for_c11, extra=recorded)
    acc = [stats]
    ru.pipelined(parts[1:], lambda part: ru.generate(chk, part, 'c11-gen4', workers=ru.share(2), **gen),
                 lambda jb: acc.append(ru.merge_stats(acc.pop(), ru.b2(chk, PID, raman_every=RAMAN[chk.tier], jobs=jb, keep=keep_for_c11)[0])))
    stats = acc[0]
    timing['b2_replay_and_judgement'] = round(time.time() - t1, 1)
    chk.cov['b2_4sites'] = stats
    if p['meshes5']:
        t1 = time.time()
        ids5 = [i for i in ru.stratified_meshes(5, p['meshes5'], rng) if i != 0]
        jobs5 = ru.generate(chk, ids5, 'c11-gen5', **dict(gen, NSites=5, Thin=p['thin5']))
        stats5, _, _ = ru.b2(chk, PID, raman_every=RAMAN[chk.tier], jobs=jobs5, keep=keep_for_c11)
        chk.cov['b2_5sites'] = stats5
        timing['b2_5sites'] = round(time.time() - t1, 1)
    # non-vacuity: every verdict of the specification must have been exercised against the code
    if not stats.get('routes_behind_100_candidates'):
        raise Machinery('vacuous replay: no request whose route lies behind 100 shorter loop-free routes (lattices)')
    for v in ('ROUTED', 'LOOSE_DROPPED', 'NO_PATH', 'NO_PATH_WITH_CONSTRAINT', 'UNDECIDED'):
        if not stats['verdicts'].get(v):
            raise Machinery(f'vacuous replay: no case with oracle verdict {v}')
    for t in traces:
        m = metas[t['name']]
        for b, ev in zip(m, t['ev']):
            if len(chk.samples) < 3 and b['reqs'][0]['inc'] and b['info']['verdict'][0] in (
                    ('ROUTED', 'NO_PATH_WITH_CONSTRAINT', 'LOOSE_DROPPED')[len(chk.samples)],):
                chk.sample(dict(kind='B2 case from MC_Routing replayed into the real pipeline and judged by Trace_Routing',
                                network=t['name'], links=t['links'], batch={k: b[k] for k in ('reqs', 'groups')},
                                oracle=b['info'],
                                observed=[dict(st=x['st'], sites=x['p']['sites'], reverse=x['rev']['sites'])
                                          for x in ev['res']]))
    t1 = time.time()
    for f in bg:
        chk.add_mc(*f.result())
    timing['waited_for_b1'] = round(time.time() - t1, 1)
    chk.cov['timing_s'] = timing
    chk.assume('generated meshes: 4 (thorough also 5) ROADM sites, at least one link, at most one pair of sites joined by two parallel link pairs, fibre pairs of '
               '50/140/300 km or 0 km amplifier-only patches (whole km: edge weights add 0.01 m per non-fibre hop, so length '
               'order = fibre length order; equal lengths are all accepted)')
    chk.assume('include lists name ROADMs, line elements of existing links, or (LOOSE hops only) elements that do not exist; '
               'never a transceiver, a STRICT unknown element (ServiceError by design) or the same element twice; '
               'source != destination')
    chk.assume('mixed LOOSE/STRICT list that cannot be met although its STRICT hops alone could: unjudged '
               '(either blocked or a route through the STRICT hops is accepted)')
    chk.assume('requests inside a synchronisation group: optimality not claimed (property text); judged by C12')
    chk.assume('trusted: TLC, Json/IOUtils community modules, the projection of element lists in harness/routing_util.py '
               '(sites = ROADM uids, fibre identity = uid prefix given by the generator, has_edge on the designed graph)')
    chk.cov['tolerance'] = ('route length compared in whole km (generated meshes, mesh V2): a hop must be within 0.5 km '
                            'of its link, totals are compared exactly; CORONET hop lengths within 1 m')
    chk.cov['max_hop_length_deviation_measured_km'] = stats['max_hop_length_deviation_1e-9km'] * 1e-9


def b3(chk, p, rng):
    traces, metas = [], {}
    # ---- mesh V2: shipped services through planning(), then seeded batches; whole km, small enough for the oracle
    bench = ru.shipped_bench('meshTopologyExampleV2.json', unit=1000.0)
    ev = ru.planning_trace(bench, 'meshTopologyExampleV2_services.json', 'meshV2')
    t = dict(name='meshV2:shipped-services:planning()', n=bench.nsites, links=bench.arcs, opt=1, tol=0, ev=[ev])
    traces.append(t)
    metas[t['name']] = [dict(reqs=ev['reqs'], groups=ev['groups'], relax=ev['relax'], info={})]
    batches = ru.random_batches(bench, rng, p['b3'], groups=False)
    evs, meta = [], []
    for k, b in enumerate(batches):
        e = bench.run_batch(b, bidir=bool(k % 2), pick=k)
        if 'exc' in e:
            chk.violation(f'B3|exception|{e["exc"].split(":")[0]}|{e.get("where", "?")}',
                              dict(network='meshV2', batch=b, exception=e['exc'], traceback=e['tb']))
            continue
        evs.append(e)
        meta.append(dict(b, info={}))
    t = dict(name='meshV2:seeded', n=bench.nsites, links=bench.arcs, opt=1, tol=0, ev=evs)
    traces.append(t)
    metas[t['name']] = meta
    # ---- CORONET: 75 / 100 ROADMs, lengths in metres, no enumeration possible -> opt = 0
    for fname, count in (('CORONET_CONUS_Topology.json', p['conus']), ('CORONET_Global_Topology.json', p['glob'])):
        if not count:
            continue
        bench = ru.shipped_bench(fname, unit=1.0)
        evs, meta, skipped = [], [], 0
        for k, b in enumerate(ru.random_batches(bench, rng, count, groups=False, on_route=True)):
            if skipped >= 2:                                     # the search does not terminate here: give up
                skipped += 1
                continue
            e = bench.run_batch(b, bidir=True, pick=k, limit=6)
            if 'skip' in e:
                skipped += 1
                continue
            if 'exc' in e:
                chk.violation(f'B3|exception|{e["exc"].split(":")[0]}|{e.get("where", "?")}',
                              dict(network='CORONET', batch=b, exception=e['exc'], traceback=e['tb']))
                continue
            evs.append(e)
            meta.append(dict(b, info={}))
        # lengths in metres, rounded independently on both sides: 1 m of tolerance on a hop (hops are >= 10 km)
        t = dict(name=f'{fname.split("_Topology")[0]}:seeded', n=bench.nsites, links=bench.arcs, opt=0, tol=1, ev=evs)
        traces.append(t)
        metas[t['name']] = meta
        chk.cov[f'b3_{fname.split("_Topology")[0]}_skipped_timeouts'] = skipped
    chk.cov['b3_traces'] = len(traces)
    chk.cov['b3_batches'] = sum(len(t['ev']) for t in traces)
    chk.assume('CORONET (75/100 ROADMs): optimality and blocked-exactly are NOT judged (no brute force possible); '
               'include lists there are taken from the shortest route so that the search terminates')
    e = traces[0]['ev'][0]
    chk.sample(dict(kind='B3 shipped mesh V2 services through the real planning(), judged by Trace_Routing',
                    requests=e['reqs'], groups=e['groups'],
                    observed=[dict(st=x['st'], sites=x['p']['sites']) for x in e['res']]), limit=4)
    return traces, metas


# ------------------------------------------------------------------------------------------------------ mutants
def _mut_weight_hops():
    """shortest = fewest elements instead of fewest kilometres"""
    import gnpy.topology.request as rq
    orig = rq.shortest_simple_paths
    rq.shortest_simple_paths = lambda g, s, t, weight=None: orig(g, s, t, weight=None)
    origd = rq.dijkstra_path
    rq.dijkstra_path = lambda g, s, t, weight=None: origd(g, s, t, weight=None)


def _mut_order_ignored():
    """include nodes checked as a set, order dropped"""
    import gnpy.topology.request as rq
    rq.ispart = lambda a, b: all(x in b for x in a)


def _mut_strict_as_loose():
    """an unsatisfiable STRICT list is dropped like a LOOSE one"""
    import gnpy.topology.request as rq
    orig = rq.compute_constrained_path

    def f(network, req):
        save = list(req.loose_list)
        req.loose_list[:] = ['LOOSE'] * len(save)
        try:
            return orig(network, req)
        finally:
            req.loose_list[:] = save
    rq.compute_constrained_path = f


def _mut_loose_as_strict():
    """an unsatisfiable all-LOOSE list blocks the request"""
    import gnpy.topology.request as rq
    orig = rq.compute_constrained_path

    def f(network, req):
        save = list(req.loose_list)
        req.loose_list[:] = ['STRICT'] * len(save)
        try:
            return orig(network, req)
        finally:
            req.loose_list[:] = save
    rq.compute_constrained_path = f


def _mut_reverse_other_way():
    """reverse route recomputed as a shortest route instead of mirroring the forward one"""
    import gnpy.topology.request as rq
    import networkx as nx
    orig = rq.find_reversed_path

    def f(pth):
        net = f.net
        try:
            return nx.dijkstra_path(net, pth[-1], pth[0], weight='weight')
        except Exception:                                       # noqa
            return orig(pth)
    import harness.routing_util as ru_
    origb = ru_.NetBench.__init__

    def init(self, net, *a, **k):
        origb(self, net, *a, **k)
        f.net = net
    ru_.NetBench.__init__ = init
    rq.find_reversed_path = f


def _mut_wrong_reason():
    """unreachable destination reported as a constraint problem"""
    import gnpy.topology.request as rq
    orig = rq.compute_constrained_path

    def f(network, req):
        r = orig(network, req)
        if getattr(req, 'blocking_reason', None) == 'NO_PATH':
            req.blocking_reason = 'NO_PATH_WITH_CONSTRAINT'
        return r
    rq.compute_constrained_path = f


MUTANTS = {'weight_hops': _mut_weight_hops, 'order_ignored': _mut_order_ignored,
           'strict_as_loose': _mut_strict_as_loose, 'loose_as_strict': _mut_loose_as_strict,
           'reverse_other_way': _mut_reverse_other_way, 'wrong_reason': _mut_wrong_reason}
