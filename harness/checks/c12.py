"""C12 - requests declared disjoint never share a link in either direction.

B1  TLC checks RoutingModel's group routing (all pairwise disjoint combinations, "every list crossed, else only LOOSE
    lists missed, else DisjunctionError") against the C12 clauses of Routing.tla: exhaustively for ALL pairs of
    requests (include lists of <= 1 ROADM, both labels) on all 125 3-site meshes (links: none, 0 km amplifier-only patch, 50, 140, 300 km), and for seeded pairs,
    triples and overlapping pairs on 4-site meshes (quick: sample, thorough: all 15 625).
B2  generated (mesh, batch) cases - pairs (some with a free rider, some with the group stated twice), one triple,
    two overlapping pairs, overlapping vectors of which one is written `relaxable: true` (preferably one that cannot
    be met: nothing is claimed for it, everything for the others), include lists over ROADMs and fibres, lists opened /
    closed by the request's own transceivers, request objects routed a second time - go through the real pipeline; the
    routes or the
    DisjunctionError are judged by TLC (Trace_Routing): link identity is the generator's (a fibre pair = one link),
    not gnpy's isdisjoint; completeness ("error only when no disjoint combination honours the constraints") is
    claimed for a single pair only.
B3  shipped mesh V2 services (two synchronisation vectors) through the real planning(), seeded groups on mesh V2.
"""
import random
import time

from harness import tlc
from harness import routing_util as ru
from harness.core import Machinery

PID = 'C12'
RAMAN = {'quick': 8, 'thorough': 48}      # one generated mesh in so many holds RamanFiber spans (slow to design)

TIERS = {
    'quick': dict(meshes4=100, pairs=24, triples=4, overlaps=8, meshes5=0, b3=60),
    'thorough': dict(meshes4=None, pairs=10, triples=2, overlaps=4, meshes5=200, b3=400),
}


def b1_runs(ids4, p, w, first_all=True):
    consts = dict(Thin=0, LinePer=0, TwinPer=0, PairPer=p['pairs'], TriplePer=p['triples'], OverlapPer=p['overlaps'])
    if ids4 is None:       # all 15 625 meshes: fewer draws per mesh (the replay below uses the full number)
        consts.update(PairPer=6, TriplePer=1, OverlapPer=2)

    def small():
        return ('MC_Routing 3 sites: all 125 meshes, ALL pairs of requests (<= 1 ROADM include each), triples, overlaps',
                tlc.run('MC_Routing', cfg_text=(tlc.SPEC / 'MC_Routing_small.cfg').read_text().replace('Thin = 1', 'Thin = 0')
                        .replace('PairsFirstAll = TRUE', f'PairsFirstAll = {"TRUE" if first_all else "FALSE"}'),
                        timeout=1800, tag='c12-mc3', workers=w))

    def four():
        if ids4 is None:
            return ('MC_Routing 4 sites: all 15625 meshes, seeded pairs/triples/overlapping pairs',
                    tlc.run('MC_Routing', cfg_text=ru.mc_cfg(sanity=False, **consts), timeout=6000, tag='c12-mc4',
                            workers=w))
        return (f'MC_Routing 4 sites: {len(ids4)} sampled meshes, seeded pairs/triples/overlapping pairs',
                tlc.run('MC_Routing', cfg_text=ru.mc_cfg(UseSample=True, **consts), workers=w,
                        extra_modules={'RoutingSample': ru.sample_module(ids4)}, timeout=1800, tag='c12-mc4'))
    return small, four


def run(chk):
    if chk.replay:
        return ru.replay(chk, PID)
    chk.cov['rule'] = ("cases are (mesh, batch) pairs drawn by MC_Routing's seeded generator (pairs, pairs stated twice, pairs with a free rider, one triple, two overlapping pairs, overlapping vectors of which one is relaxable; include lists over ROADMs and fibres) plus seeded groups on mesh V2; distinct = distinct (network, requests, groups); every case has a synchronisation group and is counted non-trivial")
    p = TIERS[chk.tier]
    rng = random.Random(chk.seed + 12)
    salt = (chk.seed + 12) % 10007
    all4 = p['meshes4'] is None
    if all4:       # every mesh without parallel links, plus a seeded sample of those with one doubled pair of sites
        ids4 = list(range(1, ru.BASE ** 6)) + [i for i in ru.stratified_meshes(4, 4000, rng) if i >= ru.BASE ** 6]
    else:
        ids4 = [i for i in ru.stratified_meshes(4, p['meshes4'], rng) if i != 0]
    t0 = time.time()
    consts = dict(OneSrcDst=True, Thin=0, LinePer=0, TwinPer=0, PairPer=p['pairs'], TriplePer=p['triples'],
                  OverlapPer=p['overlaps'], Salt=salt)
    parts = ru.slices(ids4, 2048)              # bounded memory
    # B1 (two TLC runs) goes on beside everything else and is collected at the end
    small, four = (b1_runs(None, p, max(2, ru.nworkers() // 2)) if all4
                   else b1_runs(ids4[::3], p, ru.share(3), first_all=False))
    # the generation (a TLC run) goes on while B3 is recorded here, in the main thread (time limits need it);
    # B3 is judged in the same TLC pass as B2
    gen_run = ru.background(lambda: ru.generate(chk, parts[0], 'c12-gen4', workers=ru.share(2), NSites=4, **consts))
    recorded = b3(chk, p, random.Random(chk.seed + 3))
    jobs = gen_run.result()
    bg = [ru.background(small), ru.background(four)]
    chk.exhaustive = True
    timing = dict(first_generation_and_b3_recording=round(time.time() - t0, 1))
    t1 = time.time()
    grouped = lambda b: bool(b['groups'])                        # noqa: E731
    stats, traces, metas = ru.b2(chk, PID, raman_every=RAMAN[chk.tier], jobs=jobs, keep=grouped, extra=recorded)
    acc = [stats]
    ru.pipelined(parts[1:], lambda part: ru.generate(chk, part, 'c12-gen4', workers=ru.share(2), NSites=4, **consts),
                 lambda jb: acc.append(ru.merge_stats(acc.pop(), ru.b2(chk, PID, raman_every=RAMAN[chk.tier], jobs=jb, keep=grouped)[0])))
    stats = acc[0]
    timing['b2_replay_and_judgement'] = round(time.time() - t1, 1)
    chk.cov['b2_4sites'] = stats
    if p['meshes5']:
        t1 = time.time()
        ids5 = [i for i in ru.stratified_meshes(5, p['meshes5'], rng) if i != 0]
        jobs5 = ru.generate(chk, ids5, 'c12-gen5', NSites=5, **consts)
        stats5, _, _ = ru.b2(chk, PID, raman_every=RAMAN[chk.tier], jobs=jobs5, keep=grouped)
        chk.cov['b2_5sites'] = stats5
        timing['b2_5sites'] = round(time.time() - t1, 1)
    # non-vacuity: solutions and errors, every group shape
    if not stats['noweak'] or not stats['strong']:       # the oracle must demand errors as well as solutions
        raise Machinery(f'vacuous replay: {stats}')
    for k in ('pair', 'pair+free', 'pair(stated twice)', 'triple', 'overlapping-pairs', 'overlapping-pairs+relaxable'):
        if not stats['kinds'].get(k):
            raise Machinery(f'vacuous replay: no batch of kind {k}')
    if not stats.get('relaxable_unmet'):
        raise Machinery('vacuous replay: no batch whose relaxable vector cannot be met')
    want = [0, 1]
    for t in traces:
        for b, ev in zip(metas[t['name']], t['ev']):
            if want and ev['err'] == want[0] and ru.kind(b) == 'pair' and any(r['inc'] for r in b['reqs']):
                want.pop(0)
                chk.sample(dict(kind='B2 group case from MC_Routing replayed into the real pipeline, judged by Trace_Routing',
                                network=t['name'], links=t['links'], batch={k: b[k] for k in ('reqs', 'groups')},
                                oracle=b['info'], disjunction_error=ev['err'],
                                observed=[dict(st=x['st'], sites=x['p']['sites']) for x in ev['res']]))
    t1 = time.time()
    for f in bg:
        chk.add_mc(*f.result())
    timing['waited_for_b1'] = round(time.time() - t1, 1)
    chk.cov['timing_s'] = timing
    chk.assume('generated meshes: 4 (thorough also 5) ROADM sites, at least one link, fibre pairs of 50/140/300 km or 0 km '
               'amplifier-only patches; at most one pair of sites joined by two parallel link pairs - the code documents '
               'that reversed paths are not exact there, so two arcs of opposite direction between such sites are '
               'neither required to be disjoint nor counted as a disjoint solution (same direction: judged)')
    chk.assume('candidate routes have far fewer than 80 elements (the documented search cut-off of all_simple_paths)')
    chk.assume('completeness (an error only when no link-disjoint combination honours the route constraints) is judged '
               'for a single pair only; for a triple / overlapping pairs only what is returned is judged')
    chk.assume('route constraints of a grouped request: a DisjunctionError is mandatory when not even the STRICT hops '
               'can be honoured disjointly, forbidden (single pair) when a disjoint combination exists in which every '
               'request with a STRICT hop crosses its whole list; in between (mixed lists) unjudged')
    chk.assume('a synchronisation vector written relaxable: nothing is demanded for it (neither disjoint routes nor an error '
               'when it cannot be met); the vectors that are not relaxable are judged in full, also when they share '
               'requests with a relaxable one')
    chk.assume('trusted: TLC, Json/IOUtils community modules, the projection in harness/routing_util.py')


def b3(chk, p, rng):
    traces, metas = [], {}
    bench = ru.shipped_bench('meshTopologyExampleV2.json', unit=1000.0)
    ev = ru.planning_trace(bench, 'meshTopologyExampleV2_services.json', 'meshV2')
    t = dict(name='meshV2:shipped-services:planning()', n=bench.nsites, links=bench.arcs, opt=1, tol=0, ev=[ev])
    traces.append(t)
    metas[t['name']] = [dict(reqs=ev['reqs'], groups=ev['groups'], relax=ev['relax'], info={})]
    evs, meta = [], []
    for k, b in enumerate(ru.random_batches(bench, rng, 2 * p['b3'], groups=True, max_inc=1)):
        if not b['groups']:
            continue
        e = bench.run_batch(b, bidir=bool(k % 4 < 2), pick=k)
        if 'exc' in e:
            chk.violation(f'B3|exception|{e["exc"].split(":")[0]}|{e.get("where", "?")}',
                              dict(network='meshV2', batch=b, exception=e['exc'], traceback=e['tb']))
            continue
        evs.append(e)
        meta.append(dict(b, info={}))
    t = dict(name='meshV2:seeded-groups', n=bench.nsites, links=bench.arcs, opt=1, tol=0, ev=evs)
    traces.append(t)
    metas[t['name']] = meta
    chk.cov['b3_traces'] = len(traces)
    chk.cov['b3_batches'] = sum(len(t['ev']) for t in traces)
    chk.cov['b3_errors'] = sum(e['err'] for t in traces for e in t['ev'])
    e = traces[0]['ev'][0]
    chk.sample(dict(kind='B3 shipped mesh V2 services (synchronisation vectors) through the real planning()',
                    requests=e['reqs'], groups=e['groups'], disjunction_error=e['err'],
                    observed=[dict(st=x['st'], sites=x['p']['sites']) for x in e['res']]), limit=4)
    return traces, metas


# ------------------------------------------------------------------------------------------------------ mutants
def _mut_one_direction():
    """disjointness judged in the forward direction only"""
    import gnpy.topology.request as rq
    orig = rq.isdisjoint
    state = {'n': 0}

    def f(p1, p2):
        # compute_path_dsjctn calls isdisjoint(pth1, pth) then isdisjoint(pth1_reversed, pth): drop every second call
        state['n'] += 1
        return orig(p1, p2) if state['n'] % 2 == 1 else 0
    rq.isdisjoint = f


def _mut_positional():
    """isdisjoint compares the two routes hop by hop (zip) instead of looking for any common edge"""
    import gnpy.topology.request as rq
    rq.isdisjoint = lambda p1, p2: int(any(e1 == e2 for e1, e2 in zip(rq.pairwise(p1), rq.pairwise(p2))))


def _mut_prune_long():
    """candidate pruning: only the two shortest routes of every request are kept (loses the only solution)"""
    import gnpy.topology.request as rq
    orig = rq.all_simple_paths

    def f(g, source, target, cutoff=None):
        ps = sorted(orig(g, source=source, target=target, cutoff=cutoff),
                    key=lambda x: sum(g.get_edge_data(x[i], x[i + 1])['weight'] for i in range(len(x) - 1)))
        return ps[:2]
    rq.all_simple_paths = f


def _mut_strict_ignored_in_groups():
    """step 4: a STRICT list that is not crossed only demotes the combination to 'alternate'"""
    import gnpy.topology.request as rq
    orig = rq.compute_path_dsjctn

    def f(network, equipment, pathreqlist, disjunctions_list):
        ids = {e for d in disjunctions_list for e in d.disjunctions_req}
        saved = {}
        for r in pathreqlist:
            if r.request_id in ids:
                saved[r.request_id] = list(r.loose_list)
                r.loose_list[:] = ['LOOSE'] * len(r.loose_list)
        try:
            return orig(network, equipment, pathreqlist, disjunctions_list)
        finally:
            for r in pathreqlist:
                if r.request_id in saved:
                    r.loose_list[:len(saved[r.request_id])] = saved[r.request_id]
    rq.compute_path_dsjctn = f


def _mut_error_swallowed():
    """no disjoint combination: fall back to the shortest routes instead of stopping"""
    import gnpy.topology.request as rq
    from gnpy.core.exceptions import DisjunctionError
    orig = rq.compute_path_dsjctn

    def f(network, equipment, pathreqlist, disjunctions_list):
        try:
            return orig(network, equipment, pathreqlist, disjunctions_list)
        except DisjunctionError:
            for r in pathreqlist:
                while r.nodes_list and r.nodes_list[-1] == r.destination:
                    r.nodes_list.pop()
                    r.loose_list.pop()
            return orig(network, equipment, pathreqlist, [])
    rq.compute_path_dsjctn = f


def _patch_source(name, old, new):
    """re-define one function of gnpy.topology.request from its own source with a textual change"""
    import inspect
    import textwrap
    import gnpy.topology.request as rq
    src = textwrap.dedent(inspect.getsource(getattr(rq, name)))
    if old not in src:
        raise RuntimeError(f'mutant: {old!r} not found in {name}')
    exec(compile(src.replace(old, new), f'<mutant {name}>', 'exec'), rq.__dict__)


def _mut_nested_group_lost():
    """deduplicate_disjunctions treats a group nested in another one as a repetition and drops the larger"""
    _patch_source('deduplicate_disjunctions',
                  'if set(elem.disjunctions_req) == set(dis_elem.disjunctions_req) and',
                  'if set(elem.disjunctions_req) <= set(dis_elem.disjunctions_req) and')


def _mut_stale_hop_index():
    """correct_json_route_list pops the hop type at the loop index although earlier hops were already removed"""
    _patch_source('correct_json_route_list', 'pathreq.loose_list.pop(pathreq.nodes_list.index(n_id))',
                  'pathreq.loose_list.pop(i)')


def _mut_roadm_sequence_identity():
    """candidate routes are compared by their ROADM sequence only: parallel links look alike"""
    _patch_source('compute_path_dsjctn', 'if isinstance(e, Roadm) | (isinstance(pth[i], Roadm))]',
                  'if isinstance(e, Roadm)]')


# six are run by `verif selftest`; the two others (both killed when tried) are kept for manual experiments
MUTANTS = {'nested_group_lost': _mut_nested_group_lost, 'stale_hop_index': _mut_stale_hop_index,
           'roadm_sequence_identity': _mut_roadm_sequence_identity, 'one_direction': _mut_one_direction,
           'prune_long': _mut_prune_long, 'strict_ignored_in_groups': _mut_strict_ignored_in_groups}
EXTRA_MUTANTS = {'positional_comparison': _mut_positional, 'error_swallowed': _mut_error_swallowed}
