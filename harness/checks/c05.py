"""C05 - fibre spans apply exactly their loss budget and accumulate CD / latency linearly, PMD / PDL in quadrature,
independent of span order; Raman-on relational clauses.

B1  TLC explores MC_FiberLaw (FiberLaw.tla): every assembly of 2-4 of four different fibres plus a ROADM crossing and an
    amplifier, crossed in EVERY order; clauses LossIsBudget, CdLinear, LatencyLinear, PmdQuadrature, PdlQuadrature,
    OrderIndependent (and GridExact for the model's own integer interpolation) as invariants.
B2  the fibre configurations and every ordering TLC emits are realised with real Fiber elements (loader-built from
    element JSON: scalar and per-frequency loss coefficient, lumped losses, connectors, att_in), a real Roadm express
    crossing and a real Edfa; each fibre crossing's per-channel loss is compared with the budget the spec emitted
    (+/-3 udB), and the crossings are recorded.  The per-frequency tables are written as (frequency, value) pairs listed
    by increasing frequency (F4) and by increasing wavelength (F3); the spec interpolates on the SET of pairs.
    The CD every span with a single-value dispersion adds is compared with dispersion x length emitted by the spec
    (CdFromConfig) - dispersion from the library (F1) or written in the element, the fibre parameters being given at the
    default reference, at a reference wavelength of 1590 nm (F2) or at a reference frequency of 192 THz (F4); F3 has a
    per-frequency dispersion table (its CD is only required to accumulate linearly).
    Lumped-loss positions: the spec's probe fibre gets one more lumped loss at the span start, inside (off / on a point of
    the solver grid), next to the end and AT the span end; a configuration the constructor refuses is judged against the
    model's SpanValid (RefusedOnlyInvalid), one it accepts must lose the emitted budget with Raman off (LossBudget) and on
    (LowPower) and exactly the extra loss more than the base fibre (LumpedOnce; perturbative and numerical method).
    NoMemory histories: every fibre is crossed by a sequence of spectral informations (same end channels and count,
    other inner channels, other powers) with Raman computation off and on; each later crossing is compared with the
    same crossing on a fresh fibre.
B3  the recorded crossings (B2 orderings, and every Fiber / Roadm / Edfa / Multiband crossing inside the real
    gnpy.topology.request.propagate on the shipped networks) are judged by Trace_LineElements: LossBudget, CdLinear,
    LatencyLinear, PmdQuadrature, PdlQuadrature against each element's own contribution measured by crossing it ALONE
    from a zero state, ContribFromConfig (a span's latency / PMD^2 follow from ITS OWN length: length / (c / n),
    pmd_coef^2 x length - also for the spans the auto-design cuts out of a long link: CORONET and a 390 km test link),
    CdFromConfig (single-value dispersion without slope: the span adds dispersion x length to every channel),
    NoMemory, ElementContribFromConfig (a ROADM's PMD / PDL: the crossed path's impairment profile where it defines the
    quantity, else the ROADM-level value, each on its own; the B2 ROADM has profiles defining only one of the two), and
    OrderIndependent over all orderings of an assembly.  Quick-tier LowPower: with Raman on (perturbative) at -60 dBm
    per channel every spec fibre, as Fiber and as pump-less RamanFiber, loses exactly the emitted budget; quick-tier
    MethodsAgree: a strong 24-channel comb through every spec fibre (scalar and per-frequency loss), perturbative
    against numerical at a 2 m step.  The Raman setting used to judge a recorded run is the one the USER selected for
    it, not the process-wide parameters found after the design; recorded networks include a RamanFiber sharing its span
    with a plain Fiber (designed and propagated with Raman off) and C+L multiband amplifiers whose band amplifiers have
    different PMD / PDL (ElementContribFromConfig per channel).
    Thorough tier only: Raman-on relational histories (LowPower, LumpedOnce, PumpsOnlyAddGain, MethodsAgree) on the
    shipped Raman fibre configurations, judged by the same trace specification.
"""
import copy
import random
import time
import traceback

import numpy as np

from harness import tlc
from harness import line_util as L
from harness.core import Machinery
from harness.gnpy_util import EX, TD, NONE, udb
from harness.record import Recording

VARIETY = {'F1': 'SSMF', 'F2': 'NZDF', 'F3': 'LOF', 'F4': 'SSMF'}
PMD_COEF = {'F2': 2.0e-15, 'F4': 0.8e-15}          # element-level PMD coefficients (the others use the library's)
LIBRARY_DISPERSION = {'F1'}                        # fibres that leave the dispersion to the library entry of their type


def cfg_text(assemblies, emit=False):
    base = (tlc.SPEC / 'MC_FiberLaw.cfg').read_text().replace('Assemblies <- MCAssemblies', f'Assemblies <- {assemblies}')
    if emit:
        base = '\n'.join(ln for ln in base.splitlines() if not ln.startswith('INVARIANT'))
        base += '\nINVARIANT Emit\nINVARIANT EmitConfig\nINVARIANT EmitRamanSettings\n'
    return base


# -------------------------------------------------------------------------------------------- real-code side (B2)
def fiber_json(fid, sp):
    """the spec's span record -> element JSON as a user would write it"""
    params = {'length': sp['lenKm'], 'length_units': 'km', 'att_in': sp['attIn'] / 1e6, 'con_in': sp['conIn'] / 1e6,
              'con_out': sp['conOut'] / 1e6}
    if len(sp['alpha']) == 1:
        params['loss_coef'] = sp['alpha'][0]['a'] / 1e3
    else:
        params['loss_coef'] = {'value': [p['a'] / 1e3 for p in sp['alpha']],
                               'frequency': [p['f'] * 1e9 for p in sp['alpha']]}
    if sp['lumps']:
        params['lumped_losses'] = [{'position': x['km'], 'loss': x['loss'] / 1e6} for x in sp['lumps']]
    if fid in PMD_COEF:
        params['pmd_coef'] = PMD_COEF[fid]
    # dispersion (spec: 1e-3 ps/nm/km -> s/m/m): a single value written in the element, or left to the library entry of the
    # type (LIBRARY_DISPERSION: the spec's figure is then the library's), or a per-frequency table
    if sp['disp'] == NONE:
        params['dispersion_per_frequency'] = {'value': [x['a'] * 1e-9 for x in sp['dispTab']],
                                              'frequency': [x['f'] * 1e9 for x in sp['dispTab']]}
    elif fid not in LIBRARY_DISPERSION:
        params['dispersion'] = sp['disp'] * 1e-9
    # the reference at which the fibre parameters are given: not written (1550 nm), a wavelength, or a frequency
    if sp['ref']['kind'] == 'wavelength':
        params['ref_wavelength'] = sp['ref']['v'] * 1e-9
    elif sp['ref']['kind'] == 'frequency':
        params['ref_frequency'] = sp['ref']['v'] * 1e9
    return {'uid': fid, 'type': 'Fiber', 'type_variety': VARIETY.get(fid, 'SSMF'), 'params': params}


def check_library_dispersion(conf):
    """the spec's dispersion of a fibre that leaves it to the library must be the shipped library's figure for its type"""
    lib = {e['type_variety']: e['dispersion'] for e in L.base_eqpt()['Fiber']}
    for fid in LIBRARY_DISPERSION:
        if abs(lib[VARIETY[fid]] - conf['span'][fid]['disp'] * 1e-9) > 1e-12:
            raise Machinery(f'{fid}: the model says {conf["span"][fid]["disp"]}, the library {lib[VARIETY[fid]]} for {VARIETY[fid]}')


def cd_features(sp):
    return ('dispersion table' if sp['disp'] == NONE else 'single-value dispersion') + \
        {'default': '', 'wavelength': '|parameters at a reference wavelength', 'frequency': '|parameters at a reference frequency'}[sp['ref']['kind']]


def features(sp):
    return ('per-frequency' if len(sp['alpha']) > 1 else 'scalar') + ' loss' + \
        ('|lumped' if sp['lumps'] else '') + ('|att_in' if sp['attIn'] else '') + \
        ('|connectors' if sp['conIn'] or sp['conOut'] else '')


def build_elements(conf):
    """real elements of the assembly: fibres from the emitted configuration; R = express crossing of roadm B and
    A = preamp AB of a designed A-B-C line whose ROADM / amplifier types carry PMD and PDL"""
    from gnpy.tools.json_io import load_eqpt_topo_from_json, network_from_json
    from gnpy.tools.worker_utils import designed_network
    eq_json = L.base_eqpt()
    # ROADM-level PMD / PDL, and impairment profiles that define only ONE of the two (express: PMD only, add: PDL only)
    # or both (drop): what a profile does not define falls back to the ROADM-level value, each quantity on its own
    rng_ = {'lower-frequency': 191.3e12, 'upper-frequency': 196.1e12}
    eq_json['Roadm'].append({'type_variety': 'verif', 'target_pch_out_db': -20, 'add_drop_osnr': 38, 'pmd': 3e-12,
                             'pdl': 0.5, 'restrictions': {'preamp_variety_list': [], 'booster_variety_list': []},
                             'roadm-path-impairments': [
                                 {'roadm-path-impairments-id': 0,
                                  'roadm-express-path': [{'frequency-range': rng_, 'roadm-pmd': 2e-12, 'roadm-maxloss': 0}]},
                                 {'roadm-path-impairments-id': 1,
                                  'roadm-add-path': [{'frequency-range': rng_, 'roadm-pdl': 0.8, 'roadm-maxloss': 0}]},
                                 {'roadm-path-impairments-id': 2,
                                  'roadm-drop-path': [{'frequency-range': rng_, 'roadm-pmd': 1e-12, 'roadm-pdl': 0.2,
                                                       'roadm-maxloss': 0}]}]})
    eq_json['Edfa'].append({'type_variety': 'verif_amp', 'type_def': 'variable_gain', 'gain_flatmax': 26, 'gain_min': 15,
                            'p_max': 23, 'nf_min': 6, 'nf_max': 10, 'pmd': 1e-12, 'pdl': 0.3, 'out_voa_auto': False,
                            'allowed_for_design': False})
    topo = L.line_topology({}, amp_variety='verif_amp', amp_operational={'gain_target': 18, 'tilt_target': 0, 'out_voa': 0})
    eq, net = load_eqpt_topo_from_json(copy.deepcopy(eq_json), topo)
    net, _, _ = designed_network(eq, net)
    nodes = {n.uid: n for n in net.nodes()}
    els = {'R': (nodes['roadm B'], {'degree': 'booster BC', 'from_degree': 'preamp AB'}), 'A': (nodes['preamp AB'], {}),
           'Radd': (nodes['roadm B'], {'degree': 'booster BC', 'from_degree': 'trx B'}),
           'Rdrop': (nodes['roadm B'], {'degree': 'trx B', 'from_degree': 'preamp AB'})}
    fnet = network_from_json({'elements': [fiber_json(f, sp) for f, sp in conf['span'].items()], 'connections': []}, eq)
    for f in fnet.nodes():
        f.ref_pch_in_dbm = 0.0                   # only used for the printed "reference pch out"
        els[f.uid] = (f, {})
    return els


def launch(conf):
    from gnpy.core.info import create_arbitrary_spectral_information
    f = [x * 1e9 for x in conf['chanF']]
    return create_arbitrary_spectral_information(frequency=f, pch=1e-5, baud_rate=32e9, slot_width=50e9, tx_osnr=40,
                                                 tx_power=1e-5, roll_off=0.15)


def replay_orders(conf, orders, chk):
    els = build_elements(conf)
    contrib = L.Contributions()
    groups = {}
    worst = 0.0
    worst_cd = 0
    for js in orders:
        order = js['order']
        chk.case('>'.join(order), nontrivial=True)
        si = launch(conf)
        evs = []
        tot = np.zeros(len(conf['chanF']))
        ok = True
        for k, e in enumerate(order):
            el, args = els[e]
            try:
                with Recording() as rec:
                    si = el(si, **args)
            except Exception as ex:                                      # noqa
                chk.violation(f'B2|{e}|exception|{type(ex).__name__}', dict(order=order, step=k, exception=traceback.format_exc()[-1200:]))
                ok = False
                break
            ev = rec.events[-1]
            if e.startswith('F'):
                loss = L.dbm(ev['pre']['pch']) - L.dbm(ev['post']['pch'])
                tot += loss
                dev = max(abs(udb(x) - b) for x, b in zip(loss, js['budget'][k]))
                if dev > 3:
                    ok = False
                    chk.violation(f'B2|loss budget|{features(conf["span"][e])}',
                                  dict(order=order, step=k, fibre=conf['span'][e], spec_budget_udb=js['budget'][k],
                                       code_loss_udb=[udb(x) for x in loss], position_in_path=k))
                else:
                    worst = max(worst, dev)
                if js['cdAdd'][k]:
                    # the CD this span adds, against dispersion x length emitted by the specification from the configuration
                    added = ev['post']['chromatic_dispersion'] - ev['pre']['chromatic_dispersion']
                    dev = max(abs(L.cd_units(x) - b) for x, b in zip(added, js['cdAdd'][k]))
                    if dev > 3:
                        ok = False
                        chk.violation(f'B2|span CD is dispersion x length|{cd_features(conf["span"][e])}',
                                      dict(order=order, step=k, fibre=conf['span'][e], spec_cd_added=js['cdAdd'][k],
                                           code_cd_added=[L.cd_units(x) for x in added], unit='1e-3 ps/nm'))
                    else:
                        worst_cd = max(worst_cd, dev)
                evs.append(L.fiber_event(ev, False, contrib=contrib))
            else:
                evs.append(L.acc_event(ev, contrib=contrib))
        if not ok:
            continue
        dev = max(abs(udb(x) - t) for x, t in zip(tot, js['total']))
        if dev > 3 * len(order):
            chk.violation('B2|total fibre loss of the path', dict(order=order, spec_total_udb=js['total'], code=[udb(x) for x in tot]))
        else:
            chk.traces += 1
        evs.append(L.end_event(L.snapshot_of(si), tot))
        groups.setdefault('+'.join(sorted(order)), []).extend(evs)
        if len(chk.samples) < 1 and len(order) == 6:
            chk.sample(dict(kind='B2 ordering executed on real elements', order=order, spec_budget_udb=js['budget'],
                            code_total_loss_udb=[udb(x) for x in tot]))
    # the other two internal paths of the ROADM (add: profile defines PDL only, drop: both), after one fibre
    evs = []
    try:
        for e in ('F1', 'Radd', 'Rdrop'):
            el, args = els[e]
            with Recording() as rec:
                si = el(si if e != 'F1' else launch(conf), **args)
            evs.append(L.fiber_event(rec.events[-1], False, contrib=contrib) if e == 'F1'
                       else L.acc_event(rec.events[-1], contrib=contrib))
        groups['roadm add and drop paths'] = evs
    except Exception as ex:                                              # noqa
        chk.violation(f'B2|roadm add/drop crossing|exception|{type(ex).__name__}', dict(exception=traceback.format_exc()[-1200:]))
    chk.cov['b2_orderings'] = len(orders)
    chk.cov['b2_assemblies'] = len(groups)
    chk.cov['b2_loss_worst_deviation_udb'] = worst
    chk.cov['b2_loss_tolerance_udb'] = 3
    chk.cov['b2_span_cd_worst_deviation_1e-3ps/nm'] = worst_cd
    chk.cov['b2_span_cd_tolerance_1e-3ps/nm'] = 3
    chk.cov['b2_contributions_measured_alone'] = contrib.measured
    return [{'name': f'B2 assembly {g}', 'ev': ev} for g, ev in groups.items()]


def fibre_memory_traces(conf, chk):
    """NoMemory for fibres: each fibre of the emitted configuration is crossed by a sequence of spectral informations
    (same first / last channel and channel count, different inner channels; different powers), Raman computation off and
    on; every crossing after the first is compared by TLC with the same crossing on a FRESH fibre"""
    from gnpy.core.info import create_arbitrary_spectral_information
    from gnpy.core.parameters import SimParams
    from gnpy.tools.json_io import load_equipments_and_configs, network_from_json
    eq = load_equipments_and_configs(EX / 'eqpt_config.json', [], [])

    def fibres():
        net = network_from_json({'elements': [fiber_json(f, sp) for f, sp in conf['span'].items()], 'connections': []}, eq)
        out = {}
        for f in net.nodes():
            f.ref_pch_in_dbm = 0.0
            out[f.uid] = f
        return out
    f0 = np.array(conf['chanF'], dtype=float) * 1e9
    inner = f0.copy()
    inner[1:-1] = f0[1:-1] + np.where(np.arange(1, len(f0) - 1) % 2 == 1, -500e9, 500e9)      # other inner channels
    combs = [(f0, 1e-5), (inner, 1e-5), (f0, 4e-5)]

    def si(fr, p):
        return create_arbitrary_spectral_information(frequency=fr, pch=p, baud_rate=32e9, slot_width=50e9, tx_osnr=40,
                                                     tx_power=p, roll_off=0.15)
    traces = []
    try:
        for flag in (False, True):
            SimParams.set_params({'raman_params': {'flag': flag, 'method': 'perturbative', 'order': 2,
                                                   'solver_spatial_resolution': 500, 'result_spatial_resolution': 10e3},
                                  'nli_params': {'method': 'gn_model_analytic'}})
            used = fibres()
            for fid in sorted(used):
                evs = []
                for k, (fr, p) in enumerate(combs):
                    chk.case(f'memory|{fid}|raman={int(flag)}|step={k}', nontrivial=k > 0)
                    try:
                        with Recording() as rec:
                            used[fid](si(fr, p))
                        e = L.fiber_event(rec.events[-1], flag, with_acc=False)
                        if k > 0:
                            with Recording() as rec2:
                                fibres()[fid](si(fr, p))
                            L.with_fresh_fiber_reference(e, L.fiber_event(rec2.events[-1], flag, with_acc=False))
                    except Exception as ex:                              # noqa
                        chk.violation(f'memory|{features(conf["span"][fid])}|raman={int(flag)}|exception|{type(ex).__name__}',
                                      dict(fibre=fid, step=k, exception=traceback.format_exc()[-1200:]))
                        break
                    evs.append(e)
                traces.append({'name': f'memory {fid} raman={int(flag)}', 'ev': evs})
    finally:
        SimParams.set_params({})
    chk.cov['memory_histories'] = len(traces)
    return traces


def low_power_traces(conf, orders, chk):
    """LowPower in the quick tier: with Raman computation ON (perturbative) and -60 dBm per channel every fibre of the
    emitted configuration - as a plain Fiber and as a RamanFiber without pumps - attenuates by the budget the
    specification emitted (att_in, connectors, every lumped loss once)"""
    from gnpy.core.info import create_arbitrary_spectral_information
    from gnpy.core.parameters import SimParams
    from gnpy.tools.json_io import load_equipments_and_configs, network_from_json
    eq = load_equipments_and_configs(EX / 'eqpt_config.json', [], [])
    budget = {}
    for js in orders:
        for e, b in zip(js['order'], js['budget']):
            if b:
                budget.setdefault(e, b)
    els = []
    for fid, sp in conf['span'].items():
        els.append(fiber_json(fid, sp))
        r = fiber_json(fid, sp)
        r.update({'uid': fid + ' as RamanFiber', 'type': 'RamanFiber', 'type_variety': 'SSMF',
                  'operational': {'temperature': 283, 'raman_pumps': []}})
        els.append(r)
    f = np.array(conf['chanF'], dtype=float) * 1e9
    traces = []
    worst = 0
    try:
        for step in conf['lowPowerSteps']:                 # the (length, solver resolution) grid
            SimParams.set_params({'raman_params': {'flag': True, 'method': 'perturbative', 'order': 2,
                                                   'solver_spatial_resolution': step, 'result_spatial_resolution': 10e3},
                                  'nli_params': {'method': 'gn_model_analytic'}})
            for el in network_from_json(copy.deepcopy({'elements': els, 'connections': []}), eq).nodes():
                el.ref_pch_in_dbm = 0.0
                fid = el.uid.split(' ')[0]
                chk.case(f'lowpower|{el.uid}|{step}', nontrivial=True)
                si = create_arbitrary_spectral_information(frequency=f, pch=1e-9, baud_rate=32e9, slot_width=50e9, tx_osnr=40,
                                                           tx_power=1e-9, roll_off=0.15)
                try:
                    with Recording() as rec:
                        el(si)
                except Exception as ex:                                      # noqa
                    chk.violation(f'lowpower|{type(el).__name__}|{features(conf["span"][fid])}|exception|{type(ex).__name__}',
                                  dict(fibre=el.uid, exception=traceback.format_exc()[-1200:]))
                    continue
                ev = rec.events[-1]
                loss = L.dbm(ev['pre']['pch']) - L.dbm(ev['post']['pch'])
                worst = max(worst, max(abs(udb(x) - b) for x, b in zip(loss, budget[fid])))
                mult = 'multiple' if (conf['span'][fid]['lenKm'] * 1000) % step == 0 else 'not-multiple'
                traces.append({'name': f'lowpower {el.uid} step {step} m',
                               'ev': [{'k': 'LowPower', 'what': f'{type(el).__name__}|length-{mult}-of-solver-step|{features(conf["span"][fid])}',
                                       'ch': [{'a': udb(x), 'b': b} for x, b in zip(loss, budget[fid])]}]})
    finally:
        SimParams.set_params({})
    chk.cov['lowpower_quick_worst_deviation_udb'] = worst
    chk.cov['lowpower_quick_tolerance_udb'] = 2000
    return traces


def lumped_position_traces(conf, chk):
    """LowPower and LumpedOnce in the quick tier over the POSITION of a lumped loss: the probe fibre of the specification
    (short, one lumped loss) gets one more lumped loss at each position of the emitted grid - span start, inside off / on a
    point of the solver grid, next to the end, span end.  A configuration the constructor refuses gives a `Refused` event
    (judged against the model's SpanValid); one it ACCEPTS is a fibre: with Raman computation on, at -60 dBm per channel, it
    loses the emitted budget (LowPower, exact methods) and exactly `extra` more than the base fibre (LumpedOnce, every
    method); with Raman computation off it loses the budget (LossBudget)"""
    from gnpy.core.info import create_arbitrary_spectral_information
    from gnpy.core.parameters import SimParams
    from gnpy.tools.json_io import load_equipments_and_configs, network_from_json
    eq = load_equipments_and_configs(EX / 'eqpt_config.json', [], [])
    pr = conf['probes']
    f = np.array(conf['chanF'], dtype=float) * 1e9

    def build(sp, cls_name):
        el = fiber_json('probe', sp)
        if cls_name == 'RamanFiber':
            el.update({'type': 'RamanFiber', 'operational': {'temperature': 283, 'raman_pumps': []}})
        el = next(iter(network_from_json({'elements': [el], 'connections': []}, eq).nodes()))
        el.ref_pch_in_dbm = 0.0
        return el

    def si():
        return create_arbitrary_spectral_information(frequency=f, pch=1e-9, baud_rate=32e9, slot_width=50e9, tx_osnr=40,
                                                     tx_power=1e-9, roll_off=0.15)

    def cross(el):
        """(recorded crossing, per-channel loss in dB) of a -60 dBm per channel comb"""
        with Recording(op_args=True) as rec:
            el(si())
        ev = rec.events[-1]
        return ev, L.dbm(ev['pre']['pch']) - L.dbm(ev['post']['pch'])

    def pairs(a, b):
        return [{'a': udb(x), 'b': (y if isinstance(y, int) else udb(y))} for x, y in zip(a, b)]
    traces = []
    refused = accepted = 0
    worst = {'LowPower': 0.0, 'LumpedOnce': 0.0}
    settings = [dict(s, flag=True) for s in sorted(pr['settings'], key=lambda s: s['method'])] + \
        [dict(method='perturbative', order=2, step=2500, exact=True, flag=False)]
    try:
        for s_ in settings:
            SimParams.set_params({'raman_params': {'flag': s_['flag'], 'method': s_['method'], 'order': s_['order'],
                                                   'solver_spatial_resolution': s_['step'], 'result_spatial_resolution': 10e3},
                                  'nli_params': {'method': 'gn_model_analytic'}})
            tag = f"{s_['method']}/{s_['order']}/{s_['step']}m" if s_['flag'] else 'raman-off'
            for cls_name in ('Fiber', 'RamanFiber'):
                try:
                    base = cross(build(pr['base']['span'], cls_name))[1]
                except Exception as ex:                                      # noqa
                    chk.violation(f'lumped position|{cls_name}|base fibre|{tag}|exception|{type(ex).__name__}',
                                  dict(span=pr['base']['span'], exception=traceback.format_exc()[-1200:]))
                    continue
                for at in sorted(pr['at'], key=lambda a: a['km']):
                    where = 'span-start' if at['km'] == 0 else 'span-end' if at['km'] == at['span']['lenKm'] else 'inside'
                    what = f'{cls_name}|lumped-loss-at-{where}'
                    chk.case(f'lumped position|{cls_name}|{at["km"]} km|{tag}', nontrivial=True)
                    name = f'lumped position {cls_name} {at["km"]} km {tag}'
                    try:
                        el = build(at['span'], cls_name)
                    except Exception as ex:                                  # noqa  the constructor refuses the configuration
                        refused += 1
                        traces.append({'name': name, 'ev': [{'k': 'Refused', 'what': what, 'valid': 1 if at['valid'] else 0,
                                                             'exception': type(ex).__name__}]})
                        continue
                    accepted += 1
                    try:
                        ev, loss = cross(el)
                    except Exception as ex:                                  # noqa
                        chk.violation(f'lumped position|{what}|{tag}|exception|{type(ex).__name__}',
                                      dict(span=at['span'], exception=traceback.format_exc()[-1200:]))
                        continue
                    if not s_['flag']:
                        traces.append({'name': name, 'ev': [dict(L.fiber_event(ev, False, with_acc=False), what=what)]})
                        continue
                    evs = [{'k': 'LumpedOnce', 'what': f'{what} {tag}', 'lumped': pr['extra'], 'ch': pairs(loss, base)}]
                    worst['LumpedOnce'] = max(worst['LumpedOnce'], float(np.max(np.abs(loss - base - pr['extra'] / 1e6))))
                    if s_['exact']:
                        evs.append({'k': 'LowPower', 'what': f'{what} {tag}', 'ch': pairs(loss, at['budget'])})
                        worst['LowPower'] = max(worst['LowPower'], float(np.max(np.abs(loss - np.array(at['budget']) / 1e6))))
                    traces.append({'name': name, 'ev': evs})
    finally:
        SimParams.set_params({})
    chk.cov['lumped_position_grid_km'] = sorted(a['km'] for a in pr['at'])
    chk.cov['lumped_position_refused_accepted'] = [refused, accepted]
    chk.cov['lumped_position_worst_deviation_db'] = {k: float(f'{v:.3g}') for k, v in worst.items()}
    chk.cov['lumped_position_tolerance_db'] = 0.002
    return traces


def methods_agree_quick(conf, chk):
    """MethodsAgree in the quick tier: on the emitted fibres (scalar AND per-frequency loss coefficient) a 24-channel comb of
    +9 dBm per channel over the whole C band (22.8 dBm in total: strong SRS) loses the same with the perturbative solver
    (order 2, 50 m) and with the numerical one at a fine 2 m step (fine = 1: judged with the tolerance measured for that
    step)"""
    from gnpy.core.info import create_arbitrary_spectral_information
    from gnpy.core.parameters import SimParams
    from gnpy.tools.json_io import load_equipments_and_configs, network_from_json
    eq = load_equipments_and_configs(EX / 'eqpt_config.json', [], [])
    f = np.linspace(191.3e12, 195.9e12, 24)
    p = 1e-3 * 10 ** 0.9
    traces = []
    worst = 0.0
    try:
        for fid in sorted(conf['span']):
            res = {}
            for method, step in (('perturbative', 50), ('numerical', 2)):
                SimParams.set_params({'raman_params': {'flag': True, 'method': method, 'order': 2,
                                                       'solver_spatial_resolution': step, 'result_spatial_resolution': 10e3},
                                      'nli_params': {'method': 'gn_model_analytic'}})
                el = next(iter(network_from_json({'elements': [fiber_json(fid, conf['span'][fid])], 'connections': []}, eq).nodes()))
                el.ref_pch_in_dbm = 0.0
                try:
                    res[method] = attenuation_db(el, create_arbitrary_spectral_information(
                        frequency=f, pch=p, baud_rate=32e9, slot_width=50e9, tx_osnr=40, tx_power=p, roll_off=0.15))
                except Exception as ex:                                  # noqa
                    chk.violation(f'methods|{features(conf["span"][fid])}|{method}|exception|{type(ex).__name__}',
                                  dict(fibre=fid, exception=traceback.format_exc()[-1200:]))
            if len(res) < 2:
                continue
            chk.case(f'methods|{fid}', nontrivial=True)
            worst = max(worst, float(np.max(np.abs(res['perturbative'] - res['numerical']))))
            traces.append({'name': f'methods {fid}',
                           'ev': [{'k': 'MethodsAgree', 'what': f'Fiber|{features(conf["span"][fid])}', 'pumped': 0, 'fine': 1,
                                   'ch': [{'a': udb(a), 'b': udb(b)} for a, b in zip(res['perturbative'], res['numerical'])]}]})
    finally:
        SimParams.set_params({})
    chk.cov['methods_agree_quick_worst_deviation_db'] = float(f'{worst:.3g}')
    chk.cov['methods_agree_quick_tolerance_db'] = 0.012
    return traces


# ----------------------------------------------------------------------------------------------------- B3 shipped
def long_link_network():
    """a two-ROADM line whose 390 km link is longer than the Span max_length: the auto-design splits it into spans"""
    from harness.gnpy_util import line_or_mesh_json
    from gnpy.tools.json_io import load_equipments_and_configs, network_from_json
    from gnpy.tools.worker_utils import designed_network
    eq = load_equipments_and_configs(EX / 'eqpt_config.json', [], [])
    net = network_from_json(line_or_mesh_json(['A', 'B', 'C'], [('A', 'B', 390), ('B', 'C', 170)]), eq)
    net, req, _ = designed_network(eq, net)
    return eq, net, req


def spliced_raman_topology(via_fused):
    """the shipped Raman example with a plain 40 km fibre spliced in front of the Raman-pumped fibre (directly, or through
    a Fused): a RamanFiber that shares its span with a plain Fiber"""
    from gnpy.tools.json_io import load_json
    topo = load_json(EX / 'raman_edfa_example_network.json')
    span1 = next(e for e in topo['elements'] if e['uid'] == 'Span1')
    topo['elements'].append({'uid': 'Span0', 'type': 'Fiber', 'type_variety': 'SSMF',
                             'params': {'length': 40.0, 'loss_coef': 0.21, 'length_units': 'km', 'att_in': 0,
                                        'con_in': 0.3, 'con_out': 0.2}, 'metadata': copy.deepcopy(span1['metadata'])})
    topo['connections'] = [c for c in topo['connections'] if c != {'from_node': 'Site_A', 'to_node': 'Span1'}]
    if via_fused:
        topo['elements'].append({'uid': 'Splice0', 'type': 'Fused', 'params': {'loss': 0.3},
                                 'metadata': copy.deepcopy(span1['metadata'])})
        topo['connections'] += [{'from_node': 'Site_A', 'to_node': 'Span0'}, {'from_node': 'Span0', 'to_node': 'Splice0'},
                                {'from_node': 'Splice0', 'to_node': 'Span1'}]
    else:
        topo['connections'] += [{'from_node': 'Site_A', 'to_node': 'Span0'}, {'from_node': 'Span0', 'to_node': 'Span1'}]
    return topo


def multiband_library_with_pmd_pdl():
    """the shipped multiband library with DIFFERENT PMD / PDL for the C-band and the L-band amplifier types"""
    from gnpy.tools.json_io import load_json
    doc = load_json(EX / 'eqpt_config_multiband.json')
    for e in doc['Edfa']:
        if e.get('type_def') == 'multi_band':
            continue
        lband = e.get('f_max', 196.1e12) < 191e12
        e['pmd'], e['pdl'] = (2e-12, 0.6) if lband else (1e-12, 0.2)
    return doc


def declared_connectors_network():
    """a library whose Span defaults for the connectors are NOT zero, and a line whose fibres declare their connectors in
    every way: explicit 0, explicit non-zero, not declared (the auto-design then completes them with the default);
    returns (equipment document, topology document, {fibre uid: (declared in, declared out, default in, default out)})"""
    from gnpy.tools.json_io import load_json
    from harness.gnpy_util import line_or_mesh_json
    eq = load_json(EX / 'eqpt_config.json')
    for sp in eq['Span']:
        sp.update({'con_in': 0.4, 'con_out': 0.6, 'EOL': 0})
    topo = line_or_mesh_json(['A', 'B', 'C', 'D'], [('A', 'B', 70), ('B', 'C', 60), ('C', 'D', 80)])
    figures = {'fiber (A -> B)': (0, 0), 'fiber (B -> A)': (None, None), 'fiber (B -> C)': (0, 0.3), 'fiber (C -> B)': (0.2, 0),
               'fiber (C -> D)': (None, 0), 'fiber (D -> C)': (0.7, None)}
    declared = {}
    for e in topo['elements']:
        if e['type'] == 'Fiber':
            e['params']['con_in'], e['params']['con_out'] = figures[e['uid']]
            declared[e['uid']] = figures[e['uid']] + (0.4, 0.6)
    return eq, topo, declared


def shipped_traces(chk, rng):
    eq_decl, topo_decl, declared = declared_connectors_network()
    # (name, topology file, equipment file or document, -, simulation parameters the USER selects, extras)
    jobs = [j + ({},) for j in L.SHIPPED] + [
        ('longLinkSplitByDesign', None, None, (), None, {}),
        # a RamanFiber sharing its span with a plain Fiber, designed and propagated with Raman computation OFF
        ('fiberSplicedToRamanFiber', None, 'eqpt_config.json', (), None, {'topology_json': spliced_raman_topology(False)}),
        ('fiberFusedToRamanFiber', None, 'eqpt_config.json', (), None, {'topology_json': spliced_raman_topology(True)}),
        # C + L propagation through multiband amplifiers whose band amplifiers have different PMD / PDL
        ('multiband-pmd-pdl-per-band', 'multiband_example_network.json', multiband_library_with_pmd_pdl(), (), None,
         {'spectrum': 'multiband_spectrum.json'}),
        # connector figures declared as 0 / non-zero / not declared, with non-zero Span defaults (EOL 0)
        ('declaredConnectors', None, eq_decl, (), None, {'topology_json': topo_decl})]
    npaths = 5 if chk.tier == 'quick' else 30
    max_ch = 8 if chk.tier == 'quick' else 16
    traces = []
    counts = {}
    for name, topo, eqpt, _, sim, extra in jobs:
        L.set_sim(sim)
        try:
            eq, net, req = long_link_network() if eqpt is None else L.load_designed(topo, eqpt, **extra)[:3]
            contrib = L.Contributions()
            # the Raman setting is the one the USER selected for this run (configuration), not whatever the process-wide
            # simulation parameters hold after the design
            ron = sim == 'raman'
            few = 2 if (name == 'coronet' and chk.tier == 'quick') else npaths
            for pname, evs in L.record_paths(eq, req, L.some_paths(net, rng, few)):
                out = []
                for ev in evs:
                    if ev['depth'] != 0:
                        continue
                    if ev['cls'] in ('Fiber', 'RamanFiber'):
                        out.append(L.fiber_event(ev, ron, max_ch=max_ch, contrib=contrib,
                                                 declared=declared if name == 'declaredConnectors' else None))
                    elif ev['cls'] in ('Roadm', 'Edfa', 'Multiband_amplifier'):
                        out.append(L.acc_event(ev, max_ch=max_ch, contrib=contrib))
                    else:
                        continue
                    counts[ev['cls']] = counts.get(ev['cls'], 0) + 1
                traces.append({'name': f'{name} {pname}', 'ev': out})
        finally:
            L.set_sim(None)
    chk.cov['b3_networks'] = len(jobs)
    chk.cov['b3_crossings'] = counts
    return traces


# ------------------------------------------------------------------------------------- Raman-on relational histories
def attenuation_db(el, si):
    """per-channel attenuation the element applied (product of its apply_attenuation operations), in dB"""
    with Recording(op_args=True) as rec:
        el(si)
    att = np.ones(si.number_of_channels)
    for op in rec.events[-1]['ops']:
        if op[0] == 'apply_attenuation_lin':
            att = att * np.asarray(op[1], dtype=float)
    return -L.db(att)


def comb(nch, dbm_per_ch):
    from gnpy.core.info import create_arbitrary_spectral_information
    f = 191.4e12 + np.arange(nch) * (4.6e12 / nch)
    p = 1e-3 * 10 ** (dbm_per_ch / 10)
    return create_arbitrary_spectral_information(frequency=f, pch=p, baud_rate=32e9, slot_width=50e9, tx_osnr=40,
                                                 tx_power=p, roll_off=0.15)


def raman_configs():
    """shipped Raman fibre configurations: the test configuration and the RamanFiber of raman_edfa_example_network"""
    from gnpy.tools.json_io import load_json, load_equipments_and_configs, load_network
    out = [('test_lumped_losses_raman_fiber_config', load_json(TD / 'test_lumped_losses_raman_fiber_config.json'))]
    eq = load_equipments_and_configs(EX / 'eqpt_config.json', [], [])
    net = load_network(EX / 'raman_edfa_example_network.json', eq)
    from gnpy.core.elements import RamanFiber
    for n in net.nodes():
        if isinstance(n, RamanFiber):
            d = n.to_json
            p = n.params.asdict()
            p['loss_coef'] = float(np.atleast_1d(p['loss_coef'])[0])
            p = {k: (v.tolist() if isinstance(v, np.ndarray) else v) for k, v in p.items()
                 if k in ('length', 'length_units', 'loss_coef', 'att_in', 'con_in', 'con_out', 'dispersion', 'effective_area',
                          'pmd_coef')}
            p['con_in'] = p['con_in'] or 0.0
            p['con_out'] = p['con_out'] or 0.0
            out.append((f'raman_edfa_example_network:{n.uid}', {'uid': n.uid, 'type_variety': d['type_variety'], 'params': p,
                                                               'operational': d['operational']}))
    return out


def make(cls_name, conf, lumped=None, pump_scale=1.0):
    from gnpy.core.elements import Fiber, RamanFiber
    c = copy.deepcopy(conf)
    if lumped is not None:
        c['params']['lumped_losses'] = lumped
    for p in c.get('operational', {}).get('raman_pumps', []):
        p['power'] = p['power'] * pump_scale
    el = (RamanFiber if cls_name == 'RamanFiber' else Fiber)(**c)
    el.ref_pch_in_dbm = 0.0
    return el


def raman_histories(settings, chk):
    from gnpy.core.parameters import SimParams
    traces = []
    nch = 12
    dev = {'LowPower': 0, 'LumpedOnce': 0, 'MethodsAgree': 0, 'MethodsAgree_pumped': 0, 'PumpsOnlyAddGain_margin': None}

    def sim(s, flag=True):
        SimParams.set_params({'raman_params': {'flag': flag, 'method': s['method'], 'order': s['order'],
                                               'solver_spatial_resolution': s['step'], 'result_spatial_resolution': 10e3},
                              'nli_params': {'method': 'gn_model_analytic'}})

    def pairs(a, b):
        return [{'a': udb(x), 'b': udb(y)} for x, y in zip(a, b)]
    try:
        for cname, conf in raman_configs():
            base_l = conf['params'].get('lumped_losses', [])
            evs = []
            for s in settings:
                tag = f"{s['method']}/{s['order']}/{s['step']}m"
                # LowPower: Raman on at -60 dBm per channel = plain attenuation (Raman off), no pumps
                sim(s, flag=False)
                off = attenuation_db(make('Fiber', conf), comb(nch, -60))
                sim(s)
                on = attenuation_db(make('Fiber', conf), comb(nch, -60))
                if s['exact']:
                    evs.append({'k': 'LowPower', 'what': tag, 'ch': pairs(on, off)})
                    dev['LowPower'] = max(dev['LowPower'], float(np.max(np.abs(on - off))))
                # LumpedOnce: one more lumped loss of 1.3 dB shifts the low-power loss by exactly 1.3 dB
                extra = base_l + [{'position': 31.7, 'loss': 1.3}]
                on_x = attenuation_db(make('Fiber', conf, lumped=extra), comb(nch, -60))
                evs.append({'k': 'LumpedOnce', 'what': tag, 'lumped': udb(1.3), 'ch': pairs(on_x, on)})
                dev['LumpedOnce'] = max(dev['LumpedOnce'], float(np.max(np.abs(on_x - on - 1.3))))
                # PumpsOnlyAddGain: counter-propagating pumps never increase the loss of a channel
                for pw in (-60, 0):
                    with_p = attenuation_db(make('RamanFiber', conf), comb(nch, pw))
                    no_p = attenuation_db(make('Fiber', conf), comb(nch, pw))
                    evs.append({'k': 'PumpsOnlyAddGain', 'what': f'{tag} {pw} dBm', 'ch': pairs(with_p, no_p)})
                    m = float(np.min(no_p - with_p))
                    dev['PumpsOnlyAddGain_margin'] = m if dev['PumpsOnlyAddGain_margin'] is None else min(dev['PumpsOnlyAddGain_margin'], m)
            # MethodsAgree: perturbative order 2 (shipped setting) against the numerical method at a fine step
            ref = next(s for s in settings if s['method'] == 'perturbative' and s['order'] == 2)
            fine = {'method': 'numerical', 'order': 2, 'step': 10, 'exact': False}
            for cls_name in ('Fiber', 'RamanFiber'):
                sim(ref)
                a = attenuation_db(make(cls_name, conf), comb(nch, 0))
                sim(fine)
                b = attenuation_db(make(cls_name, conf), comb(nch, 0))
                evs.append({'k': 'MethodsAgree', 'what': cls_name, 'pumped': 1 if cls_name == 'RamanFiber' else 0, 'fine': 0,
                            'ch': pairs(a, b)})
                key = 'MethodsAgree_pumped' if cls_name == 'RamanFiber' else 'MethodsAgree'
                dev[key] = max(dev[key], float(np.max(np.abs(a - b))))
            traces.append({'name': f'raman {cname}', 'ev': evs})
            chk.case(f'raman|{cname}', nontrivial=True)
    finally:
        SimParams.set_params({})
    chk.cov['raman_measured_deviation_db'] = {k: (None if v is None else float(f'{v:.3g}')) for k, v in dev.items()}
    chk.cov['raman_tolerance_db'] = {'LowPower / LumpedOnce / PumpsOnlyAddGain': 0.002, 'MethodsAgree': 0.04,
                                     'MethodsAgree_pumped': 0.4}
    chk.cov['raman_settings'] = len(settings)
    return traces


def report(chk, traces, verdicts, origin):
    for t in traces:
        v = verdicts[t['name']]
        if not v:
            chk.traces += 1
            continue
        seen = set()
        for step, clause in v:
            e = t['ev'][step - 1]
            what = e.get('cls', e['k'])
            sig = f'{origin}|{what}|{clause}' + (f'|{e["what"].split(" ")[0]}' if 'what' in e else '')
            if sig in seen:
                continue
            seen.add(sig)
            chk.violation(sig, dict(trace=t['name'], step=step, clause=clause,
                                    event={k: (x if not isinstance(x, list) else x[:4]) for k, x in e.items()}))


def run(chk):
    t0 = time.time()
    wall = {}

    def lap(name):
        nonlocal t0
        wall[name] = round(time.time() - t0, 1)
        t0 = time.time()
    # ---- B1: every assembly, every order
    r = tlc.run('MC_FiberLaw', cfg_text=cfg_text('MCAssemblies'), timeout=1800, tag='c05-mc')
    chk.add_mc('MC_FiberLaw all assemblies of 2-4 fibres + R + A, every order', r)
    chk.exhaustive = True
    # ---- B2
    asm = 'MCAssembliesQuick' if chk.tier == 'quick' else 'MCAssemblies'
    r2 = tlc.run('MC_FiberLaw', cfg_text=cfg_text(asm, emit=True), timeout=1800, tag='c05-emit')
    chk.add_mc(f'emit orderings {asm}', r2)
    conf = [x for x in r2.emitted if 'span' in x]
    orders = [x for x in r2.emitted if 'budget' in x]
    settings = [x for x in r2.emitted if 'method' in x]
    if len(conf) != 1 or not orders or not settings:
        raise Machinery(f'emission incomplete: {len(conf)} configurations, {len(orders)} orderings, {len(settings)} settings')
    lap('tlc')
    check_library_dispersion(conf[0])
    b2_traces = replay_orders(conf[0], orders, chk)
    lap('b2_replay')
    mem = fibre_memory_traces(conf[0], chk)
    b2_traces = b2_traces + mem + low_power_traces(conf[0], orders, chk) + lumped_position_traces(conf[0], chk) + \
        methods_agree_quick(conf[0], chk)
    report(chk, b2_traces, L.judge(chk, b2_traces, 'c05-trace-b2'), 'B2trace')
    lap('b2_judge')
    # ---- B3
    rng = random.Random(chk.seed)
    traces = shipped_traces(chk, rng)
    lap('b3_record')
    report(chk, traces, L.judge(chk, traces, 'c05-trace'), 'B3')
    lap('b3_judge')
    for t in traces:
        f = next((e for e in t['ev'] if e['k'] == 'Fiber'), None)
        if f:
            chk.sample(dict(kind='B3 fibre crossing recorded in propagate() and judged by Trace_LineElements', trace=t['name'],
                            event={k: (v if not isinstance(v, list) else v[:2]) for k, v in f.items()}))
            break
    # ---- Raman-on relational clauses (thorough tier only)
    if chk.tier == 'thorough':
        rt = raman_histories(settings, chk)
        report(chk, rt, L.judge(chk, rt, 'c05-raman'), 'raman')
        lap('raman')
    chk.cov['wall_breakdown_s'] = wall
    chk.assume('loss budget judged with Raman computation off only (the property says so); with Raman on the accumulation '
               'clauses are still judged and the relational Raman clauses apply (thorough tier)')
    chk.assume("an element's own contribution = what a deep copy of it leaves in a zero-state spectral information with the "
               'same channels (measured once per element and channel plan)')
    chk.assume('ContribFromConfig: group index of the fibre model (FiberParams._n1 = 1.468) and c = 299792458 m/s convert a '
               'configured length into latency; CD of a span is restated from configuration (dispersion x length on every '
               'channel) only for a single-value dispersion without slope; with a dispersion table or a slope '
               '(frequency-dependent beta2 / beta3 model) it is only required to accumulate linearly and position-independently')
    chk.assume('a lumped loss at 0 km or at the span end is outside the quantified fibres (the element documents "boundaries '
               'excluded"): refusing it is right, accepting it is not judged as such - but a fibre that was accepted must '
               'apply every lumped loss of its configuration once, Raman computation off and on')
    chk.assume('per-frequency loss coefficient: the configured table is interpolated linearly at the channel frequency by '
               'the harness for B3 (numpy.interp) and by the specification itself for B2 (exact on the model grid)')
    chk.assume('Raman clauses are sampled (2 shipped configurations x the emitted settings grid, 12 channels), solver '
               'accuracy as such is not claimed; LowPower is judged for the perturbative method and for the numerical '
               'method at steps <= 10 m (its discretisation error grows linearly with the step)')
    chk.assume('trusted: TLC, the Json module, the unit conversions of harness/line_util.py and harness/record.py')


# ------------------------------------------------------------------------------------------------------ mutants
def _mut_connector_dropped():
    """output connector loss not applied"""
    import gnpy.core.elements as E
    L.mutate_source(E.Fiber, 'propagate', 'attenuation_out_db = self.params.con_out', 'attenuation_out_db = 0 * self.params.con_out')


def _mut_cd_assigned():
    """chromatic dispersion assigned instead of accumulated"""
    import gnpy.core.elements as E
    L.mutate_source(E.Fiber, 'propagate', 'spectral_info.chromatic_dispersion += self.chromatic_dispersion(spectral_info.frequency)',
                    'spectral_info.chromatic_dispersion = self.chromatic_dispersion(spectral_info.frequency)')


def _mut_pmd_linear():
    """PMD added linearly instead of in quadrature"""
    import gnpy.core.elements as E
    L.mutate_source(E.Fiber, 'propagate', 'spectral_info.pmd = sqrt(spectral_info.pmd ** 2 + self.pmd ** 2)',
                    'spectral_info.pmd = spectral_info.pmd + self.pmd')


def _mut_lumped_twice():
    """the lumped losses are applied a second time on top of the profile"""
    import gnpy.core.science_utils as S
    L.mutate_source(S.RamanSolver, 'calculate_attenuation_profile', 'lumped_loss_acc = cumprod(lumped_losses)',
                    'lumped_loss_acc = cumprod(lumped_losses) * cumprod(lumped_losses)')


def _mut_latency_position():
    """latency contribution depends on what was accumulated before"""
    import gnpy.core.elements as E
    L.mutate_source(E.Fiber, 'propagate', 'spectral_info.latency += self.params.latency',
                    'spectral_info.latency += self.params.latency * (1 + (spectral_info.latency > 0) * 1e-3)')


def _mut_roadm_pdl_overwrite():
    """ROADM PDL replaces the accumulated value"""
    import gnpy.core.elements as E
    L.mutate_source(E.Roadm, 'propagate', 'spectral_info.pdl = sqrt(spectral_info.pdl ** 2 + pdl_impairment ** 2)',
                    'spectral_info.pdl = sqrt(pdl_impairment ** 2) + 0 * spectral_info.pdl')


def _mut_loss_table_misaligned():
    """per-frequency loss: reference frequencies sorted, values left in listing order"""
    import gnpy.core.parameters as P
    L.mutate_source(P.FiberParams, '__init__', "self._f_loss_ref = asarray(kwargs['loss_coef']['frequency'])",
                    "self._f_loss_ref = asarray(sorted(kwargs['loss_coef']['frequency']))")


def _mut_latency_without_group_index():
    """latency computed with the vacuum speed of light"""
    import gnpy.core.parameters as P
    L.mutate_source(P.FiberParams, '__init__', 'self._latency = self._length / (c / self._n1)', 'self._latency = self._length / c')


def _mut_alpha_memoised():
    """attenuation coefficients memoised per fibre on (first frequency, last frequency, channel count)"""
    import gnpy.core.elements as E
    orig = E.Fiber.alpha

    def alpha(self, frequency):
        f = np.atleast_1d(frequency)
        key = (float(f[0]), float(f[-1]), f.size)
        memo = self.__dict__.setdefault('_alpha_memo', {})
        if key not in memo:
            memo[key] = orig(self, frequency)
        return memo[key]
    E.Fiber.alpha = alpha


def _mut_roadm_fallback_merged():
    """a profile lacking roadm-pdl makes the ROADM-level pmd override the profile's roadm-pmd as well"""
    import gnpy.core.elements as E
    orig = E.Roadm.get_impairment

    def get_impairment(self, impairment, frequency_array, from_degree, degree):
        if impairment == 'roadm-pmd' and orig(self, 'roadm-pdl', frequency_array, from_degree, degree) is None:
            return None
        return orig(self, impairment, frequency_array, from_degree, degree)
    E.Roadm.get_impairment = get_impairment


def _mut_cd_default_reference():
    """beta2 converted back to a dispersion with the default 1550 nm reference instead of the fibre's own reference"""
    import gnpy.core.elements as E
    L.mutate_source(E.Fiber, 'chromatic_dispersion', 'ref_f = self.params.ref_frequency', 'ref_f = c / 1550e-9')


MUTANTS = {'cd_default_reference': _mut_cd_default_reference, 'connector_dropped': _mut_connector_dropped, 'cd_assigned': _mut_cd_assigned, 'pmd_linear': _mut_pmd_linear,
           'lumped_twice': _mut_lumped_twice, 'latency_position': _mut_latency_position,
           'roadm_pdl_overwrite': _mut_roadm_pdl_overwrite, 'loss_table_misaligned': _mut_loss_table_misaligned,
           'latency_without_group_index': _mut_latency_without_group_index, 'alpha_memoised': _mut_alpha_memoised,
           'roadm_fallback_merged': _mut_roadm_fallback_merged}
