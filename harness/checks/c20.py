"""C20 - spreadsheet inputs convert to the network and services they describe.

B1  TLC checks MC_Workbook: every enumerated workbook (8 link shapes x all admissible site types x link-value / Eqpt /
    Roadms patterns, one mutation per documented violation kind, Service sheets) - the documented-name topology
    Model(wb) satisfies every clause of Conforms, rejected workbooks name a violated rule.
B2  TLC emits the workbooks; the harness writes each to .xlsx (openpyxl), runs the REAL xls_to_json_data,
    network_from_json, designed_network and the service-sheet conversion, projects the outputs and
    Trace_Workbook.tla (TLC) judges them against ErrorKinds / Conforms / ServiceConforms.
B3  the shipped .xls / .xlsx workbooks are read cell by cell (xlrd / openpyxl, independent of gnpy's parser) into the
    same abstract vocabulary and their real conversions are judged by the same predicates.
"""
import copy
import json
import random
import shutil
import tempfile
from pathlib import Path

from harness import tlc
from harness.core import Machinery
from harness.gnpy_util import EX, TD, equipment
from harness import workbook_util as wu

ROOT = Path(__file__).resolve().parent.parent.parent
QUICK_VALID = 700


class Bench:
    def __init__(self):
        self.wd = Path(tempfile.mkdtemp(prefix='c20-', dir=ROOT / 'build'))
        self.eq = equipment('eqpt_config.json')
        self.n = 0

    def close(self):
        shutil.rmtree(self.wd, ignore_errors=True)


def run_real(path, eq, services, bidir, want_design=True):
    """the real conversion chain on one workbook file -> observation record (+ details for the report)"""
    from gnpy.tools.convert import xls_to_json_data
    from gnpy.tools.json_io import network_from_json, load_requests
    from gnpy.tools.worker_utils import designed_network
    from gnpy.core.exceptions import NetworkTopologyError
    empty = {'els': [], 'cx': [], 'pd': []}
    obs = dict(status='ok', topo=empty, load='skipped', design='skipped', svc=dict(status='skipped', reqs=[], sync=[]))
    det = {}
    try:
        js = xls_to_json_data(path)
    except NetworkTopologyError as e:
        obs['status'] = 'error'
        det['error'] = str(e)[:300]
        return obs, det
    except Exception as e:                                   # noqa   neither converted nor a topology error
        obs['status'] = f'crash:{type(e).__name__}'
        det['error'] = f'{type(e).__name__}: {str(e)[:300]}'
        return obs, det
    obs['topo'], notes = wu.project_topology(js)
    if notes:
        det['projection_notes'] = notes[:5]
    det['json_elements'] = len(js['elements'])
    net = None
    try:
        net = network_from_json(copy.deepcopy(js), eq)
        obs['load'] = 'ok'
    except Exception as e:                                   # noqa
        obs['load'] = type(e).__name__
        det['load_error'] = f'{type(e).__name__}: {str(e)[:300]}'
    if net is not None and want_design:
        try:
            net, _, _ = designed_network(eq, net)
            obs['design'] = 'ok'
        except Exception as e:                               # noqa
            obs['design'] = type(e).__name__
            det['design_error'] = f'{type(e).__name__}: {str(e)[:300]}'
    if services and net is not None and obs['design'] == 'ok':
        try:
            data = load_requests(path, eq, bidir=bidir, network=net, network_filename=path)
            svc, notes = wu.project_services(data)
            obs['svc'] = dict(status='ok', **svc)
        except Exception as e:                               # noqa
            obs['svc'] = dict(status=type(e).__name__, reqs=[], sync=[])
            det['service_error'] = f'{type(e).__name__}: {str(e)[:300]}'
    return obs, det


def judge(traces, chk, tag):
    if not traces:
        return {}
    data = '\n'.join(json.dumps(t) for t in traces) + '\n'
    res = tlc.run('Trace_Workbook', extra_files={'trace.ndjson': data}, env={'TRACE_FILE': 'trace.ndjson'}, workers=1,
                  timeout=3000, tag=tag, heap='12g')
    if not res.ok:
        raise Machinery(f'trace validation run failed: {res.error or res.violated}\n{res.out[-3000:]}')
    chk.states += res.distinct
    chk.transitions += res.generated
    verdicts = {v['name']: v for v in res.emitted}
    for t in traces:
        if t['name'] not in verdicts or verdicts[t['name']]['n'] != 3:
            raise Machinery(f'no complete verdict for trace {t["name"]}')
    return verdicts


def describe(wb):
    """short class description of a workbook for signatures: site types by degree, Eqpt rows by site type"""
    deg = {}
    for ln in wb['links']:
        for c in (ln['a'], ln['z']):
            deg[c] = deg.get(c, 0) + 1
    types = {n['city']: n['type'] for n in wb['nodes']}
    sites = sorted({f'{types[c] or "blank"}{deg.get(c, 0)}' for c in types})
    rows = sorted({f'{types.get(e["a"], "?")}{deg.get(e["a"], 0)}' for e in wb['eqpt']})
    return f'sites={"+".join(sites)}|eqpt-on={"+".join(rows) or "none"}'


def run(chk):
    rng = random.Random(chk.seed)
    r = tlc.run('MC_Workbook', timeout=1800, tag='c20-mc')
    chk.add_mc('MC_Workbook (Model conforms, errors explained)', r)
    chk.exhaustive = True
    r2 = tlc.run('MC_Workbook', cfg_text='INIT Init\nNEXT Next\nINVARIANT Emit\n', timeout=1800, tag='c20-emit')
    chk.add_mc('MC_Workbook emission', r2)
    cases = sorted(r2.emitted, key=lambda c: json.dumps(c, sort_keys=True))
    if len(cases) < 3000:
        raise Machinery(f'only {len(cases)} workbooks emitted')
    kinds_seen = {k for c in cases for k in c['kinds']}
    need = {'duplicate_city', 'link_to_unknown_node', 'duplicate_link', 'unreferenced_node', 'eqpt_unknown_node',
            'eqpt_unknown_link', 'duplicate_eqpt', 'two_eqpt_on_ila'}
    if not need <= kinds_seen:
        raise Machinery(f'violation kinds never generated: {need - kinds_seen}')
    special = [c for c in cases if c['kinds'] or c['wb']['services'] or c['undecided']]
    plain = [c for c in cases if not (c['kinds'] or c['wb']['services'] or c['undecided'])]
    todo = cases if chk.tier == 'thorough' else special + rng.sample(plain, min(QUICK_VALID, len(plain)))
    bench = Bench()
    try:
        traces, details = [], {}
        for n, c in enumerate(todo):
            wb = c['wb']
            name = f'wb-{n}'
            path = bench.wd / f'{name}.xlsx'
            wu.write_xlsx(wb, path, as_int=rng.random() < 0.5)
            bidir = bool(n % 2)
            obs, det = run_real(path, bench.eq, bool(wb['services']), bidir)
            path.unlink(missing_ok=True)
            for f in bench.wd.glob(f'{name}*_services.json'):
                f.unlink()
            tr = dict(name=name, wb=wb, bidir=bidir, obs=obs, judge_design=True, judge_services=True)
            traces.append(tr)
            details[name] = (tr, det, c)
            chk.case(json.dumps(wb, sort_keys=True), nontrivial=True)
        verdicts = judge(traces, chk, 'c20-trace')
        n_err = n_und = 0
        for name, v in verdicts.items():
            tr, det, c = details[name]
            if sorted(v['kinds']) != sorted(c['kinds']) or v['undecided'] != c['undecided']:
                raise Machinery(f'{name}: the workbook TLC judged is not the workbook TLC emitted (JSON round trip)')
            n_err += bool(v['kinds'])
            n_und += bool(v['undecided'])
            if not v['viol']:
                chk.traces += 1
            for stage, clause in v['viol']:
                kind = '+'.join(sorted(v['kinds'])) or 'valid'
                sig = f'B2|{stage}|{clause}|{kind}|{describe(tr["wb"]) if kind == "valid" else ""}|obs={tr["obs"]["status"]}'
                chk.violation(sig, dict(trace=name, stage=stage, clause=clause, workbook=tr['wb'], observed_status=tr['obs']['status'],
                                        details=det, observed_topology=tr['obs']['topo'] if stage == 'Convert' else None,
                                        observed_services=tr['obs']['svc'] if stage == 'Services' else None))
        chk.cov.update(b2_workbooks=len(traces), b2_rejected_expected=n_err, b2_undecided=n_und,
                       b2_with_services=sum(1 for t in traces if t['wb']['services']), b2_enumerated=len(cases),
                       violation_kinds_generated=sorted(kinds_seen))
        ok = next((t for t in traces if t['wb']['eqpt'] and t['obs']['status'] == 'ok'), None)
        if ok:
            chk.sample(dict(kind='B2 workbook -> .xlsx -> real conversion -> judged by Trace_Workbook', workbook=ok['wb'],
                            observed_elements=[(e['uid'], e['type']) for e in ok['obs']['topo']['els']],
                            verdict=verdicts[ok['name']]['viol']))
        bad = next((t for t in traces if verdicts[t['name']]['kinds']), None)
        if bad:
            chk.sample(dict(kind='B2 workbook violating a sanity rule', kinds=verdicts[bad['name']]['kinds'],
                            observed_status=bad['obs']['status'], error=details[bad['name']][1].get('error')))
        run_b3(chk, bench)
    finally:
        bench.close()
    chk.assume('FUSED sites have degree 2 and no Eqpt row; link ends differ; PMD cells blank; amplifier restrictions, ROADM '
               'type_variety and per-degree impairments of the Roadms sheet are outside the vocabulary')
    chk.assume('a site declared ILA (or untyped) of degree /= 2 carrying two Eqpt rows is left undecided (the rules say both '
               '"corrected to ROADM" and "one row per ILA")')
    chk.assume('route lists are decided only when every entry is the name of a ROADM site; service rows with unknown '
               'transceiver / mode / end points are not in the domain')
    chk.assume('rejection is judged on the exception class (NetworkTopologyError), not on the message')
    chk.cov['power_tolerance_udb'] = 10
    chk.cov['power_measured_deviation_udb'] = 0


def run_b3(chk, bench):
    files = sorted(list(EX.glob('*.xls')) + list(EX.glob('*.xlsx')) + list(TD.glob('*.xls')) + list(TD.glob('*.xlsx')))
    traces, details, skipped = [], {}, []
    eq_tests = equipment('eqpt_config.json') if False else None
    for f in files:
        name = str(f.relative_to('/repo'))
        try:
            wb, notes = wu.read_workbook(f)
        except Exception as e:                                  # noqa
            skipped.append(dict(file=name, why=f'harness reader: {type(e).__name__}: {e}'))
            continue
        if wb is None:
            skipped.append(dict(file=name, why=notes))
            continue
        if not wb['nodes'] and not wb['links']:
            skipped.append(dict(file=name, why='no Nodes / Links sheet (service-only workbook)'))
            continue
        from gnpy.tools.json_io import load_equipments_and_configs
        eqf = (TD if f.parent == TD else EX) / 'eqpt_config.json'
        eq = load_equipments_and_configs(eqf, [], [])
        tmp = bench.wd / f.name
        shutil.copy(f, tmp)
        big = len(wb['links']) > 60
        obs, det = run_real(tmp, eq, bool(wb['services']), False)
        for g in bench.wd.glob('*_services.json'):
            g.unlink()
        tmp.unlink()
        out_of_vocab = [n for n in notes if 'outside the vocabulary' in n]
        # amplifier types unknown to the library, restrictions etc. make load/design a matter of the library: judged only
        # when the workbook stays inside the vocabulary
        tr = dict(name=name, wb=wb, bidir=False, obs=obs, judge_design=not out_of_vocab,
                  judge_services=obs['svc']['status'] == 'ok')
        det['notes'] = notes
        det['big'] = big
        traces.append(tr)
        details[name] = (tr, det)
    verdicts = judge(traces, chk, 'c20-files')
    for name, v in verdicts.items():
        tr, det = details[name]
        chk.case('file:' + name, nontrivial=True)
        if not v['viol']:
            chk.traces += 1
        for stage, clause in v['viol']:
            kind = '+'.join(sorted(v['kinds'])) or 'valid'
            chk.violation(f'B3|{Path(name).name}|{stage}|{clause}|{kind}|obs={tr["obs"]["status"]}',
                          dict(file=name, stage=stage, clause=clause, kinds=v['kinds'], observed_status=tr['obs']['status'],
                               details={k: v2 for k, v2 in det.items()}))
    chk.cov['b3_workbooks_judged'] = [dict(file=n, expected='+'.join(sorted(v['kinds'])) or ('undecided' if v['undecided'] else 'valid'),
                                           observed=details[n][0]['obs']['status'], services=details[n][0]['obs']['svc']['status'])
                                      for n, v in verdicts.items()]
    chk.cov['b3_workbooks_not_judged'] = skipped
    if traces:
        t0 = traces[0]
        chk.sample(dict(kind='B3 shipped workbook read cell by cell and judged', file=t0['name'], nodes=len(t0['wb']['nodes']),
                        links=len(t0['wb']['links']), eqpt_rows=len(t0['wb']['eqpt']), verdict=verdicts[t0['name']]['viol']))


# ------------------------------------------------------------------------------------------------------ mutants
def _mut_west_default():
    """a blank west cell takes the class default instead of the east value"""
    import gnpy.tools.convert as cv

    def update_attr(self, kwargs):
        clean = {k: v for k, v in kwargs.items() if v != '' and v is not None}
        for k, v in self.default_values.items():
            setattr(self, k, clean.get(k, v))
            kw = 'west' + k.rsplit('east', maxsplit=1)[-1]
            setattr(self, kw, clean.get(kw, v))
    cv.Link.update_attr = update_attr


def _mut_eqpt_opposite():
    """the east settings of an Eqpt row land on the west element and vice versa"""
    import gnpy.tools.convert as cv
    east, west = cv.create_east_eqpt_element, cv.create_west_eqpt_element

    def swap(node):
        n = copy.copy(node)
        for k in list(vars(node)):
            if k.startswith('east_'):
                kw = 'west_' + k[5:]
                setattr(n, k, getattr(node, kw))
                setattr(n, kw, getattr(node, k))
        return n
    cv.create_east_eqpt_element = lambda node, nbc: east(swap(node), nbc)
    cv.create_west_eqpt_element = lambda node, nbc: west(swap(node), nbc)


def _mut_missing_reverse():
    """the reverse fibre of the last link is not created"""
    import gnpy.tools.convert as cv
    orig = cv.create_west_fiber_element
    state = {}

    def create_west_fiber_element(fiber, nodes_by_city):
        el = orig(fiber, nodes_by_city)
        state['last'] = el
        return el
    cv.create_west_fiber_element = create_west_fiber_element
    orig_x = cv.xls_to_json_data

    def xls_to_json_data(input_filename, filter_region=None):
        js = orig_x(input_filename, filter_region)
        if 'last' in state:
            js['elements'] = [e for e in js['elements'] if e is not state['last']]
        return js
    cv.xls_to_json_data = xls_to_json_data
    import gnpy.tools.json_io as jio
    jio.xls_to_json_data = xls_to_json_data


def _mut_error_row_converted():
    """duplicate links are silently converted (warning only)"""
    import gnpy.tools.convert as cv
    cv.Link.__eq__ = lambda self, other: False
    cv.Link.__hash__ = lambda self: id(self)


def _mut_ghz():
    """service spacing kept in GHz"""
    import gnpy.tools.service_sheet as ss
    orig = ss.Request_element.__init__

    def init(self, request_param, equipment, bidir):
        orig(self, request_param, equipment, bidir)
        self.path_bandwidth = self.path_bandwidth * 1e-9 * 1e6
    ss.Request_element.__init__ = init


def _mut_disjoint():
    """only the first 'disjoint from' entry is kept in the synchronisation vector"""
    import gnpy.tools.service_sheet as ss
    orig = ss.Request_element.__init__

    def init(self, request_param, equipment, bidir):
        orig(self, request_param, equipment, bidir)
        self.disjoint_from = self.disjoint_from[:1]
    ss.Request_element.__init__ = init


MUTANTS = {'west_default': _mut_west_default, 'eqpt_opposite': _mut_eqpt_opposite, 'missing_reverse': _mut_missing_reverse,
           'error_row_converted': _mut_error_row_converted, 'ghz': _mut_ghz, 'disjoint': _mut_disjoint}
