"""C20 - spreadsheet inputs convert to the network and services they describe.

B1  TLC checks MC_Workbook: every enumerated workbook (8 link shapes x all admissible site types x link-value / Eqpt /
    Roadms patterns, one mutation per documented violation kind, Service sheets) - the documented-name topology
    Model(wb) satisfies every clause of Conforms, rejected workbooks name a violated rule.
B2  TLC emits the workbooks; the harness writes each to .xlsx (openpyxl), runs the REAL xls_to_json_data,
    network_from_json, designed_network and the service-sheet conversion, projects the outputs and
    Trace_Workbook.tla (TLC) judges them against ErrorKinds / Conforms / ServiceConforms.
B3  the shipped .xls / .xlsx workbooks are read cell by cell (xlrd / openpyxl, independent of gnpy's parser) into the
    same abstract vocabulary and their real conversions are judged by the same predicates.
"""
import copy
import json
import multiprocessing
import os
import random
import shutil
import tempfile
from pathlib import Path

from harness import tlc
from harness.core import Machinery
from harness.gnpy_util import EX, TD, REPO, equipment
from harness import workbook_util as wu

ROOT = Path(__file__).resolve().parent.parent.parent
QUICK_VALID = 150


class Bench:
    def __init__(self):
        self.wd = Path(tempfile.mkdtemp(prefix='c20-', dir=ROOT / 'build'))
        self.eq = equipment('eqpt_config.json')
        self.n = 0

    def close(self):
        shutil.rmtree(self.wd, ignore_errors=True)


def run_real(path, eq, services, bidir, want_design=True, service_path=None):
    """the real conversion chain on one workbook file -> observation record (+ details for the report)"""
    from gnpy.tools.convert import xls_to_json_data
    from gnpy.tools.json_io import network_from_json, load_requests
    from gnpy.tools.worker_utils import designed_network
    from gnpy.core.exceptions import NetworkTopologyError
    empty = {'els': [], 'cx': [], 'pd': []}
    obs = dict(status='ok', topo=empty, load='skipped', design='skipped', svc=dict(status='skipped', reqs=[], sync=[]))
    det = {}
    try:
        js = xls_to_json_data(path)
    except NetworkTopologyError as e:
        obs['status'] = 'error'
        det['error'] = str(e)[:300]
        return obs, det
    except Exception as e:                                   # noqa   neither converted nor a topology error
        obs['status'] = f'crash:{type(e).__name__}'
        det['error'] = f'{type(e).__name__}: {str(e)[:300]}'
        return obs, det
    obs['topo'], notes = wu.project_topology(js)
    if notes:
        det['projection_notes'] = notes[:5]
    det['json_elements'] = len(js['elements'])
    net = None
    try:
        net = network_from_json(copy.deepcopy(js), eq)
        obs['load'] = 'ok'
    except Exception as e:                                   # noqa
        obs['load'] = type(e).__name__
        det['load_error'] = f'{type(e).__name__}: {str(e)[:300]}'
    if net is not None and want_design:
        try:
            net, _, _ = designed_network(eq, net)
            obs['design'] = 'ok'
        except Exception as e:                               # noqa
            obs['design'] = type(e).__name__
            det['design_error'] = f'{type(e).__name__}: {str(e)[:300]}'
    if services and net is not None and obs['design'] == 'ok':
        try:
            data = load_requests(service_path or path, eq, bidir=bidir, network=net, network_filename=path)
            svc, notes = wu.project_services(data)
            obs['svc'] = dict(status='ok', **svc)
        except Exception as e:                               # noqa
            obs['svc'] = dict(status=type(e).__name__, reqs=[], sync=[])
            det['service_error'] = f'{type(e).__name__}: {str(e)[:300]}'
    return obs, det


_WORK = {}


def _work(job):
    """one workbook in a worker process (forked after the mutant, if any, was installed).

    A worker keeps ONE file name for all its workbooks and rewrites the file, as a user editing and re-converting a
    workbook does; every second workbook is first converted with a region filter (result not judged).  The judged
    conversion must depend on the file's content only, not on what was converted before under that name."""
    n, wb, as_int, bidir, wd = job
    if 'eq' not in _WORK:
        _WORK['eq'] = equipment('eqpt_config.json')
    path = Path(wd) / f'worker-{os.getpid()}.xlsx'
    # every second workbook with services is split in two files: the topology workbook and a workbook holding only the
    # Service sheet (as tests/data/testService.xls is); the route lists are then resolved against the TOPOLOGY workbook
    split = bool(wb['services']) and n % 2 == 0
    svc_path = None
    if split:
        svc_path = Path(wd) / f'worker-{os.getpid()}-svc.xlsx'
        wu.write_xlsx(dict(wb, services=[]), path, as_int=as_int)
        wu.write_xlsx(wb, svc_path, as_int=as_int, with_topology=False)
    else:
        wu.write_xlsx(wb, path, as_int=as_int)
    if n % 2 and wb['nodes']:
        from gnpy.tools.convert import xls_to_json_data
        try:
            xls_to_json_data(path, ['west'])
        except Exception:                        # noqa  the filtered sub-network may well be invalid: not judged
            pass
    try:
        return n, run_real(path, _WORK['eq'], bool(wb['services']), bidir, service_path=svc_path)
    finally:
        for f in Path(wd).glob(f'worker-{os.getpid()}*_services.json'):
            f.unlink()


def judge(traces, chk, tag):
    if not traces:
        return {}
    data = '\n'.join(json.dumps(t) for t in traces) + '\n'
    res = tlc.run('Trace_Workbook', extra_files={'trace.ndjson': data}, env={'TRACE_FILE': 'trace.ndjson'}, workers=1,
                  timeout=3000, tag=tag, heap='12g')
    if not res.ok:
        raise Machinery(f'trace validation run failed: {res.error or res.violated}\n{res.out[-3000:]}')
    chk.states += res.distinct
    chk.transitions += res.generated
    verdicts = {v['name']: v for v in res.emitted}
    for t in traces:
        if t['name'] not in verdicts or verdicts[t['name']]['n'] != 3:
            raise Machinery(f'no complete verdict for trace {t["name"]}')
    return verdicts


def describe(wb):
    """short class description of a workbook for signatures: site types by degree, Eqpt rows by site type"""
    deg = {}
    for ln in wb['links']:
        for c in (ln['a'], ln['z']):
            deg[c] = deg.get(c, 0) + 1
    types = {n['city']: n['type'] for n in wb['nodes']}
    sites = sorted({f'{types[c] or "blank"}{deg.get(c, 0)}' for c in types})
    rows = sorted({f'{types.get(e["a"], "?")}{deg.get(e["a"], 0)}' for e in wb['eqpt']})
    return f'sites={"+".join(sites)}|eqpt-on={"+".join(rows) or "none"}'


def inconsistency(wb):
    deg = {}
    for ln in wb['links']:
        for c in (ln['a'], ln['z']):
            deg[c] = deg.get(c, 0) + 1
    fused = {n['city'] for n in wb['nodes'] if n['type'] == 'FUSED'}
    out = sorted({f'FUSED-degree-{deg.get(c, 0)}' for c in fused if deg.get(c, 0) != 2}
                 | ({'Eqpt-row-on-FUSED'} if any(e['a'] in fused for e in wb['eqpt']) else set()))
    return '+'.join(out)


def run(chk):
    rng = random.Random(chk.seed)
    # B1 and the emission for B2 in one exhaustive run: all invariants of the cfg plus Emit
    cfg = (tlc.SPEC / 'MC_Workbook.cfg').read_text() + 'INVARIANT Emit\n'
    r2 = tlc.run('MC_Workbook', cfg_text=cfg, timeout=1800, tag='c20-mc')
    chk.add_mc('MC_Workbook (Model conforms to every clause, errors explained) + emission', r2)
    chk.exhaustive = True
    cases = sorted(r2.emitted, key=lambda c: json.dumps(c, sort_keys=True))
    if len(cases) < 3000:
        raise Machinery(f'only {len(cases)} workbooks emitted')
    kinds_seen = {k for c in cases for k in c['kinds']}
    need = {'duplicate_city', 'link_to_unknown_node', 'duplicate_link', 'unreferenced_node', 'eqpt_unknown_node',
            'eqpt_unknown_link', 'duplicate_eqpt', 'two_eqpt_on_ila'}
    if not need <= kinds_seen:
        raise Machinery(f'violation kinds never generated: {need - kinds_seen}')
    canonical = {'ROADM', 'ILA', 'FUSED', 'other', ''}
    spelled = [c for c in cases if any(n['type'] not in canonical for n in c['wb']['nodes'])]
    spelled_ids = {id(c) for c in spelled}
    by_kind = {}
    for c in cases:
        if c['kinds'] and id(c) not in spelled_ids:
            by_kind.setdefault('+'.join(sorted(c['kinds'])), []).append(c)
    special = [c for c in cases if c['wb']['services'] or c['inconsistent']]
    special += rng.sample(spelled, min(48, len(spelled)))         # other spellings of the site types
    for k in sorted(by_kind):                    # quick: every mutated workbook; of the kind that also arises
        cap = 12 if len(by_kind[k]) > 40 else len(by_kind[k])      # naturally in the product (two rows on an ILA) 12
        special += rng.sample(by_kind[k], cap)
    undecided = [c for c in cases if c['undecided']]
    plain = [c for c in cases if not (c['kinds'] or c['wb']['services'] or c['undecided'] or c['inconsistent'])
             and id(c) not in spelled_ids]
    todo = cases if chk.tier == 'thorough' else \
        special + rng.sample(undecided, min(10, len(undecided))) + rng.sample(plain, min(QUICK_VALID, len(plain)))
    bench = Bench()
    try:
        traces, details = [], {}
        jobs = [(n, c['wb'], rng.random() < 0.5, bool(n % 2), str(bench.wd)) for n, c in enumerate(todo)]
        nproc = max(1, min(12, int(os.environ.get('VERIF_TLC_WORKERS', '16'))))
        with multiprocessing.get_context('fork').Pool(nproc) as pool:
            results = dict(pool.imap_unordered(_work, jobs, chunksize=8))
        for n, c in enumerate(todo):
            obs, det = results[n]
            name = f'wb-{n}'
            tr = dict(name=name, wb=c['wb'], bidir=bool(n % 2), obs=obs, judge_design=True, judge_services=True)
            traces.append(tr)
            details[name] = (tr, det, c)
            chk.case(json.dumps(c['wb'], sort_keys=True), nontrivial=True)
        verdicts = judge(traces, chk, 'c20-trace')
        n_err = n_und = 0
        for name, v in verdicts.items():
            tr, det, c = details[name]
            if sorted(v['kinds']) != sorted(c['kinds']) or v['undecided'] != c['undecided']:
                raise Machinery(f'{name}: the workbook TLC judged is not the workbook TLC emitted (JSON round trip)')
            n_err += bool(v['kinds'])
            n_und += bool(v['undecided'])
            if not v['viol']:
                chk.traces += 1
            for stage, clause in v['viol']:
                kind = '+'.join(sorted(v['kinds'])) or ('inconsistent:' + inconsistency(tr['wb']) if v['inconsistent'] else 'valid')
                sig = f'B2|{stage}|{clause}|{kind}|obs={tr["obs"]["status"]}'
                chk.violation(sig, dict(trace=name, stage=stage, clause=clause, workbook_class=describe(tr['wb']),
                                        workbook=tr['wb'], observed_status=tr['obs']['status'],
                                        details=det, observed_topology=tr['obs']['topo'] if stage == 'Convert' else None,
                                        observed_services=tr['obs']['svc'] if stage == 'Services' else None))
        chk.cov.update(b2_workbooks=len(traces), b2_rejected_expected=n_err, b2_undecided=n_und,
                       b2_inconsistent=sum(1 for v in verdicts.values() if v['inconsistent']),
                       b2_with_services=sum(1 for t in traces if t['wb']['services']), b2_enumerated=len(cases),
                       violation_kinds_generated=sorted(kinds_seen))
        ok = next((t for t in traces if t['wb']['eqpt'] and t['obs']['status'] == 'ok'), None)
        if ok:
            chk.sample(dict(kind='B2 workbook -> .xlsx -> real conversion -> judged by Trace_Workbook', workbook=ok['wb'],
                            observed_elements=[(e['uid'], e['type']) for e in ok['obs']['topo']['els']],
                            verdict=verdicts[ok['name']]['viol']))
        bad = next((t for t in traces if verdicts[t['name']]['kinds']), None)
        if bad:
            chk.sample(dict(kind='B2 workbook violating a sanity rule', kinds=verdicts[bad['name']]['kinds'],
                            observed_status=bad['obs']['status'], error=details[bad['name']][1].get('error')))
        run_b3(chk, bench, big=chk.tier == 'thorough')
    finally:
        bench.close()
    chk.assume('FUSED sites have degree 2 and no Eqpt row; link ends differ; PMD cells blank; amplifier restrictions, ROADM '
               'type_variety and per-degree impairments of the Roadms sheet are outside the vocabulary')
    chk.assume('a site declared ILA (or untyped) of degree /= 2 carrying two Eqpt rows is left undecided (the rules say both '
               '"corrected to ROADM" and "one row per ILA")')
    chk.assume('route lists are decided only when every entry is the name of a ROADM site; service rows with unknown '
               'transceiver / mode / end points are not in the domain')
    chk.assume('rejection is judged on the exception class (NetworkTopologyError), not on the message')
    chk.cov['power_tolerance_udb'] = 10
    chk.cov['power_measured_deviation_udb'] = 0


_EQ = {}
SERVICE_ONLY = {'testService.xls': 'testTopology.xls'}


def equipment_at(path):
    from gnpy.tools.json_io import load_equipments_and_configs
    if path not in _EQ:
        _EQ[path] = load_equipments_and_configs(path, [], [])
    return _EQ[path]


def run_b3(chk, bench, big):
    files = sorted(list(EX.glob('*.xls')) + list(EX.glob('*.xlsx')) + list(TD.glob('*.xls')) + list(TD.glob('*.xlsx')))
    traces, details, skipped = [], {}, []
    for f in files:
        name = str(f.relative_to(REPO))
        try:
            wb, notes = wu.read_workbook(f)
        except Exception as e:                                  # noqa
            skipped.append(dict(file=name, why=f'harness reader: {type(e).__name__}: {e}'))
            continue
        if wb is None:
            skipped.append(dict(file=name, why=notes))
            continue
        partner = None
        if not wb['nodes'] and not wb['links'] and f.name in SERVICE_ONLY:
            # a service-only workbook is used with the topology workbook the repository's tests pair it with
            partner = f.parent / SERVICE_ONLY[f.name]
            topo, notes2 = wu.read_workbook(partner)
            wb = dict(topo, services=wb['services'])
            notes = notes + notes2
            name = f'{name} + {partner.name}'
        elif not wb['nodes'] and not wb['links']:
            skipped.append(dict(file=name, why='service-only workbook without valid rows (service errors are not in the domain)'))
            continue
        if len(wb['links']) > 60 and not big:
            skipped.append(dict(file=name, why='large workbook: judged in the thorough tier only (TLC needs ~90 s for it)'))
            continue
        # the library: the one next to the workbook if it knows every amplifier / fibre type the sheets name, else the
        # example library (the workbooks under tests/data are used with either in the repository's tests)
        used = {e[s_]['type'] for e in wb['eqpt'] for s_ in ('east', 'west')} - {'', 'fused'}
        used_f = {ln[s_]['fiber'] for ln in wb['links'] for s_ in ('east', 'west')} - {''}
        eq = None
        for eqf in ((TD if f.parent == TD else EX) / 'eqpt_config.json', EX / 'eqpt_config.json'):
            cand = equipment_at(eqf)
            if used <= set(cand['Edfa']) and used_f <= set(cand['Fiber']):
                eq = cand
                break
        if eq is None:
            eq = cand
            notes = notes + ['amplifier / fibre types unknown to the shipped libraries: outside the vocabulary']
        tmp = bench.wd / (partner or f).name
        shutil.copy(partner or f, tmp)
        stmp = None
        if partner:
            stmp = bench.wd / f.name
            shutil.copy(f, stmp)
        obs, det = run_real(tmp, eq, bool(wb['services']), False, service_path=stmp)
        if stmp:
            stmp.unlink()
        for g in bench.wd.glob('*_services.json'):
            g.unlink()
        tmp.unlink()
        out_of_vocab = [n for n in notes if 'outside the vocabulary' in n]
        # amplifier types unknown to the library, restrictions etc. make load/design a matter of the library: judged only
        # when the workbook stays inside the vocabulary
        tr = dict(name=name, wb=wb, bidir=False, obs=obs, judge_design=not out_of_vocab,
                  judge_services=obs['svc']['status'] == 'ok')
        det['notes'] = notes
        traces.append(tr)
        details[name] = (tr, det)
    verdicts = judge(traces, chk, 'c20-files')
    for name, v in verdicts.items():
        tr, det = details[name]
        chk.case('file:' + name, nontrivial=True)
        if not v['viol']:
            chk.traces += 1
        for stage, clause in v['viol']:
            kind = '+'.join(sorted(v['kinds'])) or ('inconsistent:' + inconsistency(tr['wb']) if v['inconsistent'] else 'valid')
            chk.violation(f'B3|{Path(name).name}|{stage}|{clause}|{kind}|obs={tr["obs"]["status"]}',
                          dict(file=name, stage=stage, clause=clause, kinds=v['kinds'], observed_status=tr['obs']['status'],
                               details={k: v2 for k, v2 in det.items()}))
    chk.cov['b3_workbooks_judged'] = [dict(file=n, expected='+'.join(sorted(v['kinds'])) or ('undecided' if v['undecided'] else
                                                                                      'inconsistent' if v['inconsistent'] else 'valid'),
                                           observed=details[n][0]['obs']['status'], services=details[n][0]['obs']['svc']['status'])
                                      for n, v in verdicts.items()]
    chk.cov['b3_workbooks_not_judged'] = skipped
    if traces:
        t0 = traces[0]
        chk.sample(dict(kind='B3 shipped workbook read cell by cell and judged', file=t0['name'], nodes=len(t0['wb']['nodes']),
                        links=len(t0['wb']['links']), eqpt_rows=len(t0['wb']['eqpt']), verdict=verdicts[t0['name']]['viol']))


# ------------------------------------------------------------------------------------------------------ mutants
def _mut_west_default():
    """a blank west cell takes the class default instead of the east value"""
    import gnpy.tools.convert as cv

    def update_attr(self, kwargs):
        clean = {k: v for k, v in kwargs.items() if v != '' and v is not None}
        for k, v in self.default_values.items():
            setattr(self, k, clean.get(k, v))
            kw = 'west' + k.rsplit('east', maxsplit=1)[-1]
            setattr(self, kw, clean.get(kw, v))
    cv.Link.update_attr = update_attr


def _mut_eqpt_opposite():
    """the east settings of an Eqpt row land on the west element and vice versa"""
    import gnpy.tools.convert as cv
    east, west = cv.create_east_eqpt_element, cv.create_west_eqpt_element

    def swap(node):
        n = copy.copy(node)
        for k in list(vars(node)):
            if k.startswith('east_'):
                kw = 'west_' + k[5:]
                setattr(n, k, getattr(node, kw))
                setattr(n, kw, getattr(node, k))
        return n
    cv.create_east_eqpt_element = lambda node, nbc: east(swap(node), nbc)
    cv.create_west_eqpt_element = lambda node, nbc: west(swap(node), nbc)


def _mut_missing_reverse():
    """the reverse fibre of the last link is not created"""
    import gnpy.tools.convert as cv
    orig = cv.create_west_fiber_element
    state = {}

    def create_west_fiber_element(fiber, nodes_by_city):
        el = orig(fiber, nodes_by_city)
        state['last'] = el
        return el
    cv.create_west_fiber_element = create_west_fiber_element
    orig_x = cv.xls_to_json_data

    def xls_to_json_data(input_filename, filter_region=None):
        js = orig_x(input_filename, filter_region)
        if 'last' in state:
            js['elements'] = [e for e in js['elements'] if e is not state['last']]
        return js
    cv.xls_to_json_data = xls_to_json_data
    import gnpy.tools.json_io as jio
    jio.xls_to_json_data = xls_to_json_data


def _mut_error_row_converted():
    """duplicate links are silently converted (warning only)"""
    import gnpy.tools.convert as cv
    cv.Link.__eq__ = lambda self, other: False
    cv.Link.__hash__ = lambda self: id(self)


def _mut_ghz():
    """service spacing kept in GHz"""
    import gnpy.tools.service_sheet as ss
    orig = ss.Request_element.__init__

    def init(self, request_param, equipment, bidir):
        orig(self, request_param, equipment, bidir)
        self.path_bandwidth = self.path_bandwidth * 1e-9 * 1e6
    ss.Request_element.__init__ = init


def _mut_disjoint():
    """only the first 'disjoint from' entry is kept in the synchronisation vector"""
    import gnpy.tools.service_sheet as ss
    orig = ss.Request_element.__init__

    def init(self, request_param, equipment, bidir):
        orig(self, request_param, equipment, bidir)
        self.disjoint_from = self.disjoint_from[:1]
    ss.Request_element.__init__ = init


MUTANTS = {'west_default': _mut_west_default, 'eqpt_opposite': _mut_eqpt_opposite, 'missing_reverse': _mut_missing_reverse,
           'error_row_converted': _mut_error_row_converted, 'ghz': _mut_ghz, 'disjoint': _mut_disjoint}
