"""C06 - a ROADM never amplifies and equalises every channel to min(target + offset, input - path loss).

B1  TLC explores MC_RoadmLaw (RoadmLaw.tla): node policy of each kind written in the library or in the element,
    egress-degree setting absent / pch / psd / psw, add / drop / express, three channel types, inputs below / at /
    above target mixed per channel, offsets, path loss per frequency range (per channel), an egress degree set to
    exactly 0 dBm, impairment profiles of the crossed path type listed out of id order / named by the element, the
    network designed or exported and loaded again, and a SECOND crossing of the same ROADM by other baud rates / slot
    widths on the same frequencies (no memory) - a single-rate spectrum: every carrier at the design's reference baud rate,
    in slots wider than / equal to / twice the reference spacing (targets stay per carrier); clauses SinglePolicy,
    InvalidRejected, NeverAmplifies(+Step), EqualisedToTarget, BelowTargetLossOnly, TargetIsDegreeElseNode, LevelByKind,
    SecondCrossingOnItsOwn, SecondCrossingPerCarrier as invariants.
B2  every case TLC emits (configuration + per-channel inputs + the spec's expected outputs) is executed on a real Roadm of
    a small designed A-B-C line built from equipment + topology JSON, and compared per channel (+/-3 udB); every
    (library, element) combination of node-level policies is loaded for real and must be accepted with the policy the
    spec says is in force, or rejected with a ConfigurationError.
B3  every ROADM crossing recorded inside the real gnpy.topology.request.propagate on the shipped networks (and the
    B2 crossings themselves, re-projected from the element) is judged by Trace_LineElements; the per-channel offset is
    the one of the LAUNCHED request keyed by channel frequency (not the array that travels with the spectral
    information); user spectra with different offsets per partition, partly outside the amplifiers' band (carriers
    filtered out at launch) or spread over two bands (demultiplexed per band), are among the propagated requests.
    The real planning pipeline (planning -> compute_path_with_disjunction) is also recorded: bidirectional requests
    without imposed mode on a transceiver whose modes carry equalisation offsets; every pass, Z->A included, is judged
    against the offset the equipment library gives to the mode of the propagated baud rate.
"""
import json
import random
import time
import traceback

import numpy as np

from harness import tlc
from harness import line_util as L
from harness.core import Machinery
from harness.gnpy_util import EX, TD, NONE

FREQ = [193.0e12, 193.1e12, 193.2e12]
BAUD = [32e9, 64e9, 90e9]
SLOT = [50e9, 75e9, 100e9]
KEYS = {'pch': 'target_pch_out_db', 'psd': 'target_psd_out_mWperGHz', 'psw': 'target_out_mWperSlotWidth'}
DKEYS = {'pch': 'per_degree_pch_out_db', 'psd': 'per_degree_psd_out_mWperGHz', 'psw': 'per_degree_psd_out_mWperSlotWidth'}
OTHER_LOSS = 1.0          # dB added to the path loss of the internal path types that are NOT crossed


def cfg_text(offsets, load_only=False, emit=None, maxloss='MCMaxLossVecsQuick', keep_clauses=False):
    base = (tlc.SPEC / 'MC_RoadmLaw.cfg').read_text()
    base = base.replace('OffsetVecs <- MCOffsetVecsQuick', f'OffsetVecs <- {offsets}')
    base = base.replace('MaxLossVecs <- MCMaxLossVecsQuick', f'MaxLossVecs <- {maxloss}')
    if maxloss != 'MCMaxLossVecsQuick':                   # thorough tier: every degree kind also with element-level policies
        base = base.replace('EltDegKinds <- MCEltDegKindsQuick', 'EltDegKinds <- MCDegKinds')
    if load_only:
        base = base.replace('LoadCases <- MCLoadCases', 'LoadCases <- MCLoadCasesAll')
        base = base.replace('DegKinds <- MCDegKinds', 'DegKinds <- MCDegNone')
        base = base.replace('Crossings <- MCCrossings', 'Crossings <- MCCrossOne')
        base = base.replace('Deltas <- MCDeltas', 'Deltas <- MCDeltaOne')
        base = base.replace(f'OffsetVecs <- {offsets}', 'OffsetVecs <- MCOffsetOne')
        base = base.replace(f'MaxLossVecs <- {maxloss}', 'MaxLossVecs <- MCMaxLossOne')
        base = base.replace('ProfKinds <- MCProfKinds', 'ProfKinds <- MCProfOne')
        base = base.replace('Stages <- MCStages', 'Stages <- MCStageOne')
    if emit:
        if not keep_clauses:
            base = '\n'.join(ln for ln in base.splitlines() if not ln.startswith(('INVARIANT', 'PROPERTY')))
        base += f'\nINVARIANT {emit}\n'
    return base


# ---------------------------------------------------------------------------------------- real-code side (B2)
def policy_value(kind, v_udb):
    """the spec's policy value (udB) -> the configuration number gnpy reads (dBm, or mW/GHz)"""
    x = v_udb / 1e6
    return x if kind == 'pch' else 10 ** (x / 10)


base_eqpt = L.base_eqpt


# frequency ranges of the impairment profiles: one per channel of the case (193.0 / 193.1 / 193.2 THz)
RANGES = [(191.3e12, 193.05e12), (193.05e12, 193.15e12), (193.15e12, 196.1e12)]


def impairments(profiles, minimal=False):
    """the roadm-path-impairments list of the library entry, in the given LISTING order.  profiles: [(id, path type,
    [loss of range 1, 2, 3] in dB)]; one frequency range per channel of the case; minimal: only roadm-maxloss is given
    (as in the express-path example of docs/json.rst), otherwise roadm-pmd / roadm-pdl are written too"""
    extra = {} if minimal else {'roadm-pmd': 0, 'roadm-pdl': 0}
    return [{'roadm-path-impairments-id': i,
             f'roadm-{t}-path': [dict({'frequency-range': {'lower-frequency': lo, 'upper-frequency': hi},
                                       'roadm-maxloss': ml}, **extra) for (lo, hi), ml in zip(RANGES, mls)]}
            for i, t, mls in profiles]


line_topology = L.line_topology


DEGREES = {'add': ('trx B', 'booster BC'), 'drop': ('preamp AB', 'trx B'), 'express': ('preamp AB', 'booster BC')}


def build(lib, elt, node_v, deg=None, crossing='express', profiles=None, explicit_id=None, design=True,
          minimal_profile=False, reloaded=False):
    """equipment + topology JSON for one configuration -> (designed network, roadm B).  lib / elt: lists of policy
    kinds written in the library entry / in the element; node_v: {kind: value in udB}; deg: the spec's egress-degree
    setting; profiles: the spec's profiles of the crossed path type as listed [{id, type, loss}] (udB); explicit_id: the
    profile the element names for the crossed pair of degrees (per_degree_impairments), None if none"""
    from gnpy.tools.json_io import load_eqpt_topo_from_json
    from gnpy.tools.worker_utils import designed_network
    eq_json = base_eqpt()
    profiles = profiles or [{'id': 1, 'type': crossing, 'loss': [0, 0, 0]}]
    listed = [(p['id'], p['type'], [x / 1e6 for x in p['loss']]) for p in profiles]
    # the other path types come after, with their own ids and 1 dB more loss than the first listed profile
    listed += [(11 + k, t, [x + OTHER_LOSS for x in listed[0][2]])
               for k, t in enumerate(t for t in ('express', 'add', 'drop') if t != crossing)]
    entry = {'type_variety': 'verif', 'add_drop_osnr': 38, 'pmd': 0, 'pdl': 0,
             'restrictions': {'preamp_variety_list': [], 'booster_variety_list': []},
             'roadm-path-impairments': impairments(listed, minimal_profile)}
    for k in lib:
        entry[KEYS[k]] = policy_value(k, node_v[k])
    eq_json['Roadm'].append(entry)
    params = {}
    for k in elt:
        params[KEYS[k]] = policy_value(k, node_v[k])
    if deg and deg['has']:
        params[DKEYS[deg['kind']]] = {DEGREES[crossing][1]: policy_value(deg['kind'], deg['v'])}
    if explicit_id is not None:
        params['per_degree_impairments'] = [{'from_degree': DEGREES[crossing][0], 'to_degree': DEGREES[crossing][1],
                                             'impairment_id': explicit_id}]
    topo = line_topology(params)
    # the other two ROADMs always carry a plain library policy
    for e in topo['elements']:
        if e['type'] == 'Roadm' and e['uid'] != 'roadm B':
            e['type_variety'] = 'default'
    eq, net = load_eqpt_topo_from_json(eq_json, topo)
    if design:
        net, _, _ = designed_network(eq, net)
    if reloaded:
        # the designed network is exported (what save_network writes) and loaded again: same configuration
        from gnpy.tools.json_io import network_to_json, network_from_json, load_network
        doc = json.loads(json.dumps(network_to_json(net)))
        if reloaded == 'yang':
            # ... converted to the YANG form and read back through the file loader
            import tempfile
            from pathlib import Path
            from gnpy.tools.convert_legacy_yang import legacy_to_yang
            tlc.BUILD.mkdir(exist_ok=True)
            with tempfile.TemporaryDirectory(dir=tlc.BUILD) as tmp:
                f = Path(tmp) / 'network_yang.json'
                f.write_text(json.dumps(legacy_to_yang(doc)))
                net = load_network(f, eq)
        else:
            net = network_from_json(doc, eq)
        net, _, _ = designed_network(eq, net)
    return net, next(n for n in net.nodes() if n.uid == 'roadm B')


# second crossing, same three frequencies: a single-rate spectrum (every carrier at the baud rate of the design reference,
# SI baud_rate) on a flexible grid - slots wider than / equal to / twice the reference spacing
BAUD2 = [32e9, 32e9, 32e9]
SLOT2 = [75e9, 50e9, 100e9]


def spectral_info(ch, second=False):
    from gnpy.core.info import create_arbitrary_spectral_information
    pch = [1e-3 * 10 ** (c['in'] / 1e7) for c in ch]
    types = list(zip(BAUD2, SLOT2)) if second else list(zip(BAUD, SLOT))
    for c, (b, w) in zip(ch, types):
        if L.udb(L.db(b / 1e9)) != c['baudDb'] or L.udb(L.db(w / 1e9)) != c['slotDb']:
            raise Machinery('channel types of the harness differ from the MC constants')
    return create_arbitrary_spectral_information(frequency=FREQ, pch=pch, baud_rate=[t[0] for t in types],
                                                 slot_width=[t[1] for t in types], tx_osnr=40,
                                                 tx_power=pch, roll_off=0.1,
                                                 delta_pdb_per_channel=[c['offset'] / 1e6 for c in ch])


def relation(c):
    d = c['in'] - c['maxloss'] - (c['tgt'] + c['offset'])
    return 'above' if d > 0 else 'below' if d < 0 else 'at'


class Replay:
    """executes emitted cases on real Roadm objects (one designed line network per configuration)"""

    def __init__(self, chk):
        self.chk = chk
        self.benches = {}
        self.traces = {}
        self.worst = 0.0
        self.counts = {'above': 0, 'below': 0, 'mixed': 0, 'deg_other_kind': 0, 'below_in_lower_loss_range': 0,
                       'degree_set_to_zero': 0, 'profiles_not_listed_by_id': 0, 'profile_named_by_element': 0, 'reloaded': 0, 'yang': 0, 'second_crossing': 0}

    def bench(self, cs, minimal_profile):
        key = (tuple(cs['lib']), tuple(cs['elt']), cs['degKind'], cs['crossing'], tuple(cs['maxloss']), cs['prof'],
               cs['stage'], minimal_profile)
        if key not in self.benches:
            node_v = {cs['node']['kind']: cs['node']['v']}
            # a library default of another kind (replaced by the element) keeps its own plausible value
            for k in cs['lib']:
                node_v.setdefault(k, {'pch': -20000000, 'psd': -35000000, 'psw': -37000000}[k])
            self.benches[key] = build(cs['lib'], cs['elt'], node_v, cs['deg'], cs['crossing'], cs['profiles'],
                                      None if cs['explicitId'] == NONE else cs['explicitId'],
                                      minimal_profile=minimal_profile,
                                      reloaded={'designed': False, 'reloaded': 'legacy', 'yang': 'yang'}[cs['stage']])
        return key, self.benches[key][1]

    def one(self, cs, minimal_profile=False):
        from harness.record import Recording
        chk = self.chk
        frm, to = DEGREES[cs['crossing']]
        rels = [relation(c) for c in cs['ch']]
        cls = f"node={cs['node']['kind']}@{'elt' if cs['elt'] else 'lib'}|deg={cs['degKind']}|{cs['crossing']}" \
              f"|maxloss={'0' if not any(cs['maxloss']) else 'uniform' if len(set(cs['maxloss'])) == 1 else 'per-range'}" \
              f"{'' if cs['prof'] == 'single' else '|profiles=' + cs['prof']}{'' if cs['stage'] == 'designed' else '|' + cs['stage']}|offsets={'0' if not any(c['offset'] for c in cs['ch']) else 'mixed'}"
        if minimal_profile:
            cls = 'impairment profile gives roadm-maxloss only|' + cls
        else:
            self.counts['above'] += 'above' in rels
            self.counts['below'] += 'below' in rels
            self.counts['mixed'] += ('above' in rels and 'below' in rels)
            self.counts['deg_other_kind'] += (cs['degKind'] != 'none' and cs['deg']['kind'] != cs['node']['kind'])
            self.counts['reloaded'] += cs['stage'] == 'reloaded'
            self.counts['yang'] += cs['stage'] == 'yang'
            self.counts['second_crossing'] += bool(cs['ch2'])
            self.counts['degree_set_to_zero'] += cs['degKind'] == 'pch0'
            self.counts['profiles_not_listed_by_id'] += cs['prof'] == 'firstListed'
            self.counts['profile_named_by_element'] += cs['prof'] == 'explicit'
            self.counts['below_in_lower_loss_range'] += any(r == 'below' and c['maxloss'] < max(cs['maxloss'])
                                                            for r, c in zip(rels, cs['ch']))
        chk.case(cls + '|' + ','.join(f"{c['in']}:{c['offset']}" for c in cs['ch']), nontrivial=('above' in rels))
        try:
            key, roadm = self.bench(cs, minimal_profile)
            si = spectral_info(cs['ch'])
            with Recording() as rec:
                out = roadm(si, degree=to, from_degree=frm)
            got = [L.udb(x) for x in L.dbm(out.pch)]
        except Exception as ex:                                         # noqa
            chk.violation(f'B2|exception|{cls.split("|node=")[0] if minimal_profile else cls}|{type(ex).__name__}',
                          dict(case=cs, exception=traceback.format_exc()[-1500:]))
            return
        dev = max(abs(g - c['out']) for g, c in zip(got, cs['ch']))
        self.worst = max(self.worst, dev)
        npol, node = L.roadm_node_policy(roadm)
        if dev > 3:
            bad = [k for k, (g, c) in enumerate(zip(got, cs['ch'])) if abs(g - c['out']) > 3]
            how = sorted({rels[k] + ('+amplified' if got[k] > cs['ch'][k]['in'] + 1 else '') for k in bad})
            chk.violation(f'B2|{cls}|channel {"/".join(how)} target',
                          dict(case=cs, code_out_udb=got, spec_out_udb=[c['out'] for c in cs['ch']],
                               egress=to, ingress=frm))
        elif npol != 1 or node['kind'] != cs['node']['kind']:
            chk.violation(f'B2|{cls}|policy in force', dict(case=cs, npol=npol, code_node=node))
        else:
            chk.traces += 1
        if len(chk.samples) < 2 and 'above' in rels and 'below' in rels and cs['deg']['has'] and cs['deg']['kind'] != cs['node']['kind']:
            chk.sample(dict(kind='B2 case executed on a real Roadm', config=cls, channels=cs['ch'], code_out_udb=got))
        e = L.roadm_event(rec.events[-1]) if rec.events else None
        if e is not None:
            self.traces.setdefault('B2 ' + '|'.join(map(str, key)), []).append(e)
        if minimal_profile or not cs['ch2']:
            return
        # second crossing of the SAME Roadm object: same frequencies, other baud rates / slot widths (NoMemory)
        try:
            with Recording() as rec:
                out2 = roadm(spectral_info(cs['ch2'], second=True), degree=to, from_degree=frm)
            got2 = [L.udb(x) for x in L.dbm(out2.pch)]
        except Exception as ex:                                         # noqa
            chk.violation(f'B2|exception|second crossing|{cls}|{type(ex).__name__}',
                          dict(case=cs, exception=traceback.format_exc()[-1500:]))
            return
        dev2 = max(abs(g - c['out']) for g, c in zip(got2, cs['ch2']))
        if dev2 > 3:
            chk.violation(f'B2|{cls}|second crossing with other baud rates / slot widths on the same frequencies',
                          dict(case=cs, code_out_udb=got2, spec_out_udb=[c['out'] for c in cs['ch2']], egress=to, ingress=frm))
        else:
            self.worst = max(self.worst, dev2)
            chk.traces += 1
        e2 = L.roadm_event(rec.events[-1]) if rec.events else None
        if e2 is not None:
            self.traces['B2 ' + '|'.join(map(str, key))].append(e2)


def replay_crossings(cases, chk):
    """execute every emitted case on a real Roadm; returns the recorded crossings as traces for the B3 judge"""
    rp = Replay(chk)
    for cs in cases:
        rp.one(cs)
        # the same law with an impairment profile that gives roadm-maxloss only (one case per crossing type / loss)
        if cs['lib'] == ['pch'] and not cs['elt'] and cs['degKind'] == 'none' \
                and all(c['in'] == c['tgt'] and c['offset'] == 0 for c in cs['ch']):
            rp.one(cs, minimal_profile=True)
    counts = rp.counts
    chk.cov['b2_cases'] = len(cases)
    chk.cov['b2_worst_deviation_udb'] = rp.worst
    chk.cov['b2_tolerance_udb'] = 3
    chk.cov['b2_networks_built'] = len(rp.benches)
    chk.cov['b2_cases_with_channel_above_target'] = counts['above']
    chk.cov['b2_cases_with_channel_below_target'] = counts['below']
    chk.cov['b2_cases_mixed_above_and_below'] = counts['mixed']
    chk.cov['b2_cases_degree_setting_of_other_kind'] = counts['deg_other_kind']
    chk.cov['b2_cases_unequalised_channel_in_lower_loss_range'] = counts['below_in_lower_loss_range']
    chk.cov['b2_cases_degree_set_to_exactly_zero'] = counts['degree_set_to_zero']
    chk.cov['b2_cases_two_profiles_not_listed_by_id'] = counts['profiles_not_listed_by_id']
    chk.cov['b2_cases_profile_named_by_element'] = counts['profile_named_by_element']
    chk.cov['b2_cases_on_exported_and_reloaded_network'] = counts['reloaded']
    chk.cov['b2_cases_on_network_reloaded_through_yang_form'] = counts['yang']
    chk.cov['b2_cases_with_second_crossing_other_channel_types'] = counts['second_crossing']
    if not all(counts.values()):
        raise Machinery(f'vacuous generation: {counts}')
    return [{'name': n, 'ev': ev} for n, ev in rp.traces.items()]


def replay_loads(cases, chk):
    """every combination of node-level policies written in the library entry / the element, loaded for real"""
    from gnpy.core.exceptions import ConfigurationError
    node_v = {'pch': -20000000, 'psd': -35000000, 'psw': -37000000}
    acc = rej = 0
    for cs in cases:
        key = f"lib={'+'.join(cs['lib']) or '-'}|elt={'+'.join(cs['elt']) or '-'}"
        chk.case('load|' + key, nontrivial=True)
        try:
            _, roadm = build(cs['lib'], cs['elt'], node_v)
            pols = [k for k, a in (('pch', roadm.target_pch_out_dbm), ('psd', roadm.target_psd_out_mWperGHz),
                                   ('psw', roadm.target_out_mWperSlotWidth)) if a is not None]
            got = ('accepted', pols)
        except ConfigurationError as ex:
            got = ('rejected', type(ex).__name__)
        except Exception as ex:                                         # noqa
            got = ('crashed', f'{type(ex).__name__}: {ex}')
        if cs['accepted']:
            ok = got == ('accepted', cs['inforce'])
            acc += 1
        else:
            ok = got[0] == 'rejected'
            rej += 1
        if ok:
            chk.traces += 1
        else:
            chk.violation(f'B2|load|{key}|spec={"accepted" if cs["accepted"] else "rejected"}|code={got[0]}',
                          dict(case=cs, code=got))
    chk.cov['b2_load_cases_accepted'] = acc
    chk.cov['b2_load_cases_rejected'] = rej
    if not (acc and rej):
        raise Machinery('vacuous load generation')


# ----------------------------------------------------------------------------------------------------- B3 traces
def partitioned_spectrum(rng, bands):
    """a user spectrum (same document format as the shipped initial_spectrum*.json) made of partitions with DIFFERENT
    power offsets, some of which lie outside the amplifier band of the path (those carriers are dropped when the
    propagation starts) - bands: [(f_min, f_max, baud rate, slot width)]"""
    offs = rng.sample([-2.0, -1.0, 0.5, 1.5, 2.5, 0.0], len(bands))
    return {'spectrum': [{'f_min': lo, 'f_max': hi, 'baud_rate': br, 'slot_width': sw, 'delta_pdb': o, 'roll_off': 0.15,
                          'tx_osnr': 40, 'label': f'part{i}'} for i, ((lo, hi, br, sw), o) in enumerate(zip(bands, offs))]}


def shipped_roadm_traces(chk, rng):
    """ROADM crossings inside the real propagate() on the shipped networks (+ PSD / PSW libraries, mixed spectra, and
    user spectra with per-partition offsets of which some carriers are filtered out / demultiplexed per band)"""
    jobs = [(n, t, e, None, EX, s) for (n, t, e, _, s) in L.SHIPPED]
    jobs += [('testTopology-psd-mixed', 'testTopology_expected.json', 'eqpt_config_psd.json', 'initial_spectrum2.json', TD, None),
             ('testTopology-psw-mixed', 'testTopology_expected.json', 'eqpt_config_psw.json', 'initial_spectrum1.json', TD, None),
             ('meshV2-pch-mixed', 'meshTopologyExampleV2.json', 'eqpt_config.json', 'initial_spectrum2.json', EX, None)]
    # per-partition offsets; the first partition lies below / the last one above the amplifiers' band (partial selection)
    jobs += [('meshV2-offsets-partial', 'meshTopologyExampleV2.json', 'eqpt_config.json',
              partitioned_spectrum(rng, [(190.80e12, 191.00e12, 32e9, 50e9), (192.00e12, 192.20e12, 32e9, 50e9),
                                         (193.00e12, 193.30e12, 64e9, 75e9), (194.00e12, 194.15e12, 32e9, 50e9),
                                         (196.30e12, 196.45e12, 32e9, 50e9)]), EX, None),
             ('multiband-offsets', 'multiband_example_network.json', 'eqpt_config_multiband.json',
              partitioned_spectrum(rng, [(186.50e12, 186.80e12, 32e9, 50e9), (188.00e12, 188.30e12, 64e9, 75e9),
                                         (192.00e12, 192.30e12, 32e9, 50e9), (194.00e12, 194.30e12, 64e9, 75e9)]), EX, None)]
    npaths = 6 if chk.tier == 'quick' else 40
    traces = []
    crossings = 0
    mixed_offsets = 0
    kinds = set()
    for name, topo, eqpt, spectrum, edir, sim in jobs:
        L.set_sim(sim)
        try:
            eq, net, req, _ = L.load_designed(topo, eqpt, spectrum=spectrum, eqpt_dir=edir)
            offset_of = L.launched_offsets(req)
            few = 2 if (name == 'coronet' and chk.tier == 'quick') else npaths
            for pname, evs in L.record_paths(eq, req, L.some_paths(net, rng, few)):
                out = []
                for ev in evs:
                    if ev['cls'] != 'Roadm':
                        continue
                    e = L.roadm_event(ev, max_ch=12 if chk.tier == 'quick' else 24, offset_of=offset_of)
                    if e is not None and len({c['offset'] for c in e['ch']}) > 1:
                        mixed_offsets += 1
                    if e is None:
                        chk.cov['b3_crossings_left_unjudged'] = chk.cov.get('b3_crossings_left_unjudged', 0) + 1
                        continue
                    out.append(e)
                    kinds.add(e['node']['kind'] + ('+deg:' + e['deg']['kind'] if e['deg']['has'] else ''))
                crossings += len(out)
                traces.append({'name': f'{name} {pname}', 'ev': out})
        finally:
            L.set_sim(None)
    chk.cov['b3_networks'] = len(jobs)
    chk.cov['b3_roadm_crossings'] = crossings
    chk.cov['b3_policies_seen'] = sorted(kinds)
    chk.cov['b3_crossings_with_non_uniform_offsets'] = mixed_offsets
    return traces


# a transceiver whose modes carry their own equalisation offset (no shipped library has one)
OFFSET_TRX = {"type_variety": "verif_offsets", "frequency": {"min": 191.3e12, "max": 196.1e12},
              "mode": [{"format": "m64", "baud_rate": 64e9, "OSNR": 15, "bit_rate": 200e9, "roll_off": 0.15, "tx_osnr": 40,
                        "min_spacing": 75e9, "equalization_offset_db": 2.5, "cost": 1},
                       {"format": "m32", "baud_rate": 32e9, "OSNR": 11, "bit_rate": 100e9, "roll_off": 0.15, "tx_osnr": 40,
                        "min_spacing": 37.5e9, "equalization_offset_db": -1.5, "cost": 1}]}


def planning_traces(chk):
    """ROADM crossings of the real planning pipeline (planning -> compute_path_with_disjunction): bidirectional
    requests WITHOUT an imposed mode on a transceiver whose modes carry equalisation offsets; every propagation pass
    (mode exploration A->Z, and the Z->A propagation with the selected mode) is judged against the offset the
    equipment library gives to the mode of the propagated baud rate"""
    from harness.record import Recording
    from gnpy.tools.json_io import _equipment_from_json, load_network, DEFAULT_EXTRA_CONFIG
    from gnpy.tools.worker_utils import designed_network, planning
    eq_json = base_eqpt()
    eq_json['Transceiver'].append(OFFSET_TRX)
    offset_by_baud = {m['baud_rate']: m['equalization_offset_db'] for m in OFFSET_TRX['mode']}      # configuration
    eq = _equipment_from_json(eq_json, DEFAULT_EXTRA_CONFIG)
    net, _, _ = designed_network(eq, load_network(EX / 'meshTopologyExampleV2.json', eq))

    def svc(rid, a, b, spacing):
        return {"request-id": rid, "source": a, "destination": b, "src-tp-id": a, "dst-tp-id": b, "bidirectional": True,
                "path-constraints": {"te-bandwidth": {"technology": "flexi-grid", "trx_type": "verif_offsets",
                                                      "spacing": spacing, "path_bandwidth": 100e9}}}
    data = {"path-request": [svc('wide', 'trx Lannion_CAS', 'trx Vannes_KBE', 75e9),
                             svc('narrow', 'trx Brest_KLA', 'trx Rennes_STA', 50e9)]}
    try:
        with Recording() as rec:
            _, _, _, rqs, _, _ = planning(net, eq, data)
    except Exception as ex:                                              # noqa
        chk.violation(f'B3|planning|exception|{type(ex).__name__}', dict(services=data, exception=traceback.format_exc()[-1500:]))
        return []
    sources = {r.source for r in rqs}
    passes, cur = [], None
    for ev in rec.events:
        if ev['depth'] != 0:
            continue
        if ev['cls'] == 'Transceiver':
            if cur is None:
                cur = {'from': ev['uid'], 'ev': []}
            else:
                cur['to'] = ev['uid']
                passes.append(cur)
                cur = None
        elif cur is not None and ev['cls'] == 'Roadm':
            cur['ev'].append(ev)
    traces = []
    reverse = nonzero = 0
    for k, p in enumerate(passes):
        if not p['ev']:
            continue
        baud = float(p['ev'][0]['pre']['baud_rate'][0])
        if baud not in offset_by_baud:
            raise Machinery(f'planning pass with baud rate {baud} not in the transceiver')
        out = [e for e in (L.roadm_event(ev, offset_of=offset_by_baud[baud], reported=False) for ev in p['ev']) if e]
        is_rev = p['from'] not in sources
        reverse += is_rev
        nonzero += offset_by_baud[baud] != 0
        traces.append({'name': f'planning pass {k} {p["from"]}->{p["to"]} {baud / 1e9:.0f}G{" (Z->A)" if is_rev else ""}', 'ev': out})
        chk.case(f'planning|{p["from"]}|{p["to"]}|{baud}', nontrivial=True)
    chk.cov['b3_planning_passes'] = len(traces)
    chk.cov['b3_planning_reverse_passes'] = reverse
    chk.cov['b3_planning_selected_modes'] = sorted({str(getattr(r, 'tsp_mode', None)) for r in rqs})
    if not reverse or not nonzero:
        raise Machinery('planning scenario is vacuous (no Z->A pass or no mode with an offset)')
    return traces


def report_trace_verdicts(chk, traces, verdicts, origin):
    for t in traces:
        v = verdicts[t['name']]
        if not v:
            chk.traces += 1
            continue
        for step, clause in v[:3]:
            e = t['ev'][step - 1]
            chk.violation(f'{origin}|Roadm|{clause}|node={e["node"]["kind"]}|deg={e["deg"]["kind"] if e["deg"]["has"] else "none"}',
                          dict(trace=t['name'], step=step, clause=clause, event=e))


def run(chk):
    t0 = time.time()
    wall = {}

    def lap(name):
        nonlocal t0
        wall[name] = round(time.time() - t0, 1)
        t0 = time.time()
    offsets = 'MCOffsetVecsQuick' if chk.tier == 'quick' else 'MCOffsetVecsFull'
    maxloss = 'MCMaxLossVecsQuick' if chk.tier == 'quick' else 'MCMaxLossVecs'
    # ---- B1
    # ---- B1 + B2 generation in ONE exploration: the clauses are checked as invariants while every case is emitted
    r2 = tlc.run('MC_RoadmLaw', cfg_text=cfg_text(offsets, emit='EmitCross', maxloss=maxloss, keep_clauses=True), timeout=1800,
                 tag='c06-mc')
    chk.add_mc(f'MC_RoadmLaw OffsetVecs={offsets} MaxLossVecs={maxloss} (all clauses + emission of the crossings)', r2)
    chk.exhaustive = True
    if chk.tier == 'thorough':
        head = '\n'.join(ln for ln in cfg_text('MCOffsetVecsQuick').splitlines() if not ln.startswith(('INVARIANT', 'PROPERTY')))
        L.require_witnesses(chk, 'MC_RoadmLaw', head, ['ProbeEqualised', 'ProbeBelow', 'ProbeMixed', 'ProbeRejected',
                                                        'ProbeDegOtherKind', 'ProbeLowerLossRange'], 'c06-probe')
    # ---- B2 generation: crossings and configuration loading
    r3 = tlc.run('MC_RoadmLaw', cfg_text=cfg_text(offsets, load_only=True, emit='EmitLoad', maxloss=maxloss), timeout=600, tag='c06-load')
    chk.add_mc('emit configuration loads', r3)
    if not r2.emitted or not r3.emitted:
        raise Machinery('no case emitted')
    lap('tlc')
    b2_traces = replay_crossings(r2.emitted, chk)
    lap('b2_replay')
    replay_loads(r3.emitted, chk)
    lap('b2_loads')
    # ---- B3
    rng = random.Random(chk.seed)
    traces = shipped_roadm_traces(chk, rng) + planning_traces(chk)
    lap('b3_record')
    verdicts = L.judge(chk, traces, 'c06-trace')
    report_trace_verdicts(chk, traces, verdicts, 'B3')
    v2 = L.judge(chk, b2_traces, 'c06-trace-b2')
    report_trace_verdicts(chk, b2_traces, v2, 'B2trace')
    lap('judge')
    chk.cov['wall_breakdown_s'] = wall
    if traces and traces[0]['ev']:
        chk.sample(dict(kind='B3 ROADM crossing recorded in propagate() and judged by Trace_LineElements',
                        trace=traces[0]['name'], event={k: (v if k != 'ch' else v[:2]) for k, v in traces[0]['ev'][0].items()}))
    chk.assume('per-channel offsets: for crossings inside propagate() the offset of the LAUNCHED request keyed by channel frequency '
               '(user spectrum delta_pdb / request offset), for direct calls the harness-built spectral information; path loss is the roadm-maxloss '
               'configured for the crossed internal path (0 when none)')
    chk.assume('an egress degree that carries settings of two kinds at once is left unjudged (the property does not rank them)')
    chk.assume('B2 inputs: 3 channels (32G/50GHz, 64G/75GHz, 90G/100GHz) on a designed A-B-C line; policy values are the '
               'spec\'s micro-dB integers converted to dBm / mW per GHz by the harness')
    chk.assume('trusted: TLC, the Json module, the unit conversions of harness/line_util.py and harness/record.py')


# ------------------------------------------------------------------------------------------------------ mutants
def _mut_node_despite_degree():
    """the node setting is used although the egress degree has its own"""
    from gnpy.core.elements import Roadm
    Roadm.get_per_degree_power = lambda self, degree, spectral_info: self.get_roadm_target_power(spectral_info=spectral_info)


def _mut_psd_by_slot_width():
    """constant PSD scaled by slot width instead of baud rate"""
    import gnpy.core.elements as E
    from gnpy.core.utils import psd2powerdbm
    orig = E.Roadm.get_roadm_target_power

    def f(self, spectral_info=None):
        if spectral_info and self.target_pch_out_dbm is None and self.target_psd_out_mWperGHz is not None:
            return psd2powerdbm(self.target_psd_out_mWperGHz, spectral_info.slot_width)
        return orig(self, spectral_info)
    E.Roadm.get_roadm_target_power = f


def _mut_offset_ignored():
    import gnpy.core.info as I
    I.SpectralInformation.delta_pdb_per_channel = property(lambda self: np.zeros(self.number_of_channels),
                                                           I.SpectralInformation.delta_pdb_per_channel.fset)


def _mut_boost_below_target():
    """channels below target are boosted to the target (correction dropped)"""
    import gnpy.core.elements as E
    E.calculate_absolute_min_or_zero = lambda x: np.zeros_like(x)


def _mut_maxloss_after_compare():
    """the comparison with the target uses the input power before the path loss"""
    import gnpy.core.elements as E
    L.mutate_source(E.Roadm, 'propagate', 'calculate_absolute_min_or_zero(net_input_pch_dbm - target_power_per_channel)',
                    'calculate_absolute_min_or_zero(input_pch_dbm - target_power_per_channel)')


def _mut_two_policies_accepted():
    """an element carrying two node-level policies is accepted (first one wins)"""
    import gnpy.tools.json_io as J
    orig = J.merge_equalization

    def merge(params, extra_params):
        res = orig(params, extra_params)
        if res is None:
            kinds = [k for k in KEYS.values() if k in params]
            for k in kinds[1:]:
                params.pop(k)
            return {k: v for k, v in extra_params.items() if k not in KEYS.values()}
        return res
    J.merge_equalization = merge


def _mut_maxloss_scalar():
    """one path loss for the whole spectrum (the first range's) instead of the loss of each channel's range"""
    import gnpy.core.elements as E
    orig = E.Roadm.get_impairment

    def get_impairment(self, impairment, frequency_array, from_degree, degree):
        res = orig(self, impairment, frequency_array, from_degree, degree)
        if impairment == 'roadm-maxloss' and res is not None:
            return np.full(len(res), res[0])
        return res
    E.Roadm.get_impairment = get_impairment


def _mut_per_degree_zero_dropped():
    """per-degree targets whose value is falsy (0 dBm) are ignored"""
    import gnpy.core.elements as E
    orig = E.Roadm.__init__

    def init(self, *a, **k):
        orig(self, *a, **k)
        self.per_degree_pch_out_dbm = {d: v for d, v in self.per_degree_pch_out_dbm.items() if v}
    E.Roadm.__init__ = init


MUTANTS = {'node_despite_degree': _mut_node_despite_degree, 'psd_by_slot_width': _mut_psd_by_slot_width,
           'offset_ignored': _mut_offset_ignored, 'boost_below_target': _mut_boost_below_target,
           'maxloss_after_compare': _mut_maxloss_after_compare, 'two_policies_accepted': _mut_two_policies_accepted,
           'maxloss_scalar': _mut_maxloss_scalar, 'per_degree_zero_dropped': _mut_per_degree_zero_dropped}
