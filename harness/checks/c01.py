"""C01 - per-channel power always splits exactly into signal + ASE + NLI; 1/GSNR = 1/OSNR_ASE + 1/SNR_NLI.

B1  TLC explores every behaviour of <= MaxDepth ledger operations of MC_PowerLedger (exact rationals) with
    Conservation, SharesInUnitInterval, GsnrIdentity (on every spectrum there is: the driven ones and the twin
    launched from the same description), MuxDemuxLossless as invariants and DemuxMuxKeepLedger, SourceUntouched,
    TwinUntouched as action properties; every action must occur in the emitted behaviours and a witness run shows
    that a Mux of a spectrum carrying both kinds of noise is reachable.
B2  every behaviour emitted by TLC (exhaustive at the emission depth, sampled deeper) is replayed on a real
    SpectralInformation and driven through its public methods (apply_attenuation_lin/_db, apply_gain_lin/_db,
    add_ase, add_nli, demuxed_/muxed_spectral_information); (pch, signal, ase, nli) of every channel are compared
    after every step with the exact rationals TLC printed.  Launch builds TWO spectra from one description, in
    turn through create_arbitrary_spectral_information (called twice) and through the SpectralInformation
    constructor handed the SAME per-channel arrays twice (channels in frequency order / in another order); the
    second spectrum is never driven and is compared after every step with the model's twin, the spectrum a band
    was extracted from with the model's src.
B3  real propagate() runs on the shipped networks, recorded per element, are judged by Trace_Propagation:
    Conservation and SharesInUnitInterval on every recorded spectrum, GsnrIdentity on the figures the receiving
    Transceiver reports, ReportedFromLedger (they are the figures of the spectrum that arrived).  Besides direct
    propagate() calls: batches of fixed-mode services through the planning pipeline (compute_path_dsjctn,
    compute_path_with_disjunction), bidirectional services in both orientations - the receivers of BOTH directions
    are read from the paths the pipeline returns, when it has returned.
"""
from harness import propagation_util as pu
from harness.ledger_util import BOUNDS, model_check, emitted_behaviours, replay, run_b3

C01_MODEL_CLAUSES = ('INVARIANT TypeOK', 'INVARIANT Conservation', 'INVARIANT SharesInUnitInterval',
                     'INVARIANT GsnrIdentity', 'INVARIANT MuxDemuxLossless', 'INVARIANT SourceIsWhole',
                     'INVARIANT TwinAsLaunched', 'PROPERTY MCDemuxMuxKeepLedger', 'PROPERTY MCSourceUntouched',
                     'PROPERTY MCTwinUntouched')


def run(chk):
    b1_depth, emit_depth, sim_num, sim_depth = BOUNDS[chk.tier]
    model_check(chk, b1_depth, C01_MODEL_CLAUSES, 'c01')
    replay(chk, emitted_behaviours(chk, emit_depth, sim_num, sim_depth, 'c01'))
    run_b3(chk, pu.C01_CLAUSES, 'C01')
    chk.assume('add_nli is given nli <= pch (the first-order estimate stays below the channel power): per-channel '
               'launch power <= +10 dBm in every recorded run; model r = nli/pch < 1')
    chk.assume('B2 compares float64 results with exact rationals at relative 1e-12; B3 shares are rounded to ppb '
               '(sum within 3 ppb), reciprocal figures to 1e-9 (identity within 3 units)')
    chk.assume('trusted base: harness.record.Recording wrappers, the integer projections in harness.propagation_util, TLC')


# ------------------------------------------------------------------------------------------------------ mutants
def _mut_ase_forgets_nli():
    import gnpy.core.info as info

    def add_ase(self, ase):                     # NLI share not rescaled when the total grows
        pch = self.pch + ase
        self._signal_ratio *= self.pch / pch
        self._ase_ratio = (self._ase_ratio * self.pch + ase) / pch
        self.pch = pch
    info.SpectralInformation.add_ase = add_ase


def _mut_nli_forgets_ase():
    import gnpy.core.info as info

    def add_nli(self, nli):                     # ASE share keeps its old value when power moves to NLI
        nli_ratio = nli / self.pch
        self._signal_ratio *= (1 - nli_ratio)
        self._nli_ratio = (self._nli_ratio * (1 - nli_ratio) + nli_ratio)
    info.SpectralInformation.add_nli = add_nli


def _mut_unsorted_ase_ratio():
    import gnpy.core.info as info
    orig = info.SpectralInformation.__init__

    def init(self, *a, **k):                    # one per-channel array not re-ordered with the others (mux of bands)
        orig(self, *a, **k)
        self._ase_ratio = k['ase_ratio']
    info.SpectralInformation.__init__ = init


def _mut_reported_gsnr_is_osnr():
    import gnpy.core.elements as el
    orig = el.Transceiver._calc_snr

    def _calc_snr(self, spectral_info):         # GSNR reported from the wrong ratio
        orig(self, spectral_info)
        self.raw_snr = spectral_info.snr_lin_db
        self.snr = self.raw_snr
    el.Transceiver._calc_snr = _calc_snr


def _mut_nli_added_not_transferred():
    import gnpy.core.info as info

    def add_nli(self, nli):                     # NLI added on top of the channel power in the NLI share only
        nli_ratio = nli / self.pch
        self._nli_ratio = self._nli_ratio + nli_ratio
    info.SpectralInformation.add_nli = add_nli


MUTANTS = {'ase_forgets_nli': _mut_ase_forgets_nli, 'nli_forgets_ase': _mut_nli_forgets_ase,
           'unsorted_ase_ratio': _mut_unsorted_ase_ratio, 'reported_gsnr_is_osnr': _mut_reported_gsnr_is_osnr,
           'nli_added_not_transferred': _mut_nli_added_not_transferred}
