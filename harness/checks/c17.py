"""C17 - designing is repeatable: export, reload and redesign changes nothing; designing twice gives identical output;
auto-design leaves the process-wide SimParams exactly as it found them.

B1  TLC explores spec/DesignLifecycle.tla (Design as CompleteFibre; Pad; Raman Save/SetTemp/Solve/Restore; SetAmp 1;
    SetAmp 2 - Export - Load, 3 rounds + a twin design) on every document x Span setting (family "docs") and on the
    Raman documents x every SimParams setting (family "sims") with Fixpoint, Deterministic, PropagationReproduced,
    DesignLeavesSimParams, SimParamsOnlyTemporarilyChanged as invariants and DesignAsAWholeKeepsSimParams as an
    action property.
B2  (a) the topologies x Span settings enumerated by MC_DesignStructure (C08) and (b) the SimParams settings
    enumerated by MC_DesignLifecycle are replayed into the real code:
    (a) design -> network_to_json -> (JSON text) -> network_from_json -> designed_network, 3 rounds, plus a second
        independent design of the same input, plus a reference propagation on every designed network;
    (b) SimParams.set_params(setting); snapshot; designed_network on Raman topologies; snapshot.
    (c) the "replay" documents of MC_DesignLifecycle (the model's own line: user amplifiers with every pattern of given /
        missing gain, delta_p, output VOA and model; ROADM equalisation flavours mixed between default and degree;
        ROADMs restricting the amplifier models) x design mode go through the same real life cycle as (a).
    The recorded exports / result vectors / snapshots are judged by spec/Trace_Design.tla.
B3  the same life cycle on every shipped network.
"""
import copy
import json
import os
import time

from harness import tlc
from harness import design_util as du
from harness.core import Machinery
from harness.gnpy_util import EX, TD, NONE
from harness.checks import c08

ROUNDS = 3
CLAUSES = ['ExportUnaffectedByPropagation', 'FixpointElements', 'FixpointSettings', 'FixpointConnections', 'Deterministic', 'PropagationReproduced',
           'SimParamsUnchanged']


def lifecycle_cfg(family, emit=False):
    base = (tlc.SPEC / 'MC_DesignLifecycle.cfg').read_text().replace('Family = "docs"', f'Family = "{family}"')
    return base + ('INVARIANT Emit\n' if emit else '')


def emit_cfg(tier):
    """enumeration only: the initial states of MC_DesignStructure (one per topology x settings), no rewriting"""
    base = c08.mc_cfg(tier, emit=True)
    keep = [ln for ln in base.splitlines() if not (ln.startswith('INVARIANT') and 'Emit' not in ln)]
    return '\n'.join(keep) + '\nCONSTRAINT InitialOnly\n'


def _amps_on(net, ends):
    import networkx as nx
    from gnpy.core import elements as E
    by = {n.uid: n for n in net.nodes()}
    p = nx.dijkstra_path(net, by[ends[0]], by[ends[1]])
    return sum(1 for n in p if isinstance(n, (E.Edfa, E.Multiband_amplifier)))


def lifecycle(name, doc, eq, rounds=ROUNDS, sig_prefix='B2', feat='', no_insert=False):
    """record one Design/Export/Load life cycle of the real code; returns (trace or None, violation or None)"""
    from gnpy.tools.json_io import network_to_json
    ev = []
    scales = {}
    ends = None
    doc = cur = du.as_loadable(doc)
    eq = copy.deepcopy(eq)          # one equipment library object per life cycle, shared by all its designs
    stage = 'first-design'
    try:
        for k in range(rounds + 1):
            stage = 'first-design' if k == 0 else f'redesign-round-{k}'
            sim0 = du.sim_snapshot()
            _, _, net, req, _ = du.design(cur, eq, no_insert_edfas=no_insert)
            sim1 = du.sim_snapshot()
            if k == 0:
                ev.append(dict(op='Sim', before=sim0, after=sim1))
            stage = f'export-round-{k}'
            exported = network_to_json(net)
            text = json.dumps(exported)                       # the saved file
            ev.append(dict(op='Export', x=du.project_export(json.loads(text), scales)))
            if k == 0:                                        # designing the same input twice ...
                # ... with the same equipment library having served another design (explicit design power) meanwhile
                stage = 'design-elsewhere'
                du.design(doc, eq, args_power=float(eq['SI']['default'].power_dbm) + 3, no_insert_edfas=no_insert)
                ev.append(dict(op='Elsewhere'))
                stage = 'twin-design'
                _, _, net_b, _, _ = du.design(doc, eq, no_insert_edfas=no_insert)
                ev.append(dict(op='Twin', x=du.project_export(json.loads(json.dumps(network_to_json(net_b))), scales)))
            stage = f'propagation-round-{k}'
            vec, where = du.reference_propagation(net, req, eq, *(ends or (None, None)))
            if vec is not None:
                if ends is None:
                    ends = where[:2]
                # the first comparison is between the in-memory design and its reloaded export: gains were rounded
                # to 1e-6 dB by the export, one micro-dB per amplifier crossed is allowed on top of Tol
                slack = _amps_on(net, ends) if k == 1 else 0
                ev.append(dict(op='Propagate', r=vec, slack=slack))
                if k == 0:      # the network that carried a propagation (possibly saturating amplifiers) is saved again
                    stage = 'reexport-after-propagation'
                    ev.append(dict(op='Reexport', x=du.project_export(json.loads(json.dumps(network_to_json(net))), scales)))
            cur = du.as_loadable(json.loads(text))
    except Machinery:
        raise
    except Exception as e:                                     # noqa
        msg, tb = du.exc_text(e)
        if stage != 'first-design':                            # a crash of the very first design is C08's finding
            return None, (f'{sig_prefix}|exception|{stage}|{type(e).__name__}|{feat}',
                          dict(case=name, exception=msg, traceback=tb, stage=stage))
        return None, None
    return dict(name=name, s=dict(none=1), inp=[], ev=ev, _feat=feat), None


def _b2_one(c):
    return lifecycle(c08.case_name(c), du.render_topology(c), du.equipment_for(c['s']), feat=c17_features(c),
                     no_insert=not c['s'].get('insert', True))


def replay_name(c):
    """name of a replay case: the document as the model writes it"""
    d, r = c['doc'], c['doc']['roadm']

    def slot(a):
        return ''.join(ch for ch, k in (('g', 'gain'), ('p', 'dp'), ('v', 'voa')) if a[k] != NONE) + ('m' if a['known'] else '') or '-'
    return (f"line {d['base']} roadm={r['def']}/{r['deg']}{'/restricted' if r['restrict'] else ''} "
            f"amp1={slot(d['amps'][0])} amp2={slot(d['amps'][1])} {'power' if c['cfg']['powerMode'] else 'gain'}-mode")


def replay_features(c):
    """class of a replay case for violation signatures: what the document generalises + the design mode"""
    r = c['doc']['roadm']
    what = f"equalisation={r['def']}+{r['deg']}" if (r['def'], r['deg']) != ('power', 'none') else \
        'restricted-models' if r['restrict'] else 'user-amplifier-settings'
    return f"line|{what}|{'power' if c['cfg']['powerMode'] else 'gain'}"


def _b2_any(c):
    if 'doc' in c:                  # a document of MC_DesignLifecycle
        return lifecycle(replay_name(c), du.render_line(c['doc']), du.equipment_for(du.line_settings(c['cfg'])),
                         feat=replay_features(c))
    return _b2_one(c)


def _history_export(job):
    """worker (one fresh process per call): design the case's topology with the case's library, after the process
    has - or has not - already designed the same topology with ANOTHER library that defines amplifiers of the same names
    differently; returns the exported document (or the exception)"""
    from gnpy.tools.json_io import network_to_json
    c, history = job
    topo = du.render_topology(c)
    try:
        for lib in history:
            du.design(topo, du.equipment_for(c['s'], library=lib))
        _, _, net, _, _ = du.design(topo, du.equipment_for(c['s']))
        return json.loads(json.dumps(network_to_json(net))), None
    except Machinery:
        raise
    except Exception as e:                                     # noqa
        return None, du.exc_text(e)


def hash_seed_traces(cases, chk, seeds=(1, 2, 3)):
    """Deterministic across interpreter processes: the same case designed in new python processes that only differ by
    their string hash seed (what a user gets when starting the same script several times) must export identically"""
    if not cases:
        return []
    res = du.designs_in_fresh_interpreters(cases, (0,) + tuple(seeds))
    traces = []
    for k, c in enumerate(cases):
        name = c08.case_name(c) + ' @hash-seeds'
        chk.case(name, nontrivial=True)
        docs = [res[s][k] for s in (0,) + tuple(seeds)]
        if any('error' in d for d in docs):
            if not all('error' in d for d in docs):
                chk.violation(f'B2|exception|design-in-another-process|{c17_features(c)}',
                              dict(case=name, results=[d.get('error', 'ok') for d in docs]))
            continue
        scales = {}
        traces.append(dict(name=name, s=dict(none=1), inp=[], _feat='hash-seed|' + c17_features(c),
                           ev=[dict(op='Export', x=du.project_export(docs[0], scales))] +
                              [dict(op='Twin', x=du.project_export(d, scales)) for d in docs[1:]]))
    return traces


def history_traces(cases, chk):
    """Deterministic across process histories: export(design(x, A)) in a fresh process vs in a process that designed
    with library B before; every design runs in its own forked process (maxtasksperchild=1)"""
    import multiprocessing as mp
    jobs = [(c, h) for c in cases for h in ((), ('variant', 'tests-data'))]
    with mp.get_context('fork').Pool(du.n_procs(), maxtasksperchild=1) as pool:
        res = pool.map(_history_export, jobs, chunksize=1)
    traces = []
    for k, c in enumerate(cases):
        (fresh, e1), (after, e2) = res[2 * k], res[2 * k + 1]
        name = c08.case_name(c) + ' @process-history'
        chk.case(name, nontrivial=True)
        if e2 and not e1:
            chk.violation(f'B2|exception|design-after-another-library|{e2[0].split(":")[0]}|{c17_features(c)}',
                          dict(case=name, exception=e2[0], traceback=e2[1]))
        if e1 or e2:
            continue
        scales = {}
        traces.append(dict(name=name, s=dict(none=1), inp=[], _feat='process-history|' + c17_features(c),
                           ev=[dict(op='Export', x=du.project_export(fresh, scales)), dict(op='Elsewhere'),
                               dict(op='Twin', x=du.project_export(after, scales))]))
    return traces


def _b3_one(job):
    from gnpy.tools.json_io import load_equipments_and_configs, load_json
    topo_file, eq_file, rounds, sim = job
    name = f'{topo_file.parent.name}/{topo_file.name}' + ('@raman-flag-on' if sim else '')
    try:
        if sim:                     # the whole life cycle under a non-default simulation-parameter setting
            du.set_sim(sim)
        return lifecycle(name, load_json(topo_file), load_equipments_and_configs(eq_file, [], []), rounds=rounds,
                         sig_prefix=f'B3|{name}')
    finally:
        du.reset_sim()


def chain_kind(c):
    """what a chain is made of, fibre lengths left out except whether the fibre has to be split (>= 95 km) or is a
    very long link: the class of a case for the quick-tier sample of life cycles"""
    out = []
    for e in c['g']:
        if e['t'] in ('Roadm', 'Transceiver'):
            if e.get('o'):
                out.append('roadm+' + e['o'])
            continue
        tag = e['t']
        if e['t'] in ('Fiber', 'RamanFiber'):
            tag += ('>=95' if 95000 <= e['l'] < 400000 else '>=400' if e['l'] >= 400000 else '') + \
                   ('+att' if e.get('ai', 0) not in (0, NONE) else '') + ('+' + e['o'] if e.get('o') else '') + \
                   ('+perfreq' if e.get('ct') else '') + ('+conI' if e['ci'] != NONE else '') + ('+conO' if e['co'] != NONE else '')
        if e['t'] == 'Edfa':
            u = e['u'][0]
            tag += 'zero' if u['gain'] == NONE and u['dp'] == 0 else 'full' if u['gain'] != NONE else \
                'partial' if u['variety'] else 'voa' if u['voa'] != NONE else 'none'
        if e['t'] == 'Multiband_amplifier':
            tag += 'none' if not e['u'] else 'zero' if e['u'][0]['gain'] == NONE else 'full'
        out.append(tag)
    return '-'.join(out) + ('' if c['s'].get('insert', True) else '|noinsert') + \
        (f"|P={c['s']['power']}" if c['s'].get('power') else '')


def settings_l8(c):
    """half fraction (strength 3) of the 16 Span settings: padding, EOL, max_length, mode with even parity"""
    s = c['s']
    return (int(s['padding'] > 0) + int(s['eol'] > 0) + int(s['maxLen'] > 100000) + int(bool(s['powerMode']))) % 2 == 0


def judge(traces, chk, tag, batch=60):
    verdicts = {}
    for k in range(0, len(traces), batch):
        part = traces[k:k + batch]
        data = '\n'.join(json.dumps({a: b for a, b in t.items() if not a.startswith('_')}) for t in part) + '\n'
        # chains of several hundred elements (CORONET) are walked recursively: give the JVM threads a deep stack
        res = tlc.run('Trace_Design', extra_files={'trace.ndjson': data},
                      env={'TRACE_FILE': 'trace.ndjson', 'JAVA_TOOL_OPTIONS': '-Xss512m'},
                      workers=min(4, len(part)), timeout=3000, tag=tag)
        if not res.ok:
            raise Machinery(f'trace validation run failed: {res.error or res.violated}\n{res.out[-2500:]}')
        chk.states += res.distinct
        chk.transitions += res.generated
        for v in res.emitted:
            verdicts[v['name']] = v
    for t in traces:
        v = verdicts.get(t['name'])
        if v is None:
            raise Machinery(f'no verdict for trace {t["name"]}')
        if v['n'] != len(t['ev']):
            raise Machinery(f'trace {t["name"]} consumed {v["n"]}/{len(t["ev"])} events')
    return verdicts


def report(t, v, chk, prefix, feat):
    if not v['viol']:
        chk.traces += 1
        return
    paths = sorted({p for _, p in v['diff']})
    for clause in sorted({c for _, c in v['viol']}):
        steps = sorted(s for s, c in v['viol'] if c == clause)
        sig = f'{prefix}|{clause}|{feat}'
        if clause in ('FixpointSettings', 'Deterministic'):
            sig += '|paths=' + ','.join(paths)
        chk.violation(sig, dict(case=t['name'], clause=clause, steps=steps, differing=v['diff'][:12],
                                events=[e['op'] for e in t['ev']]))


def c17_features(case):
    """class of a generated case for violation signatures: the one feature known to matter, else the design mode"""
    s = case['s']
    if s['eol'] > 0:
        return 'eol>0'
    opts = sorted({e['o'] for e in case['g'] if e.get('o') and e['o'] != 'pmd'})     # user parameters beyond the basic ones
    if opts:
        return '|'.join(f'opt={o}' for o in opts)
    if any(e.get('ai', 0) not in (0, NONE) for e in case['g']):
        return 'user_att_in'
    raman = any(e['t'] == 'RamanFiber' for e in case['g'])
    return ('raman|' if raman else '') + ('multiband|' if s.get('bands', 1) == 2 else '') + \
        ('power' if s['powerMode'] else 'gain')


def run(chk):
    tier = chk.tier
    t0 = time.time()
    # ---- B1
    fam = 'docs' if tier == 'thorough' else 'docsq'
    w = min(int(os.environ.get('VERIF_TLC_WORKERS', '16')), 6)       # small state spaces: more workers only add contention
    r = tlc.run('MC_DesignLifecycle', cfg_text=lifecycle_cfg(fam, emit=True), timeout=3000, tag='c17-docs', workers=w)
    chk.add_mc(f'MC_DesignLifecycle Family={fam} MaxRounds=3', r)
    replay = sorted({json.dumps(x, sort_keys=True): x for x in r.emitted}.values(), key=replay_name)
    if len(replay) < 72:
        raise Machinery(f'expected at least 72 replay documents x modes from TLC, got {len(replay)}')
    r2 = tlc.run('MC_DesignLifecycle', cfg_text=lifecycle_cfg('sims', emit=True), timeout=3000, tag='c17-sims', workers=w)
    chk.add_mc('MC_DesignLifecycle Family=sims (every SimParams setting)', r2)
    chk.exhaustive = True
    sims = list({json.dumps(x, sort_keys=True): x for x in r2.emitted}.values())     # one per setting (printed per initial state)
    if len(sims) < 48:
        raise Machinery(f'expected 48 SimParams settings from TLC, got {len(sims)}')
    chk.cov['t_b1_s'] = round(time.time() - t0, 1)
    # ---- B2 (a): C08's topologies through the life cycle
    r3 = tlc.run('MC_DesignStructure', cfg_text=emit_cfg(tier), timeout=3000, tag='c17-emit', workers=w)
    if not r3.ok or not r3.emitted:
        raise Machinery(f'case enumeration failed: {r3.error}')
    cases = sorted(r3.emitted, key=c08.case_name)
    chk.cov['b2_cases_enumerated'] = len(cases)
    two = [c for c in cases if sum(1 for e in c['g'] if e['t'] == 'Roadm') == 2]
    more = [c for c in cases if sum(1 for e in c['g'] if e['t'] == 'Roadm') > 2]
    stride = 13 if tier == 'quick' else 5         # coprime with the number of Span settings per topology

    def plain(c):     # no user amplifier / attenuator / fibre parameter, no Raman
        return not any(e['t'] in ('Edfa', 'RamanFiber', 'Multiband_amplifier') or e.get('ai', 0) not in (0, NONE)
                       or e.get('o') or e.get('ct') for e in c['g']) and not c['s'].get('power')
    if tier == 'thorough':
        # 2-ROADM shape: every chain kind x every Span setting; larger shapes: every 5th case
        picked = two + more[chk.seed % stride::stride]
    else:
        # quick: TLC enumerated the 2-ROADM shape under the strength-3 half fraction of the settings; the life cycles
        # run under its max_length = 150 km quarter (padding, EOL, mode still pairwise complete; the 80 km maximum only
        # changes how fibres are split, which is C08's subject); Raman life cycles cost ~3 s
        # (6 Raman estimations + 4 Raman propagations): padding 10, EOL 0 only; 1200 km links (2 x 13..15 spans): padding 10
        picked = [c for c in two if c['s']['maxLen'] > 100000]
        picked = [c for c in picked if not any(e['t'] == 'RamanFiber' for e in c['g'])
                  or (c['s']['eol'] == 0 and c['s']['powerMode'] != any(e['t'] == 'Edfa' for e in c['g'])
                      and not chain_kind(c).startswith('RamanFiber-Fiber'))]       # RamanFiber Fiber ~ RamanFiber alone
        picked = [c for c in picked if not any(e['l'] >= 400000 for e in c['g']) or c['s']['padding'] > 0]
        # one chain per kind: chains that differ only in fibre lengths below the maximum behave alike in a life cycle
        # ... under all four settings of the quarter when a user amplifier with a gain or VOA of its own is involved, else
        # under its two EOL = 0 ones
        kinds = {}
        for c in picked:
            if c['s']['eol'] == 0 or any(e['t'] == 'Edfa' and (e['u'][0]['gain'] != NONE or e['u'][0]['voa'] != NONE)
                                         for e in c['g']):
                kinds.setdefault((chain_kind(c), json.dumps(c['s'], sort_keys=True)), c)
        # meshed (triangle) topologies leave the route of the reference propagation to the path computation: every other
        # one under the power-mode / padding 10 / EOL 0 setting, plus every 13th of the other 3-ROADM cases
        mesh = [c for c in more if all(len(e['s']) == 3 for e in c['g'] if e['t'] == 'Roadm')
                and c['s']['powerMode'] and c['s']['padding'] > 0 and c['s']['eol'] == 0]
        picked = list(kinds.values()) + mesh[chk.seed % 2::2] + \
            [c for c in more[chk.seed % stride::stride] if c not in mesh]
    # the EOL drift is a recorded finding; its C+L instances would only add more signatures of it
    picked = [c for c in picked if not (c['s'].get('bands', 1) == 2 and c['s']['eol'] > 0)]
    picked.sort(key=lambda c: not any(e['t'] == 'RamanFiber' for e in c['g']))      # the slow (Raman) life cycles first
    du.reset_sim()
    du.equipment_base('example-data'), du.equipment_base('tests-data'), du.equipment_base('variant')        # parsed once, inherited by the workers
    traces = []
    # (c) the model's own documents join the queue behind the Raman life cycles
    n_raman = sum(1 for c in picked if any(e['t'] == 'RamanFiber' for e in c['g']))
    picked = picked[:n_raman] + replay + picked[n_raman:]
    for c, (tr, viol) in zip(picked, du.parallel_map(_b2_any, picked)):
        chk.case(replay_name(c) if 'doc' in c else c08.case_name(c), nontrivial=tr is not None)
        if viol:
            chk.violation(*viol)
        if tr is not None:
            traces.append(tr)
    chk.cov['b2_lifecycles'] = len(traces)
    chk.cov['b2_replayed_model_documents'] = sum(1 for t in traces if t['name'].startswith('line '))
    chk.cov['t_b2_lifecycles_s'] = round(time.time() - t0, 1)
    # ---- B2 (a'): the same design in processes with different histories (another library used before)
    hist_cases = [c for c in two if c['s']['eol'] == 0 and c['s']['maxLen'] > 100000 and c['s'].get('insert', True)
                  and c['s'].get('bands', 1) == 1 and not c['s'].get('power')      # the other libraries are single band
                  and not any(e['t'] == 'RamanFiber' for e in c['g']) and (tier == 'thorough' or plain(c))]
    if tier == 'quick':
        hk = {}
        for c in hist_cases:
            hk.setdefault(chain_kind(c), c)
        hist_cases = list(hk.values())
    ht = history_traces(hist_cases, chk)
    chk.cov['b2_process_history_pairs'] = len(ht)
    # ---- B2 (a''): multiband sites designed in interpreters started with different string hash seeds
    multi = [c for c in two if c['s'].get('bands', 1) == 2 and (tier == 'thorough' or c['s']['eol'] == 0)]
    st = hash_seed_traces(multi, chk)
    chk.cov['b2_hash_seed_cases'] = len(st)
    chk.cov['t_b2_recorded_s'] = round(time.time() - t0, 1)
    # ---- B2 (b): SimParams settings around the real designed_network on Raman topologies
    sim_traces = sim_runs(sims if tier == 'thorough' else pick_sims(sims, chk.seed), chk)
    chk.cov['b2_simparams_settings'] = len(sim_traces)
    chk.cov['t_sim_s'] = round(time.time() - t0, 1)
    # ---- every B2 trace is judged by Trace_Design (quick: one TLC run for all of them - each run costs a JVM start)
    verdicts = judge(traces + ht + st + sim_traces, chk, 'c17-b2', batch=60 if tier == 'thorough' else 300)
    for t in traces:
        report(t, verdicts[t['name']], chk, 'B2', t['_feat'])
        if len(chk.samples) < 1 and not verdicts[t['name']]['viol'] and 'A' in t['name']:
            chk.sample(dict(kind='B2 life cycle of a TLC-enumerated topology judged by Trace_Design', case=t['name'],
                            events=[e['op'] for e in t['ev']],
                            propagation=[e['r'] for e in t['ev'] if e['op'] == 'Propagate']))
    for t in ht + st:
        report(t, verdicts[t['name']], chk, 'B2', t['_feat'])
    for t in sim_traces:
        report(t, verdicts[t['name']], chk, 'B2sim', t['_feat'])
    chk.sample(dict(kind='B2 SimParams snapshot around designed_network on a Raman topology', name=sim_traces[-1]['name'],
                    before=sim_traces[-1]['ev'][0]['before'], after=sim_traces[-1]['ev'][0]['after']))
    chk.cov['t_b2_judged_s'] = round(time.time() - t0, 1)
    # ---- B3: shipped networks
    pairs = c08.SHIPPED_THOROUGH if tier == 'thorough' else \
        [p for p in c08.SHIPPED_QUICK if p[0].name not in ('Sweden_OpenROADMv4_example_network.json',
                                                           'twohops_roadm_power_test.json', 'LinkforTest.json')]
    jobs = [(a, b, ROUNDS if 'CORONET_Global' not in a.name else 2, None) for a, b in pairs]
    # "every simulation-parameter setting in force when design is invoked": with the Raman flag on the design estimates
    # the SRS tilt of every span; the multiband example (thorough: and the mesh) goes through the life cycle like that
    flag_on = next(s_ for s_ in sorted(sims, key=lambda x: json.dumps(x, sort_keys=True))
                   if s_['flag'] and s_['method'] == 'perturbative' and s_['order'] == 2 and s_['solverRes'] == 2000
                   and s_['nli'] == 'gn_model_analytic' and s_['ncc'] == NONE)
    jobs.append((EX / 'multiband_example_network.json', EX / 'eqpt_config_multiband.json', ROUNDS, flag_on))
    if tier == 'thorough':
        jobs.append((EX / 'meshTopologyExampleV2.json', EX / 'eqpt_config.json', ROUNDS, flag_on))
    t3 = []
    for (a, _, _, sim_), (tr, viol) in zip(jobs, du.parallel_map(_b3_one, jobs)):
        chk.case(f'B3:{a.parent.name}/{a.name}' + ('@raman-flag-on' if sim_ else ''), nontrivial=tr is not None)
        if viol:
            chk.violation(*viol)
        if tr is not None:
            t3.append(tr)
    chk.cov['t_b3_run_s'] = round(time.time() - t0, 1)
    v3 = judge(t3, chk, 'c17-b3', batch=4)
    for t in t3:
        report(t, v3[t['name']], chk, f'B3|{t["name"]}', '')
    chk.cov['b3_networks'] = len(t3)
    chk.sample(dict(kind='B3 life cycle of a shipped network', network=t3[0]['name'], events=[e['op'] for e in t3[0]['ev']],
                    propagation=[e['r'] for e in t3[0]['ev'] if e['op'] == 'Propagate'], verdict=v3[t3[0]['name']]['viol']))
    chk.cov['clauses'] = CLAUSES
    chk.cov['rule'] = ('cases = life cycles (design, twin design, 3 x export/reload/redesign, 4 reference propagations) of '
                       'TLC-enumerated topologies x Span settings, of the documents of the life-cycle model itself and of the shipped networks, plus SimParams settings '
                       'enumerated by TLC replayed around designed_network on Raman topologies; non-trivial = the life '
                       'cycle ran to the end (or a SimParams replay); distinct by chain composition + settings / file / '
                       'SimParams record')
    chk.cov['tolerance_udb'] = 10
    chk.cov['measured_max_export_deviation_udb'] = measured(traces + t3, 'Export')
    chk.cov['measured_max_propagation_deviation_udb'] = measured(traces + t3, 'Propagate')
    chk.assume('domain: the topologies and Span settings enumerated for C08 (spec/MC_DesignStructure.tla); thorough: every '
               '2-ROADM case and every 5th larger one; quick: one life cycle per chain kind under the 150 km quarter of the '
               'settings (two EOL = 0 settings when no user gain/VOA is involved), every other triangle, few Raman '
               'chains; exports pass through JSON text; one deep-copied equipment object per life cycle')
    chk.assume('replayed model documents (MC_DesignLifecycle.MCReplay): trx A - roadm A - Edfa - 80 km fibre - Edfa - roadm B - '
               'trx B, roadm A with a second degree; amplifiers with every pattern of given / missing gain_target 18 dB, '
               'delta_p 1 dB, out_voa 2 dB, type_variety std_medium_gain (quick: every pattern at either amplifier, thorough: '
               'every pair); roadm A default x per-degree equalisation in power / mW per GHz / mW per slot width; ROADM '
               'restrictions to std_low_gain (gain-limited power reduction); padding 10 dB, EOL 0, both design modes')
    chk.assume('twin designs: (1) same process after a design with args_power on the same library object, (2) a new '
               'forked process that first designed with other libraries defining the same amplifier names, (3) new '
               'interpreters with PYTHONHASHSEED 1, 2, 3 (multiband cases)')
    chk.assume('export comparison: same elements (uid, type), same string leaves, numeric leaves within 10 micro units '
               '(micro-dB for every dB quantity), same connections; the twin design must be identical')
    chk.assume('reference propagation: SI comb between the first connected transceiver pair (route left to the path '
               'computation), GSNR/OSNR/power/PMD/CD/latency/PDL of first, middle, last channel; d1 vs reloaded d2 is allowed 1 micro-dB per amplifier crossed on top of 10 '
               '(the export rounds gains to 1e-6 dB: <= 0.5 micro-dB each), later rounds 10 micro-dB')
    chk.assume('SimParams snapshots compare flag, method, order, both resolutions, NLI method, tolerances, '
               'computed_channels, computed_number_of_channels by value')
    chk.cov['wall_s_python'] = round(time.time() - t0, 1)


def measured(traces, op):
    """largest observed difference between consecutive exports / result vectors among traces (for the evidence)"""
    worst = 0
    for t in traces:
        prev = None
        for e in t['ev']:
            if e['op'] != op:
                continue
            if op == 'Propagate':
                if prev is not None and len(prev) == len(e['r']):
                    d = max((abs(a - b) for a, b in zip(prev, e['r'])), default=0)
                    if d <= 50:
                        worst = max(worst, d)
                prev = e['r']
            else:
                if prev is not None and len(prev['el']) == len(e['x']['el']):
                    for a, b in zip(prev['el'], e['x']['el']):
                        if [p for p, _ in a['nums']] == [p for p, _ in b['nums']]:
                            d = max((abs(x[1] - y[1]) for x, y in zip(a['nums'], b['nums'])), default=0)
                            if d <= 50:
                                worst = max(worst, d)
                prev = e['x']
    return worst


def pick_sims(sims, seed):
    """quick tier: 6 of the 48 settings, every value of every dimension present"""
    key = lambda s: (s['flag'], s['method'], s['order'], s['resultRes'], s['nli'], s['ncc'])   # noqa
    srt = sorted(sims, key=key)
    return srt[seed % 8::8]


RAMAN_LINE = {'g': None}


def raman_b2_topology():
    """2-ROADM topology Fiber RamanFiber (as enumerated for C08): the amplifier in front of the Raman fibre is left to
    the design, which therefore estimates the Raman gain both before and after the input power is known"""
    F = lambda n, s: dict(n=n, t='Fiber', l=80000, c=200, v='SSMF', ci=NONE, co=NONE, ai=0, lo=0, u=[], s=s)   # noqa
    g = [dict(n='roadm A', t='Roadm', l=0, c=0, v='', ci=NONE, co=NONE, ai=NONE, lo=0, u=[], s=[3, 5]),
         dict(n='roadm B', t='Roadm', l=0, c=0, v='', ci=NONE, co=NONE, ai=NONE, lo=0, u=[], s=[4, 7]),
         dict(n='trx A', t='Transceiver', l=0, c=0, v='', ci=NONE, co=NONE, ai=NONE, lo=0, u=[], s=[1]),
         dict(n='trx B', t='Transceiver', l=0, c=0, v='', ci=NONE, co=NONE, ai=NONE, lo=0, u=[], s=[2]),
         F('Fiber AB1', [6]),
         dict(n='RamanFiber AB2', t='RamanFiber', l=80000, c=200, v='SSMF', ci=500000, co=500000, ai=0, lo=0, u=[], s=[2]),
         F('Fiber BA1', [1])]
    return dict(g=g, s=dict(padding=10000000, eol=0, maxLen=150000, powerMode=True, conIn=300000, conOut=400000))


def sim_runs(sims, chk):
    from gnpy.tools.json_io import load_json, load_equipments_and_configs
    eq = load_equipments_and_configs(EX / 'eqpt_config.json', [], [])
    raman_doc = load_json(EX / 'raman_edfa_example_network.json')
    b2 = raman_b2_topology()
    b2_doc, b2_eq = du.render_topology(b2), du.equipment_for(b2['s'])
    out = []
    try:
        for k, sp in enumerate(sims):
            ev = []
            for which, doc, e in (('raman_edfa_example', raman_doc, eq), ('F-R', b2_doc, b2_eq)):
                if which == 'F-R' and k % 2:
                    continue                                   # the 2-ROADM Raman line on every other setting
                du.set_sim(sp)
                before = du.sim_snapshot()
                try:
                    du.design(doc, e)
                except Machinery:
                    raise
                except Exception as ex:                        # noqa
                    msg, tb = du.exc_text(ex)
                    chk.violation(f'B2sim|exception|{type(ex).__name__}|{which}', dict(sim=sp, exception=msg, traceback=tb))
                    continue
                ev.append(dict(op='Sim', before=before, after=du.sim_snapshot()))
            name = 'sim ' + json.dumps(sp, sort_keys=True)
            chk.case(name, nontrivial=True)
            if ev:
                out.append(dict(name=name, s=dict(none=1), inp=[], ev=ev, _feat=f"flag={int(sp['flag'])}"))
    finally:
        du.reset_sim()
    return out


# ------------------------------------------------------------------------------------------------------- mutants
def _mut_restore_raman_only():
    """estimate_raman_gain restores raman_params but not nli_params"""
    import gnpy.core.network as nw
    from gnpy.core.parameters import SimParams
    orig = nw.estimate_raman_gain

    def estimate_raman_gain(node, equipment, power_dbm):
        nli_before = SimParams._shared_dict['nli_params']
        first = isinstance(node, nw.elements.RamanFiber) and not hasattr(node, 'estimated_gain')
        res = orig(node, equipment, power_dbm)
        if first and hasattr(node, 'estimated_gain'):
            SimParams.set_params({'raman_params': SimParams._shared_dict['raman_params'].to_json()})
            del nli_before
        return res
    nw.estimate_raman_gain = estimate_raman_gain


def _mut_no_restore():
    """estimate_raman_gain returns before restoring SimParams (early return on the first computation)"""
    import gnpy.core.network as nw
    from gnpy.core.parameters import SimParams
    orig = nw.estimate_raman_gain

    def estimate_raman_gain(node, equipment, power_dbm):
        first = isinstance(node, nw.elements.RamanFiber) and not hasattr(node, 'estimated_gain')
        res = orig(node, equipment, power_dbm)
        if first and hasattr(node, 'estimated_gain'):
            SimParams.set_params({"raman_params": {"flag": True, "result_spatial_resolution": 50e3,
                                                   "solver_spatial_resolution": 100}})
        return res
    nw.estimate_raman_gain = estimate_raman_gain


def _mut_export_drops_voa():
    """Edfa.to_json exports out_voa as null: on reload the automatic VOA is added to delta_p a second time"""
    from gnpy.core import elements
    orig = elements.Edfa.to_json.fget

    def to_json(self):
        d = orig(self)
        d['operational']['out_voa'] = None
        return d
    elements.Edfa.to_json = property(to_json)


def _mut_export_rounds_gain_coarsely():
    """Edfa.to_json rounds gain_target to 2 decimals: a reloaded gain-mode design no longer reproduces the propagation"""
    from gnpy.core import elements
    orig = elements.Edfa.to_json.fget

    def to_json(self):
        d = orig(self)
        if self.effective_gain is not None:
            d['operational']['gain_target'] = round(self.effective_gain + 0.004, 2)
        return d
    elements.Edfa.to_json = property(to_json)


def _mut_counter_in_uid():
    """added amplifiers are named with a process-wide counter: a second design of the same input differs"""
    import itertools
    import gnpy.core.network as nw
    from gnpy.core import elements
    counter = itertools.count()
    orig = nw.add_inline_amplifier

    def add_inline_amplifier(network, fiber):
        before = set(network.nodes())
        orig(network, fiber)
        for n in set(network.nodes()) - before:
            if isinstance(n, elements.Edfa):
                n.uid = f'{n.uid}#{next(counter)}'
    nw.add_inline_amplifier = add_inline_amplifier


def _mut_export_delta_p_without_voa():
    """Edfa.to_json exports delta_p net of the output VOA while design expects it to include the VOA"""
    from gnpy.core import elements
    orig = elements.Edfa.to_json.fget

    def to_json(self):
        d = orig(self)
        if self.delta_p is not None and self.out_voa:
            d['operational']['delta_p'] = self.delta_p - self.out_voa
        return d
    elements.Edfa.to_json = property(to_json)


def _mut_args_power_kept_in_library():
    """designed_network keeps an explicit design power in the shared equipment library (SI power_dbm)"""
    import gnpy.tools.worker_utils as wu
    orig = wu.designed_network

    def designed_network(equipment, network, *a, **k):
        res = orig(equipment, network, *a, **k)
        if k.get('args_power'):
            equipment['SI']['default'].power_dbm = float(k['args_power'])
        return res
    wu.designed_network = designed_network


MUTANTS = {'args_power_kept_in_library': _mut_args_power_kept_in_library, 'restore_raman_only': _mut_restore_raman_only, 'no_restore': _mut_no_restore,
           'export_drops_voa': _mut_export_drops_voa, 'export_rounds_gain_coarsely': _mut_export_rounds_gain_coarsely,
           'counter_in_uid': _mut_counter_in_uid, 'export_delta_p_without_voa': _mut_export_delta_p_without_voa}
