"""C19 - the reported response states exactly what was computed for each request; the CSV export is consistent.

B1  spec/PlanningOps.tla states, for an outcome record [members, reason, bidir, route, type, mode, nm, rx, rxRev, ...],
    the response entry (ReportEntry, constructive) and every clause of the property as a named predicate, the CSV row
    (CsvRow) and its clauses.  MC_PlanReport enumerates served + every blocking reason x bidir x aggregated x 1,2 slots
    x lowest SNR below / on / above the margin-inclusive threshold and checks every clause as an invariant (plus
    PassFlagMeaning, ReverseIsNotForward); MC_Planning checks the report of each of the 325 histories.
B2  every outcome TLC enumerated is replayed into the REAL ResultElement.json (real PathRequest, real Transceiver
    receivers holding the model's figures) and the model's entry into the REAL jsontocsv; the projections must equal
    the entry / row TLC computed.
B3  real planning() runs - crafted batches on mesh V2 (+ an unreachable island) realising every outcome class, seeded
    random batches, the shipped service files and some of C16's pool histories - are recorded (request table as
    written, route at routing time, receivers at the return of each propagation, selected mode, N/M at the return of
    the assignment, response JSON, CSV) and judged clause by clause by Trace_Planning.
"""
import copy
import random

import numpy as np

from harness import tlc
from harness.core import Machinery
from harness.gnpy_util import EX, TD, NONE, INF
from harness import planning_util as pu

CLAUSES19 = {'ReasonIsFirstRaised', 'IdIsJoinedId', 'BandwidthIsSum', 'AggregatedOnlyIdentical', 'ServedHasPathProperties', 'NoPathOnlyReason',
             'BlockedCarriesReason', 'RouteHopByHop', 'LabelsEqualNM', 'NoLabelWhenBlocked', 'TransponderTypeAndMode',
             'ObjectOrder', 'MetricsEqualReceiver', 'ReverseIffBidir', 'ReverseFromReverseReceiver',
             'CsvNoPathOnlyReason', 'CsvStatesSame', 'CsvLibraryFigures', 'CsvPassFlag', 'CsvBandwidthAndCost',
             'CsvOneRowPerEntry', 'OneEntryPerRequest'}
ALL_REASONS = ['NO_PATH', 'NO_PATH_WITH_CONSTRAINT', 'NO_FEASIBLE_BAUDRATE_WITH_SPACING', 'NO_FEASIBLE_MODE',
               'MODE_NOT_FEASIBLE', 'NO_SPECTRUM', 'NOT_ENOUGH_RESERVED_SPECTRUM']


# ------------------------------------------------------------------------------------------------------------- B2
def unc(c):
    """centi-units -> what a response document holds"""
    if c == NONE:
        return 'not evaluated'
    if c >= INF:
        return 'Infinity'
    return c / 100


def metric_doc(m):
    return [{'metric-type': pu.JSON_METRIC[k], 'accumulative-value': unc(m[k])} for k in pu.METRIC_KEYS] + \
        [{'metric-type': 'reference_power', 'accumulative-value': m['power'] * 1e-9},
         {'metric-type': 'path_bandwidth', 'accumulative-value': m['bw'] * 1e7}]


def entry_doc(e):
    """the model's entry as a response document (input of the real jsontocsv)"""
    d = {'response-id': pu.JOIN.join(e['ids'])}
    if not e['hasProps']:
        d['no-path'] = {'no-path': e['reason']}
        return d
    objs = []
    for o in e['objs']:
        if o['k'] == 'hop':
            body = {'num-unnum-hop': {'node-id': o['uid'], 'link-tp-id': o['uid']}}
        elif o['k'] == 'label':
            body = {'label-hop': [{'N': n, 'M': m} for n, m in o['nm']]}
        else:
            body = {'transponder': {'transponder-type': o['type'], 'transponder-mode': o['mode']}}
        objs.append({'path-route-object': dict(index=o['idx'], **body)})
    props = {'path-metric': metric_doc(e['metric'])}
    if e['hasZA']:
        props['z-a-path-metric'] = metric_doc(e['za'])
    props['path-route-objects'] = objs
    if e['reason']:
        d['no-path'] = {'no-path': e['reason'], 'path-properties': props}
    else:
        d['path-properties'] = props
    return d


def receiver(uid, rx):
    """a real Transceiver holding per-carrier figures whose mean / min / max are the model's (micro-dB)"""
    from gnpy.core.elements import Transceiver
    t = Transceiver(uid=uid)
    if rx['snr01'] == NONE:
        return t
    mn, mx, mean = rx['snrmin'] / 1e6, rx['snrmax'] / 1e6, rx['snr01'] / 1e6
    t.snr_01nm = np.array([mn, mx, 3 * mean - mn - mx])
    t.snr = np.full(3, rx['snrbw'] / 1e6)
    t.osnr_ase = np.full(3, rx['osnrbw'] / 1e6)
    t.osnr_ase_01nm = np.full(3, rx['osnr01'] / 1e6)
    # an infinite mean: one carrier within the tolerance, the others beyond it (the general case of "infinite")
    t.penalties = {k: (np.array([0.3, np.inf, np.inf]) if rx[s] >= INF else np.full(3, rx[s] / 1e6))
                   for s, k in (('pdl', 'pdl'), ('cd', 'chromatic_dispersion'), ('pmd', 'pmd')) if rx[s] != NONE}
    return t


def real_entry(o, eq):
    """outcome -> real PathRequest + real element path -> ResultElement.json (projected)"""
    from gnpy.core.elements import Fused
    from gnpy.tools.json_io import requests_from_json
    from gnpy.topology.request import ResultElement
    q = requests_from_json({'path-request': [pu.rq('x', 'A', 'B', typ=o['type'], mode=o['mode'], bidir=o['bidir'])]}, eq)[0]
    q.request_id = pu.JOIN.join(m['id'] for m in o['members'])
    q.path_bandwidth = sum(m['bw'] for m in o['members']) * 1e7
    q.power = o['power'] * 1e-9
    if o['reason']:
        q.blocking_reason = o['reason']
        q.N = q.M = None
    else:
        q.N, q.M = [n for n, _ in o['nm']], [m for _, m in o['nm']]

    def path(route, rx):
        if not route:
            return []
        return [receiver(route[0], pu.NO_RX)] + [Fused(uid=u, params={'loss': 1}) for u in route[1:-1]] + \
            [receiver(route[-1], rx)]
    fwd = path(o['route'], o['rx'])
    rev = path(list(reversed(o['route'])), o['rxRev']) if o['hasRev'] else []
    return pu.proj_entry(ResultElement(q, fwd, rev).json)


def first_diff(a, b, prefix=''):
    if isinstance(a, dict) and isinstance(b, dict):
        for k in sorted(set(a) | set(b)):
            if a.get(k) != b.get(k):
                return first_diff(a.get(k), b.get(k), f'{prefix}.{k}')
    return prefix.lstrip('.').split('.')[0] + ('.' + prefix.lstrip('.').split('.')[1] if prefix.count('.') > 1 else '')


def odesc(o):
    return (f'{o["reason"] or "served"}|{"bidir" if o["bidir"] else "unidir"}|'
            f'{"aggregated" if len(o["members"]) > 1 else "single"}|slots={len(o["nm"])}')


def b2(chk, emitted):
    libs = [pu.bench_equipment('ex'), pu.bench_equipment('ex-op')]      # same type / mode names, different figures
    mis = [pu.mode_info(q, 'Voyager', 'mode 1') for q in libs]
    if any(e['o']['mi'] not in mis for e in emitted) or mis[0] == mis[1]:
        raise Machinery(f'MC_PlanReport.MI differs from the library figures of Voyager mode 1: {mis}')
    seen = set()
    # the exports alternate between the two libraries in one process
    by_lib = [[x for x in emitted if x['o']['mi'] == m] for m in mis]
    order = [x for pair in zip(*by_lib) for x in pair] + by_lib[0][len(by_lib[1]):] + by_lib[1][len(by_lib[0]):]
    for x in order:
        o, e, row = x['o'], x['e'], x['row']
        eq = libs[mis.index(o['mi'])]
        key = odesc(o) + f'|minsnr={o["rx"]["snrmin"]}|lib={mis.index(o["mi"])}'
        chk.case(key, nontrivial=o['reason'] not in ('NO_PATH', 'NO_PATH_WITH_CONSTRAINT',
                                                     'NO_FEASIBLE_BAUDRATE_WITH_SPACING', 'NO_COMPUTED_SNR'))
        seen.add((o['reason'], o['bidir'], len(o['members']), len(o['nm'])))
        # real ResultElement.json against the entry TLC computed
        try:
            got = real_entry(o, eq)
            got.pop('idstr')
            if got != e:
                chk.violation(f'B2|json|{odesc(o)}|{first_diff(e, got)}', dict(outcome=o, model=e, code=got))
            else:
                chk.traces += 1
        except Exception as ex:                                                  # noqa
            chk.violation(f'B2|json|{odesc(o)}|{type(ex).__name__}', dict(outcome=o, exception=str(ex)))
        # real jsontocsv on the model's entry against the row TLC computed
        try:
            rows = pu.csv_rows({'response': [entry_doc(e)]}, eq)
            got = rows[0]
            if got.pop('idstr') != pu.JOIN.join(e['ids']) or got != row:
                chk.violation(f'B2|csv|{odesc(o)}|{first_diff(row, got)}', dict(outcome=o, model=row, code=got))
            else:
                chk.traces += 1
        except Exception as ex:                                                  # noqa
            chk.violation(f'B2|csv|{odesc(o)}|{type(ex).__name__}', dict(outcome=o, exception=str(ex)))
    # vacuity: every class of the property's quantifier was enumerated
    for r in [''] + ALL_REASONS + ['NO_COMPUTED_SNR']:
        if not any(s[0] == r for s in seen):
            raise Machinery(f'vacuity: no outcome with reason {r!r} enumerated')
    if not ({(True, 2, 2), (False, 1, 1), (True, 1, 2), (False, 2, 1)} <= {(s[1], s[2], s[3]) for s in seen if s[0] == ''}):
        raise Machinery('vacuity: served x bidir x aggregated x slots not fully enumerated')
    if len(chk.samples) < 1:
        x = next(x for x in emitted if x['o']['reason'] == 'NO_SPECTRUM' and x['o']['bidir'])
        chk.sample(dict(kind='B2 outcome -> real ResultElement.json / jsontocsv vs the entry and row computed by TLC',
                        outcome=odesc(x['o']), row=x['row']))
    chk.cov['b2_outcomes'] = len(emitted)


# ------------------------------------------------------------------------------------------------------------- B3
def crafted():
    """batches on meshV2+island realising every outcome class"""
    rq = pu.rq
    main = [
        rq('nopath', 'Lannion_CAS', 'Island'),
        rq('constr', 'Lannion_CAS', 'Lorient_KMA', route=['roadm Vannes_KBE', 'roadm Brest_KLA', 'roadm Vannes_KBE']),
        rq('nobaud', 'Lannion_CAS', 'Lorient_KMA', mode=None, spacing=30e9),
        rq('nomode', 'Lannion_CAS', 'Lorient_KMA', typ='VerifHard', mode=None, spacing=75e9, bidir=True),
        rq('modenf', 'Brest_KLA', 'Rennes_STA', typ='VerifHard', mode='h1'),
        rq('modenf-bi', 'Vannes_KBE', 'Lannion_CAS', typ='Voyager', mode='mode 2', spacing=75e9, bidir=True),
        rq('sat', 'Brest_KLA', 'Rennes_STA', typ='VerifDense', mode='d1', spacing=25e9, bw=200e9),
        rq('fixA', 'Lannion_CAS', 'Lorient_KMA', slots=[(0, 8)], bw=200e9),
        rq('fixB', 'Lorient_KMA', 'Lannion_CAS', slots=[(4, 8)], bw=200e9, bidir=True),
        rq('notenough', 'Lannion_CAS', 'Vannes_KBE', mode=None, slots=[(None, 4)], bw=900e9),
        rq('agg1', 'Rennes_STA', 'Vannes_KBE', bw=100e9, bidir=True),
        rq('agg2', 'Rennes_STA', 'Vannes_KBE', bw=300e9, bidir=True),
        rq('agg3', 'Rennes_STA', 'Vannes_KBE', bw=200e9, bidir=True),
        rq('multi', 'Lannion_CAS', 'Brest_KLA', slots=[(100, 4), (120, 8)], bw=300e9),
        rq('multi-bi', 'Brest_KLA', 'Vannes_KBE', typ='vendorA_trx-type1', mode='mode 1', slots=[(40, 4), (None, 4), (60, 4)],
           bw=300e9, bidir=True, power=0.002),
        rq('auto', 'Lannion_CAS', 'Brest_KLA', mode=None, spacing=75e9, bw=300e9, bidir=True),
        rq('auto50', 'Rennes_STA', 'Lorient_KMA', mode=None, spacing=62.5e9, bw=500e9, power=0.0005),
        rq('loose', 'Brest_KLA', 'Rennes_STA', route=['roadm Vannes_KBE'], strict=False, bw=100e9),
        # CD tolerance ending inside the per-carrier spread of the route: infinite penalty for part of the carriers
        rq('edge', 'Lannion_CAS', 'Lorient_KMA', typ='VerifEdge', mode='e1', bidir=True),
        rq('edge-ok', 'Vannes_KBE', 'Lorient_KMA', typ='VerifEdge', mode='e1'),
    ]
    agg_blocked = [
        rq('b1', 'Lannion_CAS', 'Vannes_KBE', typ='VerifHard', mode='h1', bw=100e9, bidir=True),
        rq('b2', 'Lannion_CAS', 'Vannes_KBE', typ='VerifHard', mode='h1', bw=200e9, bidir=True),
        rq('c1', 'Lannion_CAS', 'Island', bw=100e9),
        rq('c2', 'Lannion_CAS', 'Island', bw=200e9),
        rq('s1', 'Brest_KLA', 'Lorient_KMA', slots=[(0, 4)], bw=100e9),
        rq('s2', 'Brest_KLA', 'Lorient_KMA', slots=[(2, 4)], bw=100e9),
    ]
    mixed = [
        rq('mix1', 'Rennes_STA', 'Brest_KLA', bw=100e9, bidir=True),
        rq('mix2', 'Rennes_STA', 'Brest_KLA', bw=300e9, bidir=False),
        rq('mix3', 'Vannes_KBE', 'Brest_KLA', bw=100e9, bidir=False),
        rq('mix4', 'Vannes_KBE', 'Brest_KLA', bw=300e9, bidir=True),
    ]
    # ids longer than any table column: UUID-like ids sharing a long prefix, identical requests whose joined id is long
    long_ids = [
        rq('service-2f1c9a7e-4b0d-4c6e-9a51-00000000000a', 'Lannion_CAS', 'Lorient_KMA', bw=100e9),
        rq('service-2f1c9a7e-4b0d-4c6e-9a51-00000000000b', 'Lannion_CAS', 'Vannes_KBE', bw=200e9, bidir=True),
        rq('customer-north-0001', 'Rennes_STA', 'Vannes_KBE', bw=100e9),
        rq('customer-north-0002', 'Rennes_STA', 'Vannes_KBE', bw=300e9),
        rq('customer-north-0003', 'Rennes_STA', 'Vannes_KBE', bw=200e9),
        rq('service-2f1c9a7e-4b0d-4c6e-9a51-00000000000c', 'Lannion_CAS', 'Island'),
    ]
    return [('crafted:every-outcome', main), ('crafted:long-ids', long_ids), ('crafted:every-outcome-reversed', list(reversed(main))),
            ('crafted:aggregated-blocked', agg_blocked), ('crafted:aggregated-mixed-bidir', mixed)]


def b3(chk):
    from gnpy.tools.json_io import load_gnpy_json
    rng = random.Random(chk.seed + 19)
    jobs = [('meshV2+island', name, {'path-request': reqs}) for name, reqs in crafted()]
    # the same batch exported under an operator's library (same type / mode names, other thresholds and costs)
    jobs.insert(1, ('meshV2+island%op', 'crafted:every-outcome:operator-library', {'path-request': crafted()[0][1]}))
    nrand = 6 if chk.tier == 'quick' else 240
    for b in range(nrand):
        jobs.append(('meshV2+island', f'seeded:{b}', {'path-request': pu.loadable('meshV2+island', pu.random_batch(rng, 'meshV2+island', f'q{b}-', 12))}))
    for b in range(nrand // 3):
        jobs.append(('testTopology', f'seeded-tt:{b}',
                     {'path-request': pu.loadable('testTopology', pu.random_batch(rng, 'testTopology', f't{b}-', 10))}))
    for bench in (['meshV2+island'] if chk.tier == 'quick' else ['meshV2+island', 'testTopology']):
        for label, reqs in pu.near_identical(bench):
            jobs.append((bench, f'{label}@{bench}', {'path-request': reqs}))
            jobs.append((bench, f'{label}-reversed@{bench}', {'path-request': list(reversed(reqs))}))
    jobs.append(('meshV2', 'shipped:meshV2_services', load_gnpy_json(EX / 'meshTopologyExampleV2_services.json')))
    jobs.append(('testTopology', 'shipped:testTopology_testservices', load_gnpy_json(TD / 'testTopology_testservices.json')))
    if chk.tier == 'thorough':
        jobs.append(('CORONET', 'shipped:CORONET_services', load_gnpy_json(TD / 'CORONET_services.json')))
    # some of C16's pool histories
    from harness.checks import c16
    p = c16.pool('meshV2')
    p['slot']['path-constraints']['te-bandwidth']['effective-freq-slot'] = [{'N': -284, 'M': 4}]
    for order in (['dense', 'sat', 'slot', 'badmode', 'nopath'], ['slot', 'nopath', 'sat', 'dense'], ['badmode', 'dense', 'slot']):
        jobs.append(('meshV2', 'pool:' + '>'.join(order), {'path-request': [copy.deepcopy(p[c]) for c in order]}))
    # the command-line entry point (gnpy-path-request ... -o file): the documents it saves are judged like the others
    jobs.insert(2, ('meshV2+island', 'crafted:long-ids:command-line', {'path-request': crafted()[1][1]}))
    jobs.insert(3, ('meshV2+island', 'crafted:every-outcome:command-line', {'path-request': crafted()[0][1]}))
    traces, runs = [], {}
    for bench, name, data in jobs:
        run = pu.run_batch(bench, data, name, via='cli' if name.endswith(':command-line') else 'json')
        chk.case(name, nontrivial=True)
        if run.exc:
            chk.violation(f'B3|exception-in-planning-or-report|{name.split(":")[0]}|{run.exc.split(":")[0]}',
                          dict(trace=name, exception=run.exc, tb=run.tb, requests=data['path-request']))
            continue
        if run.csv_exc:
            chk.violation(f'B3|exception-in-jsontocsv|{name.split(":")[0]}|{run.csv_exc.split(":")[0]}',
                          dict(trace=name, exception=run.csv_exc))
        if not run.same_writer:
            chk.violation('B3|cli-writer-differs-from-results_to_json', dict(trace=name))
        traces.append(pu.trace_of(run, j19=True))
        runs[name] = run
    verdicts = pu.judge(traces, chk, 'c19-b3')
    seen_reason, feat = set(), dict(bidir=0, aggregated=0, multislot=0, bidir_blocked=0, aggregated_blocked=0, entries=0,
                                    partly_infinite_penalty=0)
    for name, viol in verdicts.items():
        run = runs[name]
        for ent in run.entries:
            o, e = ent['o'], ent['e']
            seen_reason.add(o['reason'])
            feat['entries'] += 1
            # the classes are counted on what was ASKED (the request as written) and what was COMPUTED (the recorder saw
            # the reverse direction propagated) - never on what the response states, which is what is being judged
            feat['bidir'] += bool(o['bidir'] and o['hasRev'] and not o['reason'])
            feat['bidir_blocked'] += bool(o['bidir'] and o['hasRev'] and o['reason'])
            feat['aggregated'] += len(e['ids']) > 1 and not o['reason']
            feat['aggregated_blocked'] += len(e['ids']) > 1 and bool(o['reason'])
            feat['multislot'] += len(o['nm']) > 1
            feat['partly_infinite_penalty'] += bool(o['rx'].get('part'))
        if not viol:
            chk.traces += 1
        for step, clause in viol:
            if clause not in CLAUSES19 and clause != 'NetworkFrozen':
                continue
            if clause == 'NetworkFrozen':
                continue                                  # C16's clause, judged there
            ent = run.entries[step - 1] if step <= len(run.entries) else None
            if ent is None:
                sig = f'B3|{clause}|batch'
            else:
                o, e = ent['o'], ent['e']
                mixed = o['bidir'] != o['allbidir']
                sig = (f'B3|{clause}|{o["reason"] or "served"}|{"bidir" if o["bidir"] else "unidir"}|'
                       f'{"aggregated" if len(e["ids"]) > 1 else "single"}' + ('-mixed-bidir' if mixed else '') +
                       f'|{"auto" if o["auto"] else "forced"}-mode|slots={min(len(o["nm"]), 2)}')
                if clause == 'ReverseIffBidir' and mixed:
                    sig = 'B3|ReverseIffBidir|aggregated-mixed-bidir'
            chk.violation(sig, dict(trace=name, step=step, clause=clause, entry=ent, requests=run.data['path-request']))
    missing = [r for r in [''] + ALL_REASONS if r not in seen_reason]
    if missing or not all(feat[k] for k in ('bidir', 'aggregated', 'multislot', 'bidir_blocked', 'aggregated_blocked',
                                              'partly_infinite_penalty')):
        # the batches realise every class on code that keeps the property (green on the unchanged tree).  When this run
        # already reports violations that are not known findings, a class that is not realised is the doing of the code
        # under test (an outcome turned into another one): the violations are the verdict, not a machinery failure
        fresh = [s for s, _ in chk.violations if s not in {k['signature'] for k in chk.known}]
        if not fresh:
            raise Machinery(f'B3 does not realise every outcome class: missing reasons {missing}, features {feat}')
        chk.cov['b3_classes_not_realised_in_a_violating_run'] = dict(reasons=missing, features=feat)
    chk.cov['b3_batches'] = len(traces)
    chk.cov['b3_outcome_classes'] = dict(reasons=sorted(r or 'served' for r in seen_reason), **feat)
    t = traces[0]
    chk.sample(dict(kind='B3 recorded planning() batch judged by Trace_Planning', name=t['name'],
                    entries=[dict(id=x['e']['idstr'], reason=x['o']['reason'], mode=x['o']['mode'], nm=x['o']['nm'],
                                  rx_snr01_udB=x['o']['rx']['snr01'], stated_snr01_centi=x['e']['metric']['snr01'],
                                  rev_snr01_udB=x['o']['rxRev']['snr01'], stated_za_snr01_centi=x['e']['za']['snr01'],
                                  csv_pass=x['row']['passf']) for x in t['ent'][:8]]))


def trace_spec_selftest(chk):
    """the trace specification must be able to say no: every clause has to fire on a recorded batch in which exactly the
    field it talks about was corrupted (a silent clause would make B3 vacuous -> machinery failure)"""
    name, reqs = crafted()[0]
    run = pu.run_batch('meshV2+island', {'path-request': reqs}, 'selftest:base')
    if run.exc:
        return                                            # reported by b3 as a violation
    base = pu.trace_of(run)

    def idx(pred):
        return next(i for i, x in enumerate(base['ent']) if pred(x))
    sv = idx(lambda x: x['o']['reason'] == '' and x['o']['bidir'] and x['o']['hasRev'])
    ag = idx(lambda x: len(x['e']['ids']) > 1)
    bl = idx(lambda x: x['o']['reason'] == 'NO_SPECTRUM')
    npth = idx(lambda x: x['o']['reason'] == 'NO_PATH')
    cases = [
        ('OneEntryPerRequest', lambda t: t['inputs'].append(dict(t['inputs'][0], id='ghost'))),
        ('IdIsJoinedId', lambda t: t['ent'][ag]['e']['ids'].append('ghost')),
        ('AggregatedOnlyIdentical', lambda t: next(i for i in t['inputs'] if i['id'] == t['ent'][ag]['e']['ids'][0]).update(key='x')),
        ('BandwidthIsSum', lambda t: t['ent'][ag]['e']['metric'].update(bw=10000)),
        ('ServedHasPathProperties', lambda t: t['ent'][sv]['e'].update(top=['no-path'])),
        ('NoPathOnlyReason', lambda t: t['ent'][npth]['e'].update(npkeys=['no-path', 'path-properties'])),
        ('BlockedCarriesReason', lambda t: t['ent'][bl]['e'].update(reason='NO_PATH')),
        ('ReasonIsFirstRaised', lambda t: t['ent'][bl]['o']['raised'].insert(0, 'MODE_NOT_FEASIBLE')),
        ('RouteHopByHop', lambda t: t['ent'][sv]['e']['objs'][3].update(uid='wrong')),
        ('LabelsEqualNM', lambda t: t['ent'][sv]['e']['objs'][1]['nm'].__setitem__(0, [1, 1])),
        ('NoLabelWhenBlocked', lambda t: t['ent'][bl]['e']['objs'].insert(1, dict(k='label', idx=1, uid='', nm=[[0, 4]], type='', mode=''))),
        ('TransponderTypeAndMode', lambda t: t['ent'][sv]['e']['objs'][2].update(mode='mode 9')),
        ('ObjectOrder', lambda t: t['ent'][sv]['e']['objs'][4].update(idx=99)),
        ('MetricsEqualReceiver', lambda t: t['ent'][sv]['e']['metric'].update(snrmin=t['ent'][sv]['e']['metric']['snrmin'] + 1)),
        ('ReverseIffBidir', lambda t: t['ent'][sv]['e'].update(hasZA=False)),
        ('ReverseFromReverseReceiver', lambda t: t['ent'][sv]['e'].update(za=dict(t['ent'][sv]['e']['metric']))),
        ('CsvNoPathOnlyReason', lambda t: t['ent'][npth]['row'].update(src='x')),
        ('CsvStatesSame', lambda t: t['ent'][sv]['row']['rev'].update(snr01=1)),
        ('CsvLibraryFigures', lambda t: t['ent'][sv]['row'].update(thr=t['ent'][sv]['row']['thr'] - 200)),
        ('CsvPassFlag', lambda t: t['ent'][sv]['row'].update(passf='False')),
        ('CsvBandwidthAndCost', lambda t: t['ent'][sv]['row'].update(cost=0)),
        ('CsvOneRowPerEntry', lambda t: t['ent'][sv]['row'].update(idstr='zz')),
    ]
    traces = [base]
    for clause, f in cases:
        t = copy.deepcopy(base)
        t['name'] = f'selftest:{clause}'
        f(t)
        traces.append(t)
    v = pu.judge(traces, chk, 'c19-selftest')
    if v['selftest:base']:
        return                                            # the unchanged batch already violates: b3 reports it
    silent = [c for c, _ in cases if c not in {x[1] for x in v[f'selftest:{c}']}]
    if silent:
        raise Machinery(f'Trace_Planning clauses that do not fire on a corrupted trace: {silent}')
    chk.cov['trace_clauses_shown_to_fire'] = len(cases)


def run(chk):
    # ---- B1
    r = tlc.run('MC_PlanReport', timeout=600, tag='c19-mc')
    chk.add_mc('MC_PlanReport (outcome classes x bidir x aggregated x slots x threshold side)', r)
    r2 = tlc.run('MC_Planning', timeout=600, tag='c19-mc2')
    chk.add_mc('MC_Planning (report of each of the 325 histories)', r2)
    chk.exhaustive = True
    # ---- B2
    b2(chk, r.emitted)
    # ---- B3
    if not chk.mutant:
        trace_spec_selftest(chk)
    b3(chk)
    chk.cov['rounding_slack_micro_units'] = 1
    chk.cov['rule'] = ('B2: one case per enumerated outcome (non-trivial when a path is reported); '
                       'B3: one case per recorded batch')
    chk.assume('two equipment libraries are used in one process (shipped figures; operator: every mode OSNR +1.5 dB, cost '
               '2c+1, same names): every row must state the figures of the library its export was given')
    chk.assume('command-line runs: cli_examples.path_requests_run on files (topology, services, library) with -o result.json '
               'and, in a second invocation, -o result.csv; the saved documents are projected like the API ones')
    chk.assume('request ids do not contain the joining string " | "')
    chk.assume('a value exactly on a rounding tie (x.xx5) may be stated as either neighbour')
    chk.assume('requests reported together must be identical for the user (same ends, transponder, mode, spacing, power, '
               'channel count, route constraints, synchronization); whether identical requests MUST be merged is not judged')
    chk.assume('crafted batches run on meshTopologyExampleV2 plus one unreachable site (NO_PATH) with eqpt_config.json plus '
               'two library transceiver types (VerifDense, VerifHard); no gnpy code is modified')
    chk.assume('the blocking reason a request must carry is the first one observed on it (at the start / return of routing, '
               'mode selection, each propagation, spectrum assignment); later stages must not rewrite it')
    chk.assume('the receiver figures are captured at the return of the request\'s own propagation, N/M at the return of '
               'pth_assign_spectrum, the route at the return of compute_path_dsjctn')


# ------------------------------------------------------------------------------------------------------ mutants
def _transform(name, *pairs):
    """re-define gnpy.topology.request.<name> from its source with each (old, new) pair replaced (in-process mutant)"""
    import inspect
    import textwrap
    import gnpy.topology.request as R
    import gnpy.tools.worker_utils as W
    import gnpy.tools.cli_examples as C
    src = textwrap.dedent(inspect.getsource(getattr(R, name)))
    for old, new in pairs:
        if old not in src:
            raise Machinery(f'mutant: pattern not found in {name}: {old}')
        src = src.replace(old, new)
    ns = {}
    exec(compile(src, f'<mutant {name}>', 'exec'), R.__dict__, ns)
    for mod in (R, W, C):
        if hasattr(mod, name):
            setattr(mod, name, ns[name])


def _mut_forward_in_za():
    """the z-a block is built from the forward path"""
    _transform('ResultElement', ("'z-a-path-metric': path_metric(self.reversed_computed_path, self.path_request)",
                                 "'z-a-path-metric': path_metric(self.computed_path, self.path_request)"))


def _mut_last_explored_mode():
    """the request keeps the last mode of the library list instead of the one the selection returned"""
    _transform('compute_path_with_disjunction', ("pathreq.tsp_mode = mode['format']",
                                                 "pathreq.tsp_mode = equipment['Transceiver'][pathreq.tsp].mode[-1]['format']"))


def _mut_labels_on_blocked():
    """a request blocked in spectrum assignment is reported with label objects"""
    _transform('ResultElement',
               ("if not hasattr(self.path_request, 'blocking_reason'):",
                "if getattr(self.path_request, 'blocking_reason', '') in ('', 'NO_SPECTRUM'):"),
               ("if self.path_request.M is None or self.path_request.N is None:",
                "if self.path_request.M is None or self.path_request.N is None:\n"
                "                    self.path_request.N, self.path_request.M = [0], [0]\n"
                "                if False:"))


def _mut_bandwidth_not_summed():
    """aggregation joins the ids but keeps only one bandwidth"""
    _transform('requests_aggregation', ('this_r.path_bandwidth += req.path_bandwidth', 'pass'))


def _mut_pass_without_margin():
    """the CSV threshold forgets the system margin"""
    _transform('_jsontoparams', ("minosnr + equipment['SI']['default'].sys_margins", 'minosnr'))


def _mut_min_is_mean():
    """lowest_SNR-0.1nm reports the mean"""
    _transform('ResultElement', ("round(min(pth[-1].snr_01nm), 2)", "round(mean(pth[-1].snr_01nm), 2)"))


MUTANTS = {'forward_in_za': _mut_forward_in_za, 'last_explored_mode': _mut_last_explored_mode,
           'labels_on_blocked': _mut_labels_on_blocked, 'bandwidth_not_summed': _mut_bandwidth_not_summed,
           'pass_without_margin': _mut_pass_without_margin, 'min_is_mean': _mut_min_is_mean}
