"""C04 - amplifier: set gain (reduced only as far as needed), quantum-limited ASE, never above p_max, NF model laws.

B1  TLC explores MC_AmpLaw (AmpLaw.tla): nine amplifier types x gain settings below / at / inside / above the flat
    range x VOA / load-shape variants x tilt x histories of crossings with total input powers from -25 to +12 dBm;
    clauses NeverAbovePmax, EffNeverAboveSet, UnsaturatedKeepsSet, ReducedOnlyAsNeeded, GainLaw, PaddingBelowMin,
    RegimePartition, NoMemory, MonotoneInLoad as invariants.
B2  every history TLC emits is replayed on ONE real Edfa built from equipment + element JSON (fixed_gain, variable_gain,
    openroadm ila / preamp / booster, advanced_model, dual_stage): spectral informations realising the emitted total
    powers are sent through it in sequence and effective_gain, att_in, total gain, gain-block output, number of output
    channels and (flat profile) per-channel gain are compared with the spec's emitted values (+/-3 udB).  Successive
    crossings of a history sit on different frequency grids of the same channel count, and every crossing after the
    first is also made on a FRESH amplifier with the same settings (the spec's NoMemory: a crossing depends on its own
    load only).
B3  every crossing (the B2 ones, and every Edfa crossing inside the real gnpy.topology.request.propagate on the shipped
    networks) is recorded and judged by Trace_LineElements (EffLaw, PadLaw, GainLaw, NeverAbovePmax, FlatProfile,
    AseLaw, NfRipple - channel NF = average + configured ripple at THAT channel's frequency -, NoMemory, PoutReported,
    OutOfBand); NF gain sweeps of every amplifier entry of every shipped library (single and dual stage, from 4 dB below
    the minimum gain to 3 dB into the extended range) are judged as "Sweep" histories (NfMinAtFlatMax, NfMaxAtGainMin,
    NonIncreasing for min/max-NF models; NonIncreasingExtended for every model; ClampAboveMax for the polynomial model;
    DbForDbBelowMin for single-stage models; DualCascade: a dual stage's linear NF = NF(preamp at its maximum flat
    gain) + NF(booster at gain - g1) / g1 with the stage amplifiers crossed alone, also where gain - g1 is negative).
    NfFollowsModel ("Curve" / "NfCurve" events): the OpenROADM ILA polynomial and preamp mask are read at the input power
    per 50 GHz slot (computed by the specification from total power, channel count and slot width; contiguous combs of
    37.5 / 50 / 75 / 100 GHz slots), the advanced model's NF polynomial at the gain deficit; the configured
    polynomial is handed to TLC as a table of the library's coefficients (legacy form, and a YANG-form library whose
    keyed nf_coef lists are not written in coef_order); the preamp mask is closed-form in the spec and its expected
    NF is emitted with the cases.
    Load shapes include a single in-band channel of a wider spectrum and out-of-band channels whose slot edge lies
    0.5 / 1 GHz beyond the amplifier band.
"""
import copy
import json
import random
import time
import traceback

import numpy as np

from harness import tlc
from harness import line_util as L
from harness.core import Machinery
from harness.gnpy_util import EX, TD, udb
from harness.record import Recording

SYNTHETIC = {"type_variety": "verif_vg", "type_def": "variable_gain", "gain_flatmax": 22, "gain_min": 12, "p_max": 19,
             "nf_min": 6.5, "nf_max": 11, "out_voa_auto": False, "allowed_for_design": False}
ADV_BAND = {"type_variety": "verif_adv_band", "type_def": "advanced_model", "gain_flatmax": 25, "gain_min": 15, "p_max": 21,
            "advanced_config_from_json": "std_medium_gain_advanced_config.json", "f_min": 192.0e12, "f_max": 195.0e12,
            "out_voa_auto": False, "allowed_for_design": False}


def cfg_text(maxcross, emit=False, pins='MCPinTots'):
    base = (tlc.SPEC / 'MC_AmpLaw.cfg').read_text().replace('MaxCross = 2', f'MaxCross = {maxcross}')
    base = base.replace('PinTots <- MCPinTots', f'PinTots <- {pins}')
    if emit:
        base = '\n'.join(ln for ln in base.splitlines() if not ln.startswith('INVARIANT')) + \
            '\nINVARIANT Emit\nINVARIANT EmitSweepEntries\nINVARIANT EmitCurveCases\n'
    return base


# -------------------------------------------------------------------------------------------- real-code side (B2)
_LIB = None


def library_json():
    global _LIB
    if _LIB is None:
        _LIB = json.loads((EX / 'eqpt_config.json').read_text())
        _LIB['Edfa'].append(dict(SYNTHETIC))
        _LIB['Edfa'].append(dict(ADV_BAND))
    return _LIB


_EQ = None


def real_edfa(type_variety, gain_target, tilt, in_voa, out_voa):
    """a real Edfa element built by the loader from equipment + element JSON"""
    from gnpy.tools.json_io import _equipment_from_json, network_from_json, DEFAULT_EXTRA_CONFIG
    global _EQ
    if _EQ is None:
        _EQ = _equipment_from_json(copy.deepcopy(library_json()), DEFAULT_EXTRA_CONFIG)
    topo = {'elements': [{'uid': f'amp {type_variety}', 'type': 'Edfa', 'type_variety': type_variety,
                          'operational': {'gain_target': gain_target, 'tilt_target': tilt, 'out_voa': out_voa,
                                          'in_voa': in_voa}}], 'connections': []}
    net = network_from_json(topo, _EQ)
    return next(iter(net.nodes()))


def check_library_matches(amp):
    """the MC constants must be the numbers of the library entry the harness instantiates"""
    from gnpy.tools.json_io import _equipment_from_json, DEFAULT_EXTRA_CONFIG
    global _EQ
    if _EQ is None:
        _EQ = _equipment_from_json(copy.deepcopy(library_json()), DEFAULT_EXTRA_CONFIG)
    e = _EQ['Edfa'][amp['id']]
    # (the band is NOT asserted here: the cases place the channels by the band the library entry states, and a loader that
    # gives the amplifier another band shows up as a violation of the out-of-band clause)
    got = (e.type_def, udb(e.gain_min), udb(e.gain_flatmax), udb(e.p_max))
    exp = (amp['typeDef'], amp['gainMin'], amp['flatMax'], amp['pMax'])
    stated = next(x for x in library_json()['Edfa'] if x['type_variety'] == amp['id'])
    if 'f_min' in stated and (L.mhz(stated['f_min']), L.mhz(stated['f_max'])) != (amp['fmin'], amp['fmax']):
        raise Machinery(f'MC_AmpLaw band of {amp["id"]} differs from the band its library entry states')
    if got != exp:
        raise Machinery(f'MC_AmpLaw constants for {amp["id"]} {exp} differ from the library {got}')


def load_si(pin_raw_udb, var, grid=0, band=(191.275e12, 196.125e12)):
    """a spectral information whose in-band channels total pin_raw (N equal channels, or a +/-2 dB ramp with the same
    total), plus var.nOut channels outside the amplifier band (the band the library entry STATES); grid: which of the
    frequency grids (same channel count, shifted by half the channel spacing) carries the load"""
    from gnpy.core.info import create_arbitrary_spectral_information
    n = var['nIn']
    step = 50e9 * int((band[1] - band[0] - 150e9) / 50e9 / n)
    f_in = band[0] + 75e9 + step * np.arange(n) + grid * step / 2       # spread over the band
    shape = np.linspace(-2.0, 2.0, n) if var['ramp'] else np.zeros(n)
    w = 10 ** (shape / 10)
    p_in = w / w.sum() * 1e-3 * 10 ** (pin_raw_udb / 1e7)
    # out-of-band channels: far outside, or with their slot edge 0.5 GHz below f_min / 1 GHz above f_max
    # (far outside: 0.6 THz beyond the band ends - for a narrow-band entry that is still inside the default amplifier band)
    oob = [band[0] + 25e9 - 0.5e9, band[1] - 25e9 + 1e9] if var['edge'] else [band[0] - 0.6e12, band[1] + 0.6e12]
    f = np.concatenate([f_in, oob[:var['nOut']]])
    p = np.concatenate([p_in, np.full(var['nOut'], p_in.mean())])
    return create_arbitrary_spectral_information(frequency=f, pch=p, baud_rate=32e9, slot_width=50e9, tx_osnr=40,
                                                 tx_power=p, roll_off=0.15)


class Stats:
    def __init__(self):
        self.worst = {}

    def dev(self, name, d):
        self.worst[name] = max(self.worst.get(name, 0), abs(d))


def replay_history(js, idx, chk, stats, traces):
    amp, st, hist = js['amp'], js['set'], js['hist']
    var = st['var']
    try:
        el = real_edfa(amp['id'], st['gainTarget'] / 1e6, st['tilt'] / 1e6, var['inVoa'] / 1e6, var['outVoa'] / 1e6)
    except Exception as ex:                                              # noqa
        chk.violation(f'B2|{amp["typeDef"]}|construction|{type(ex).__name__}', dict(case=js, exception=traceback.format_exc()[-1200:]))
        return
    flat = st['tilt'] == 0 and amp['ripple'] == 0
    evs = []
    ok = True
    earlier_sat = False
    for k, h in enumerate(hist):
        shape = f"{amp['typeDef']}|{h['regime']}|{'saturated' if h['sat'] else 'unsaturated'}" \
                f"|{'after a saturating crossing' if earlier_sat else 'first or after unsaturated crossings'}"
        chk.case(f"{amp['id']}|g={st['gainTarget']}|t={st['tilt']}|v={var['inVoa']}/{var['outVoa']}/{var['nIn']}/{var['ramp']}"
                 f"|{[x['pinRaw'] for x in hist[:k + 1]]}", nontrivial=h['sat'] or h['regime'] != 'inrange')
        band = (amp['fmin'] * 1e6, amp['fmax'] * 1e6)
        si = load_si(h['pinRaw'], var, h['grid'], band)
        try:
            with Recording() as rec:
                el(si)
            e = L.edfa_event(rec.events[-1], st['gainTarget'] / 1e6)
            if k > 0:
                # NoMemory: the same load through a fresh amplifier with the same settings is the reference
                ref = real_edfa(amp['id'], st['gainTarget'] / 1e6, st['tilt'] / 1e6, var['inVoa'] / 1e6, var['outVoa'] / 1e6)
                with Recording() as rec2:
                    ref(load_si(h['pinRaw'], var, h['grid'], band))
                L.with_fresh_reference(e, L.edfa_event(rec2.events[-1], st['gainTarget'] / 1e6))
        except Exception as ex:                                          # noqa
            chk.violation(f'B2|{shape}|exception|{type(ex).__name__}', dict(case=js, step=k, exception=traceback.format_exc()[-1200:]))
            return
        evs.append(e)
        obs = {'eff': e['effObs'], 'gTot': e['gTot'], 'outTot': e['pinRaw'] + e['gTot'] + e['outVoa'],
               'nOutCh': len(e['outb'])}
        if not e['dual']:
            obs['pad'] = e['padObs']
        exact = (not var['ramp']) or (st['tilt'] == 0 and amp['ripple'] == 0)      # else: three-point profile solver
        tol = {'eff': 3, 'pad': 3, 'nOutCh': 0, 'gTot': 3 if exact else 50000, 'outTot': 6 if exact else 50000}
        bad = []
        for name, o in obs.items():
            d = o - h[name]
            if abs(d) > tol[name]:
                bad.append(name)
            elif name != 'nOutCh':
                stats.dev(name + ('' if tol[name] < 100 else '_solver_class'), d)
        if flat:
            dflat = max(abs(c['gain'] - h['gTot']) for c in e['ch'])
            if dflat > 3:
                bad.append('flatgain')
            else:
                stats.dev('flat_channel_gain', dflat)
        if bad:
            ok = False
            sig = 'B2|effective gain stays clamped after a saturating crossing' \
                if (earlier_sat and 'eff' in bad and obs['eff'] < h['eff']) else f'B2|{shape}|{"+".join(bad)}'
            chk.violation(sig,
                          dict(amplifier=amp, settings=st, history=[x['pinRaw'] for x in hist], step=k, spec=h,
                               code={**obs, 'pout_db': e['poutObs']}))
            break
        earlier_sat = earlier_sat or h['sat']
    if ok:
        chk.traces += 1
    traces.append({'name': f'B2 #{idx} {amp["id"]}', 'ev': evs, 'amp': amp, 'set': st})
    if len(chk.samples) < 1 and any(h['sat'] for h in hist) and hist[0]['regime'] == 'padded':
        chk.sample(dict(kind='B2 history replayed on a real Edfa', amplifier=amp, settings=st, spec_history=hist))


# ------------------------------------------------------------------------------------------------------ NF sweeps
LIBRARIES = [(EX, 'eqpt_config.json'), (EX, 'eqpt_config_multiband.json'), (EX, 'eqpt_config_openroadm_ver4.json'),
             (EX, 'eqpt_config_openroadm_ver5.json'), (TD, 'eqpt_config.json'), (TD, 'eqpt_config_psd.json'),
             (TD, 'eqpt_config_psw.json'), (TD, 'eqpt_config_sweep.json'), (TD, 'eqpt_config_multiband.json')]


def synthetic_library(entries, chk):
    """the TLC-enumerated min/max-NF entries as an equipment library; entries refused by the loader are skipped"""
    from gnpy.tools.json_io import _equipment_from_json, DEFAULT_EXTRA_CONFIG
    from gnpy.core.exceptions import EquipmentConfigError
    raw = L.base_eqpt()
    raw['Edfa'] = []
    refused = 0
    for i, e in enumerate(sorted(entries, key=lambda x: json.dumps(x, sort_keys=True))):
        ent = {'type_variety': f'verif_sweep_{i}', 'type_def': 'variable_gain', 'gain_min': e['gainMin'] / 1e6,
               'gain_flatmax': e['flatMax'] / 1e6, 'p_max': 23, 'nf_min': e['nfMin'] / 1e6, 'nf_max': e['nfMax'] / 1e6,
               'out_voa_auto': False, 'allowed_for_design': False}
        try:
            _equipment_from_json({'Edfa': [copy.deepcopy(ent)]}, DEFAULT_EXTRA_CONFIG)
        except EquipmentConfigError:
            refused += 1
            continue
        raw['Edfa'].append(ent)
    chk.cov['sweep_synthetic_entries_refused_by_loader'] = refused
    # a dual stage whose booster is a polynomial-NF (advanced_model) amplifier, and one whose preamp is
    base = {e['type_variety']: e for e in L.base_eqpt()['Edfa']}
    raw['Edfa'] += [copy.deepcopy(base[k]) for k in ('std_medium_gain', 'std_low_gain', 'high_detail_model_example')]
    raw['Edfa'] += [{'type_variety': 'verif_dual_poly_booster', 'type_def': 'dual_stage', 'gain_min': 25,
                     'preamp_variety': 'std_medium_gain', 'booster_variety': 'high_detail_model_example',
                     'allowed_for_design': False},
                    {'type_variety': 'verif_dual_poly_preamp', 'type_def': 'dual_stage', 'gain_min': 25,
                     'preamp_variety': 'high_detail_model_example', 'booster_variety': 'std_low_gain',
                     'allowed_for_design': False}]
    return raw, _equipment_from_json(copy.deepcopy(raw), DEFAULT_EXTRA_CONFIG)


def curve_table(coefs, lo_db, hi_db, step_db=0.02):
    """the configured polynomial (coefficients highest power first) tabulated on a uniform grid, micro-dB"""
    n = int(round((hi_db - lo_db) / step_db)) + 1
    x = lo_db + step_db * np.arange(n)
    return {'x0': udb(lo_db), 'step': udb(step_db), 'v': [udb(v) for v in np.polyval(np.asarray(coefs, dtype=float), x)]}


def openroadm_libraries(chk, rng):
    """[(name, {type_variety: (model, coefficients highest power first or None)}, loaded equipment)]: the shipped
    OpenROADM libraries in legacy form, and one written in YANG form (RFC 7951 JSON) whose keyed nf_coef lists are in
    another order than coef_order (the order of a keyed list is not significant)"""
    import tempfile
    from gnpy.tools.json_io import load_equipments_and_configs, load_json
    from gnpy.tools.convert_legacy_yang import legacy_to_yang
    out = []

    def entries(edfas, coef_of):
        return {e['type_variety']: ('orIla' if e['type_def'] == 'openroadm' else 'orPreamp', coef_of(e))
                for e in edfas if e.get('type_def') in ('openroadm', 'openroadm_preamp')}
    legacy = [(EX, 'eqpt_config.json')] + ([(EX, 'eqpt_config_openroadm_ver4.json'), (EX, 'eqpt_config_openroadm_ver5.json')]
                                           if chk.tier == 'thorough' else [])
    for d, f in legacy:
        out.append((f'{d.name}/{f}', entries(load_json(d / f)['Edfa'], lambda e: e.get('nf_coef')),
                    load_equipments_and_configs(d / f, [], [])))
    src = EX / 'eqpt_config_openroadm_ver5.json'
    doc = legacy_to_yang(load_json(src))
    root = doc if 'Edfa' in doc else doc[next(iter(doc))]
    for e in root['Edfa']:
        if 'nf_coef' in e:
            lst = list(e['nf_coef'])
            while [c['coef_order'] for c in lst] == sorted(c['coef_order'] for c in lst):
                rng.shuffle(lst)
            e['nf_coef'] = lst
    tlc.BUILD.mkdir(exist_ok=True)
    with tempfile.TemporaryDirectory(dir=tlc.BUILD) as tmp:
        from pathlib import Path
        yf = Path(tmp) / 'eqpt_openroadm_yang.json'
        yf.write_text(json.dumps(doc))
        eq = load_equipments_and_configs(yf, [], [])
    # the document's own semantics: coefficient i of the polynomial list is the entry keyed coef_order = i
    out.append(('yang(eqpt_config_openroadm_ver5.json), nf_coef lists not in coef_order',
                entries(root['Edfa'], lambda e: [c['nf_coef'] for c in sorted(e['nf_coef'], key=lambda c: c['coef_order'])]
                        if 'nf_coef' in e else None), eq))
    return out


def curve_traces(chk, cases):
    """NF follows the configured model for the OpenROADM amplifiers: every emitted case (slot width, channel count,
    per-channel power) is realised with a contiguous comb through a real Edfa of every OpenROADM ILA / preamp entry;
    the ILA polynomial is handed to TLC as a table of the library's coefficients, the input power per 50 GHz slot is
    computed by the specification"""
    from gnpy.tools.json_io import network_from_json
    from gnpy.core.info import create_arbitrary_spectral_information
    rng = random.Random(chk.seed + 4)
    if chk.tier == 'quick':
        cases = [c for c in cases if c['nch'] == 8]
    traces = []
    worst = 0
    n = 0
    for lname, ents, eq in openroadm_libraries(chk, rng):
        for tv, (model, coefs) in sorted(ents.items()):
            tab = curve_table(coefs, -50.0, 12.0) if model == 'orIla' else {'x0': 0, 'step': 1, 'v': [0, 0]}
            evs = [{'k': 'Curve', 'tab': tab}]
            lib = eq['Edfa'][tv]
            for cs in sorted((c for c in cases if c['model'] == model), key=lambda c: (c['slotMHz'], c['nch'], c['pch'])):
                chk.case(f"curve|{lname}|{tv}|{cs['slotMHz']}|{cs['nch']}|{cs['pch']}", nontrivial=cs['slotMHz'] != 50000)
                slot = cs['slotMHz'] * 1e6
                f = 193.0e12 + slot * np.arange(cs['nch'])
                pch = 1e-3 * 10 ** (cs['pch'] / 1e7)
                gain = 12.0
                topo = {'elements': [{'uid': 'a', 'type': 'Edfa', 'type_variety': tv,
                                      'operational': {'gain_target': gain, 'tilt_target': 0, 'out_voa': 0}}], 'connections': []}
                try:
                    el = next(iter(network_from_json(topo, eq).nodes()))
                    si = create_arbitrary_spectral_information(frequency=f, pch=pch, baud_rate=0.8 * slot, slot_width=slot,
                                                               tx_osnr=40, tx_power=pch, roll_off=0.1)
                    with Recording() as rec:
                        el(si)
                except Exception as ex:                                  # noqa
                    chk.violation(f'curve|{model}|exception|{type(ex).__name__}',
                                  dict(library=lname, entry=tv, case=cs, exception=traceback.format_exc()[-1200:]))
                    continue
                if abs(el.effective_gain - gain) > 1e-9:
                    raise Machinery(f'curve case of {tv}: gain clamped')
                rip = np.atleast_1d(np.asarray(lib.nf_ripple, dtype=float))
                nf_obs = float(np.mean(np.asarray(el.nf) - np.interp(f, np.linspace(lib.f_min, lib.f_max, len(rip)), rip)))
                pre = rec.events[-1]['pre']
                e = {'k': 'NfCurve', 'model': model, 'eff': udb(gain), 'gainMin': udb(lib.gain_min),
                     'flatMax': udb(lib.gain_flatmax), 'pinTot': udb(L.dbm(np.sum(pre['pch'])) - float(el.in_voa or 0)),
                     'nchDb': cs['nchDb'], 'slotRatioDb': cs['slotRatioDb'], 'nfObs': udb(nf_obs)}
                evs.append(e)
                n += 1
                if model == 'orPreamp':
                    d = abs(e['nfObs'] - cs['nfPreamp'])
                    if d > 3:
                        chk.violation(f'B2|openroadm_preamp|NF mask|slot {"=" if cs["slotMHz"] == 50000 else "!="} 50 GHz',
                                      dict(library=lname, entry=tv, case=cs, code_nf_udb=e['nfObs']))
                    else:
                        worst = max(worst, d)
                        chk.traces += 1
            traces.append({'name': f'curve {lname} {tv}', 'ev': evs})
    chk.cov['curve_crossings'] = n
    chk.cov['curve_amplifier_entries'] = len(traces)
    chk.cov['curve_preamp_worst_deviation_udb'] = worst
    chk.cov['curve_tolerance_udb'] = {'preamp mask (closed form)': 3, 'tabulated polynomial': 30}
    return traces


def sweep_traces(chk, synthetic):
    """NF over increasing gain for every single-stage amplifier entry of every shipped library and for the synthetic
    entries TLC enumerated (real Edfa objects, low power so that the gain is never clamped); judged by TLC"""
    from gnpy.tools.json_io import load_equipments_and_configs, network_from_json
    from gnpy.core.info import create_arbitrary_spectral_information
    traces = []
    entries = 0
    minmax = 0
    step = 1.0 if chk.tier == 'quick' else 0.25
    libs = [(f'{d.name}/{fname}', json.loads((d / fname).read_text()), None, d / fname) for d, fname in LIBRARIES]
    libs.append(('synthetic', *synthetic_library(synthetic, chk), None))
    for fname, raw, eq, path in libs:
        if eq is None:
            eq = load_equipments_and_configs(path, [], [])
        for ent in raw.get('Edfa', []):
            tdef = ent.get('type_def', 'variable_gain')
            if tdef == 'multi_band':
                continue
            tv = ent['type_variety']
            lib = eq['Edfa'][tv]
            gmin = float(ent.get('gain_min', lib.gain_min))
            gmax = float(ent.get('gain_flatmax', lib.gain_flatmax))           # dual stage: the loader's sum
            # from 4 dB below the minimum gain to 3 dB into the extended range, with the two range ends on the grid
            gains = sorted({round(g, 6) for g in list(np.arange(gmin - 4, gmax + 3 + 1e-9, step)) +
                            [gmin, gmax, gmax + 1.5, gmax + 3] if g >= 0})
            fmin, fmax = lib.f_min, lib.f_max
            nch = 4
            freqs = np.linspace(fmin + 100e9, fmax - 100e9, nch)
            # low enough that the highest gain of the sweep is not clamped (configuration arithmetic)
            pch = 1e-3 * 10 ** (min(-30.0, float(lib.p_max) - (gmax + 3) - 10 * np.log10(nch) - 1) / 10)
            rip_tab = np.atleast_1d(np.asarray(lib.nf_ripple, dtype=float))
            nf_rip = np.interp(freqs, np.linspace(fmin, fmax, len(rip_tab)), rip_tab)
            pts = []

            def crossed(variety, gain):
                topo = {'elements': [{'uid': 'a', 'type': 'Edfa', 'type_variety': variety,
                                      'operational': {'gain_target': gain, 'tilt_target': 0, 'out_voa': 0}}], 'connections': []}
                x = next(iter(network_from_json(topo, eq).nodes()))
                x(create_arbitrary_spectral_information(frequency=freqs, pch=pch, baud_rate=32e9, slot_width=50e9,
                                                        tx_osnr=40, tx_power=pch))
                return x

            def avg_nf(x):
                tab = np.atleast_1d(np.asarray(x.params.nf_ripple, dtype=float))
                return float(np.mean(np.asarray(x.nf) - np.interp(freqs, np.linspace(fmin, fmax, len(tab)), tab)))
            # dual stage: the two stage amplifiers are also crossed alone (preamp at its maximum flat gain g1, booster at
            # gain - g1); their NF models must not depend on the input power (not the OpenROADM ones)
            stages = None
            if tdef == 'dual_stage':
                pre_v, boo_v = ent['preamp_variety'], ent['booster_variety']
                if not any(eq['Edfa'][v].type_def.startswith('openroadm') for v in (pre_v, boo_v)):
                    stages = (pre_v, boo_v, float(eq['Edfa'][pre_v].gain_flatmax))
            for g in gains:
                try:
                    el = crossed(tv, g)
                except Exception as ex:                                  # noqa
                    chk.violation(f'sweep|{tdef}|exception|{type(ex).__name__}',
                                  dict(library=fname, entry=tv, gain=g, exception=traceback.format_exc()[-1200:]))
                    pts = None
                    break
                if abs(el.effective_gain - g) > 1e-9:
                    raise Machinery(f'sweep of {tv}: gain clamped at {g}')
                nf_avg = float(np.mean(np.asarray(el.nf) - nf_rip))
                pt = {'g': udb(g), 'nf': udb(nf_avg)}
                if stages:
                    g1 = stages[2]
                    nf1, nf2 = avg_nf(crossed(stages[0], g1)), avg_nf(crossed(stages[1], g - g1))
                    pt.update({'nfLin': L.iround(1e6 * 10 ** (nf_avg / 10)), 'nf1Lin': L.iround(1e6 * 10 ** (nf1 / 10)),
                               'nf2g1Lin': L.iround(1e6 * 10 ** ((nf2 - g1) / 10))})
                pts.append(pt)
            if pts is None:
                continue
            is_mm = 1 if tdef == 'variable_gain' else 0
            ev = {'k': 'Sweep', 'typeDef': tdef, 'gainMin': udb(gmin), 'flatMax': udb(gmax), 'minmax': is_mm,
                  'poly': 1 if tdef == 'advanced_model' else 0, 'dual': 1 if tdef == 'dual_stage' else 0,
                  'cascade': 1 if stages else 0,
                  'nfMin': udb(ent.get('nf_min', 0)) if is_mm else 0, 'nfMax': udb(ent.get('nf_max', 0)) if is_mm else 0,
                  'pts': pts}
            traces.append({'name': f'sweep {fname} {tv}', 'ev': [ev]})
            if tdef == 'advanced_model':
                # NF follows the configured polynomial: the coefficients as written in the advanced configuration file
                cfg_file = ent.get('advanced_config_from_json')
                cpath = next((x / cfg_file for x in ((path.parent,) if path else ()) + (EX, TD) if (x / cfg_file).exists()), None)
                if cpath is not None:
                    coefs = json.loads(cpath.read_text())['nf_fit_coeff']
                    tab = curve_table(coefs, gmin - gmax - 6.0, 0.2)
                    traces.append({'name': f'curve {fname} {tv}', 'ev': [{'k': 'Curve', 'tab': tab}] + [
                        {'k': 'NfCurve', 'model': 'poly', 'eff': pt['g'], 'gainMin': udb(gmin), 'flatMax': udb(gmax),
                         'pinTot': 0, 'nchDb': 0, 'slotRatioDb': 0, 'nfObs': pt['nf']} for pt in pts]})
            entries += 1
            minmax += is_mm
            chk.case(f'sweep|{fname}|{tv}', nontrivial=True)
    chk.cov['sweep_entries'] = entries
    chk.cov['sweep_minmax_nf_entries'] = minmax
    chk.cov['sweep_gain_step_db'] = step
    return traces


# ----------------------------------------------------------------------------------------------------- B3 shipped
def shipped_edfa_traces(chk, rng):
    """Edfa crossings inside the real propagate() on the shipped networks, plus two seeded variations of mesh V2:
    a request with four times the channel count of the design (amplifiers saturate) and operator-set gain tilts"""
    from gnpy.core.elements import Edfa
    jobs = [j + ('',) for j in L.SHIPPED if chk.tier == 'thorough' or j[0] != 'coronet']
    mesh = next(j for j in L.SHIPPED if j[0] == 'meshV2')
    jobs += [mesh + ('dense',), mesh + ('tilt',)]
    npaths = 6 if chk.tier == 'quick' else 40
    traces = []
    crossings = 0
    types = {}
    devs = {}
    seen = {'saturated': 0, 'padded': 0, 'extended': 0, 'tilt_nonflat': 0}
    for name, topo, eqpt, _, sim, variant in jobs:
        L.set_sim(sim)
        try:
            eq, net, req, gains = L.load_designed(topo, eqpt)
            if variant == 'dense':
                req.spacing, req.baud_rate = 12.5e9, 10e9
            if variant == 'tilt':
                for n in sorted((x for x in net.nodes() if isinstance(x, Edfa)), key=lambda x: x.uid):
                    n.tilt_target = rng.choice([-1.5, -0.5, 0.0, 1.0])
            for pname, evs in L.record_paths(eq, req, L.some_paths(net, rng, npaths)):
                out = []
                for ev in evs:
                    if ev['cls'] != 'Edfa':
                        continue
                    g = L.gain_set_of(ev, gains)
                    if g is None:
                        raise Machinery(f'{name}: no design gain recorded for {ev["uid"]}')
                    e = L.edfa_event(ev, g, max_ch=12 if chk.tier == 'quick' else 24)
                    out.append(e)
                    types[e['typeDef']] = types.get(e['typeDef'], 0) + 1
                    # evidence only (the verdict is TLC's): observed total gain against the reported effective gain
                    cls = 'exact' if (e['flatIn'] or (e['tilt'] == 0 and not e['ripple'])) else 'solver'
                    devs[cls] = max(devs.get(cls, 0), abs(e['gTot'] - (e['effObs'] - e['inVoa'] - e['outVoa'])))
                    seen['saturated'] += e['effObs'] < e['gainSet'] - 3
                    seen['padded'] += e['padObs'] > 0
                    seen['extended'] += e['effObs'] > e['flatMax']
                    seen['tilt_nonflat'] += cls == 'solver'
                crossings += len(out)
                traces.append({'name': f'{name}{"/" + variant if variant else ""} {pname}', 'ev': out})
        finally:
            L.set_sim(None)
    chk.cov['b3_networks'] = len(jobs)
    chk.cov['b3_edfa_crossings'] = crossings
    chk.cov['b3_amplifier_models_crossed'] = types
    chk.cov['b3_crossings_by_regime'] = seen
    chk.cov['b3_gain_law_worst_deviation_udb'] = devs
    chk.cov['b3_gain_law_tolerance_udb'] = {'exact': 3, 'solver': 50000}
    return traces


def report(chk, traces, verdicts, origin):
    for t in traces:
        v = verdicts[t['name']]
        if not v:
            chk.traces += 1
            continue
        seen = set()
        for step, clause in v:
            if origin == 'B2trace' and clause in ('EffLaw', 'PadLaw', 'GainLaw', 'FlatProfile', 'NeverAbovePmax'):
                continue            # B2: these are compared with the values TLC emitted for the history (replay_history)
            e = t['ev'][step - 1]
            if e['k'] == 'NfCurve':
                sig = f'{origin}|{e["model"]}|{clause}|{t["name"].split(" ")[1][:4]}'
            elif e['k'] == 'Sweep':
                sig = f'{origin}|{e["typeDef"]}|{clause}'
            else:
                sig = f'{origin}|{e["typeDef"]}|{clause}'
            if sig in seen:
                continue
            seen.add(sig)
            chk.violation(sig, dict(trace=t['name'], step=step, clause=clause,
                                    event={k: (x if k not in ('inb', 'outb', 'ch', 'pts') else x[:3]) for k, x in e.items()}))


def run(chk):
    b1, emit = (2, 2) if chk.tier == 'quick' else (3, 3)
    t0 = time.time()
    wall = {}

    def lap(name):
        nonlocal t0
        wall[name] = round(time.time() - t0, 1)
        t0 = time.time()
    # ---- B1
    r = tlc.run('MC_AmpLaw', cfg_text=cfg_text(b1), timeout=1800, tag='c04-mc')
    chk.add_mc(f'MC_AmpLaw MaxCross={b1}', r)
    chk.exhaustive = True
    if chk.tier == 'thorough':
        head = '\n'.join(ln for ln in cfg_text(2).splitlines() if not ln.startswith('INVARIANT'))
        L.require_witnesses(chk, 'MC_AmpLaw', head, ['ProbeSaturated', 'ProbePadded', 'ProbeExtended', 'ProbePaddedSat',
                                                      'ProbeRelief', 'ProbeNegativeGain'], 'c04-probe')
    # ---- B2
    pins = 'MCPinTotsQuick' if chk.tier == 'quick' else 'MCPinTotsReplay'
    r2 = tlc.run('MC_AmpLaw', cfg_text=cfg_text(emit, emit=True, pins=pins), timeout=1800, tag='c04-emit')
    chk.add_mc(f'emit histories MaxCross={emit} PinTots={pins}', r2)
    if not r2.emitted:
        raise Machinery('no history emitted')
    hists = [x for x in r2.emitted if 'hist' in x]
    for a in {json.dumps(h['amp'], sort_keys=True) for h in hists}:
        check_library_matches(json.loads(a))
    lap('tlc_mc_and_emit')
    stats = Stats()
    b2_traces = []
    nsat = npad = nrelief = 0
    for i, js in enumerate(hists):
        replay_history(js, i, chk, stats, b2_traces)
        nsat += any(h['sat'] for h in js['hist'])
        npad += any(h['regime'] == 'padded' for h in js['hist'])
        nrelief += any(a['sat'] and not b['sat'] for a, b in zip(js['hist'], js['hist'][1:]))
    if not (nsat and npad and nrelief):
        raise Machinery('vacuous generation')
    chk.cov['b2_histories'] = len(hists)
    chk.cov['b2_histories_with_saturation'] = nsat
    chk.cov['b2_histories_with_padding'] = npad
    chk.cov['b2_histories_saturated_then_relieved'] = nrelief
    chk.cov['b2_worst_deviation_udb'] = stats.worst
    chk.cov['b2_tolerance_udb'] = {'exact': 3, 'outTot (sum of three rounded terms)': 6, 'tilt or ripple with non-flat input (three-point solver)': 50000}
    lap('b2_replay')
    v2 = L.judge(chk, [{'name': t['name'], 'ev': t['ev']} for t in b2_traces], 'c04-trace-b2')
    report(chk, b2_traces, v2, 'B2trace')
    lap('b2_trace_judge')
    # ---- NF sweeps
    sw = sweep_traces(chk, [x for x in r2.emitted if 'nfMin' in x])
    report(chk, sw, L.judge(chk, sw, 'c04-sweep'), 'sweep')
    cv = curve_traces(chk, [x for x in r2.emitted if 'nfPreamp' in x])
    report(chk, cv, L.judge(chk, cv, 'c04-curve'), 'curve')
    lap('sweeps_and_curves')
    # ---- B3
    rng = random.Random(chk.seed)
    traces = shipped_edfa_traces(chk, rng)
    report(chk, traces, L.judge(chk, traces, 'c04-trace'), 'B3')
    lap('b3')
    chk.cov['wall_breakdown_s'] = wall
    for t in traces:
        if t['ev']:
            chk.sample(dict(kind='B3 Edfa crossing recorded in propagate() and judged by Trace_LineElements', trace=t['name'],
                            event={k: (v if k not in ('inb', 'outb', 'ch') else v[:2]) for k, v in t['ev'][0].items()}))
            break
    if sw:
        chk.sample(dict(kind='NF sweep judged by Trace_LineElements', trace=sw[0]['name'],
                        event={k: (v if k != 'pts' else v[:4]) for k, v in sw[0]['ev'][0].items()}))
    chk.assume('set gain of a designed amplifier = the gain the design wrote, captured before any propagation; '
               'total input power = signal + noise of the in-band channels after the input VOA')
    chk.assume('NF itself is taken from Edfa.nf (AseLaw: ASE added = h f B NF at the input); the NF value is constrained per '
               'channel by NfRipple (configured ripple table interpolated at the channel frequency by the harness), by the sweep '
               'laws for min/max-NF (variable_gain) entries, by NonIncreasingExtended (at and above gain_flatmax NF never rises '
               'with gain) for every model, ClampAboveMax for the polynomial model and DbForDbBelowMin for single-stage entries; '
               'NfFollowsModel: configured polynomials (OpenROADM ILA OSNR, advanced-model NF) are tabulated by the harness on a '
               '0.02 dB grid from the coefficients as written in the library document and interpolated by the specification '
               '(<= 2 udB), the argument (input power per 50 GHz slot / gain deficit) is computed by the specification; '
               'OpenROADM cases use contiguous combs (channel spacing = slot width), since the code takes the spacing of the '
               'first two channels as the slot width')
    chk.assume('dual-stage amplifiers: padding is not judged (the code defines none); amplifiers are crossed with >= 2 '
               'channels (one-channel spectra are covered by C07)')
    chk.assume('a channel whose edge lies within 1 MHz of the amplifier band edge is left unjudged by OutOfBand')
    chk.assume('trusted: TLC, the Json module, the unit conversions of harness/line_util.py and harness/record.py')


# ------------------------------------------------------------------------------------------------------ mutants
def _mut_clamp_per_channel():
    """saturation clamp uses the mean per-channel power instead of the total power"""
    import gnpy.core.elements as E
    L.mutate_source(E.Edfa, 'interpol_params', 'self.params.p_max - self.pin_db',
                    'self.params.p_max - (self.pin_db - lin2db(self.nch))')


def _mut_ase_at_output():
    """ASE computed with the NF referred to the output (multiplied by the gain)"""
    import gnpy.core.elements as E
    L.mutate_source(E.Edfa, 'noise_profile', 'db2lin(self.nf)  # W', 'db2lin(self.nf + self.effective_gain)  # W')


def _mut_padding_lost():
    """NF padding below the minimum gain is not added"""
    import gnpy.core.elements as E
    L.mutate_source(E.Edfa, '_nf', 'return nf_avg + pad, pad', 'return nf_avg, pad')


def _mut_wrong_mean_under_tilt():
    """gain profile normalised to the mean of the dB values instead of the mean linear gain"""
    import gnpy.core.elements as E
    L.mutate_source(E.Edfa, '_gain_profile', 'voa = lin2db(mean(db2lin(g1st))) - self.effective_gain',
                    'voa = mean(g1st) - self.effective_gain + 0.3 * abs(self.tilt_target)')


def _mut_nf_not_monotone():
    """variable-gain NF model: the second-stage contribution grows instead of shrinking above mid gain"""
    import gnpy.core.elements as E
    L.mutate_source(E.Edfa, '_nf', 'g1a = gain_target - nf_model.delta_p - dg',
                    'g1a = gain_target - nf_model.delta_p - dg - 2 * max(gain_target - (gain_min + gain_flatmax) / 2, 0)')


def _mut_out_voa_ignored():
    """output VOA not applied to the carriers"""
    import gnpy.core.elements as E
    L.mutate_source(E.Edfa, 'propagate', 'spectral_info.apply_gain_db(self.gprofile - self.out_voa)',
                    'spectral_info.apply_gain_db(self.gprofile)')


def _mut_ripple_cached():
    """ripple / DGT interpolation reused when the channel count did not change"""
    import gnpy.core.elements as E
    orig = E.Edfa.interpol_params

    def interpol_params(self, spectral_info):
        stale = (self.interpol_nf_ripple, self.interpol_gain_ripple, self.interpol_dgt) \
            if self.nch == spectral_info.number_of_channels else None
        if stale is None:
            return orig(self, spectral_info)
        saved = E.interp
        it = iter([stale[2], stale[1], stale[0]])
        E.interp = lambda *a, **k: next(it)
        try:
            return orig(self, spectral_info)
        finally:
            E.interp = saved
    E.Edfa.interpol_params = interpol_params


def _mut_nf_poly_unclamped():
    """polynomial NF evaluated beyond gain_flatmax (the gain deficit is allowed to go negative)"""
    import gnpy.core.elements as E
    L.mutate_source(E.Edfa, '_nf', 'dg = max(gain_flatmax - gain_target, 0)', 'dg = gain_flatmax - gain_target')


def _mut_openroadm_power_not_per_50ghz():
    """OpenROADM masks read at the plain per-channel power (no normalisation to a 50 GHz slot)"""
    import gnpy.core.elements as E
    L.mutate_source(E.Edfa, '_nf', ' + lin2db(50e9 / self.slot_width)', '')


MUTANTS = {'clamp_per_channel': _mut_clamp_per_channel, 'ase_at_output': _mut_ase_at_output,
           'padding_lost': _mut_padding_lost, 'wrong_mean_under_tilt': _mut_wrong_mean_under_tilt,
           'nf_not_monotone': _mut_nf_not_monotone, 'out_voa_ignored': _mut_out_voa_ignored,
           'ripple_cached': _mut_ripple_cached, 'nf_poly_unclamped': _mut_nf_poly_unclamped,
           'openroadm_power_not_per_50ghz': _mut_openroadm_power_not_per_50ghz}
