"""C08 - auto-design turns any well-formed topology into a complete line system.

B1  TLC explores the typed graph-rewriting model spec/DesignStructure.tla (SplitFiber, AddPreamp/AddBooster per ROADM,
    AddInline, CompleteFiber, PadSpan, SetAmp) on every topology x Span setting of MC_DesignStructure with the clauses
    of C08 as invariants.
B2  the same TLC run prints every enumerated (topology, settings) case; each is rendered as topology JSON + equipment
    overrides (gnpy/example-data/eqpt_config.json loaded as JSON and modified), run through the real
    designed_network(), and the observed designed graph is judged by spec/Trace_Design.tla (same clause operators).
B3  every shipped network, designed with its own equipment library, is judged by the same predicates.
"""
import json
import os
import time

from harness import tlc
from harness import design_util as du
from harness import design_util_c08 as du8
from harness.core import Machinery
from harness.gnpy_util import EX, TD, NONE

CLAUSES = ['VoaIsAttenuation', 'NoInsertionWhenNotAsked', 'UserAttenuatorKept', 'ChainsOneInOneOut', 'UniqueNames', 'RoadmReachabilityUnchanged', 'NothingLostNothingInvented',
           'EveryJunctionAmplified', 'AmplifiersOnlyAtJunctions', 'SplitIsEqualAndConservative', 'EveryAmpConfigured',
           'EveryFiberHasConnectors', 'DefaultConnectorsApplied', 'SpanAtLeastPadding']

SHIPPED_QUICK = [
    (EX / 'meshTopologyExampleV2.json', EX / 'eqpt_config.json'),
    (EX / 'Sweden_OpenROADMv4_example_network.json', EX / 'eqpt_config_openroadm_ver4.json'),
    (EX / 'multiband_example_network.json', EX / 'eqpt_config_multiband.json'),
    (EX / 'fused_roadm_example_network.json', EX / 'eqpt_config.json'),
    (EX / 'raman_edfa_example_network.json', EX / 'eqpt_config.json'),
    (EX / 'edfa_example_network.json', EX / 'eqpt_config.json'),
    (TD / 'LinkforTest.json', TD / 'eqpt_config.json'),
    (TD / 'bugfixiteratortopo.json', TD / 'eqpt_config.json'),
    (TD / 'test_network.json', TD / 'eqpt_config.json'),
    (TD / 'twohops_roadm_power_test.json', TD / 'eqpt_config.json'),
    (TD / 'network_per_frequency_loss_expected.json', TD / 'eqpt_config.json'),
]
SHIPPED_MORE = [
    (EX / 'Sweden_OpenROADMv5_example_network.json', EX / 'eqpt_config_openroadm_ver5.json'),
    (TD / 'perdegreemeshTopologyExampleV2_auto_design_expected.json', TD / 'eqpt_config.json'),
    (TD / 'testTopology_auto_design_expected.json', TD / 'eqpt_config.json'),
    (TD / 'testTopology_expected.json', TD / 'eqpt_config.json'),
    (TD / 'test_long_network.json', TD / 'eqpt_config.json'),
]
SHIPPED_THOROUGH = SHIPPED_QUICK + SHIPPED_MORE + [
    (EX / 'CORONET_CONUS_Topology.json', EX / 'eqpt_config.json'),
    (EX / 'CORONET_Global_Topology.json', EX / 'eqpt_config.json'),
    (TD / 'CORONET_Global_Topology_expected.json', TD / 'eqpt_config.json'),
]


def mc_cfg(tier, emit=True, emit_ext=False):
    """emit: list the single-use cases (shared with C17); emit_ext: list the cases in which the designed network object is
    extended and designed again"""
    base = (tlc.SPEC / 'MC_DesignStructure.cfg').read_text().replace('Tier = "quick"', f'Tier = "{tier}"')
    return base + ('INVARIANT Emit\n' if emit else '') + ('INVARIANT EmitExt\n' if emit_ext else '')


def features(case):
    """coarse class of a generated case, used in violation signatures"""
    types = [e['t'] for e in case['g']]
    user_amp = any(e['t'] in ('Edfa', 'Multiband_amplifier') for e in case['g'])
    raman_after_roadm = any(e['t'] == 'Roadm' and any(case['g'][j - 1]['t'] == 'RamanFiber' for j in e['s'])
                            for e in case['g'])
    per_freq = any(e.get('ct') for e in case['g'])
    if case.get('x'):          # second use of the network object
        return features(dict(case, x=None)) + '|extended-and-designed-again'
    opts = sorted({e['o'] for e in case['g'] if e.get('o') and e['o'] != 'pmd'})
    if opts:          # user parameters beyond the basic ones: the class of the case is that parameter
        return '|'.join(f'opt={o}' for o in opts) + ('' if case['s'].get('insert', True) else '|no_insert_edfas')
    return (f"raman={int('RamanFiber' in types)}|raman_after_roadm={int(raman_after_roadm)}|"
            f"fused={int('Fused' in types)}|useramp={int(user_amp)}" + ('|perfreq=1' if per_freq else '')
            + ('' if case['s'].get('insert', True) else '|no_insert_edfas') + ('|multiband' if case['s'].get('bands', 1) == 2 else ''))


def case_name(case):
    """readable, stable id of a generated case: the chains in link order + settings"""
    g = case['g']
    chains = []
    for e in g:
        if e['t'] != 'Roadm':
            continue
        for j in e['s']:
            x = g[j - 1]
            if x['t'] == 'Transceiver':
                continue
            parts = []
            while x['t'] not in ('Roadm', 'Transceiver'):
                tag = {'Fiber': 'F', 'RamanFiber': 'R', 'Fused': 'X', 'Edfa': 'A', 'Multiband_amplifier': 'M'}[x['t']]
                if x['t'] in ('Fiber', 'RamanFiber'):
                    tag += str(x['l'] / 1000).rstrip('0').rstrip('.')
                    if x.get('ai', 0) not in (0, NONE):
                        tag += f"+att{x['ai'] // 1000000}"
                    if x['t'] == 'Fiber' and (x['ci'] != NONE or x['co'] != NONE):
                        tag += '+con' + ('I' if x['ci'] != NONE else '') + ('O' if x['co'] != NONE else '')
                    if x.get('o'):
                        tag += '+' + x['o']
                    if x.get('ct'):
                        tag += '+perfreq'
                if x['t'] == 'Fused':
                    pass
                if x['t'] == 'Multiband_amplifier':
                    tag += 'none' if not x['u'] else 'zero' if x['u'][0]['gain'] == NONE else 'full'
                if x['t'] == 'Edfa':
                    u = x['u'][0]
                    tag += 'zero' if u['gain'] == NONE and u['dp'] == 0 else 'full' if u['gain'] != NONE else 'partial' if u['variety'] else 'voa' if u['voa'] != NONE else 'none'
                parts.append(tag)
                x = g[x['s'][0] - 1]
            chains.append(f"{e['n'][-1]}{x['n'][-1]}:" + '-'.join(parts))
    s = case['s']
    if case.get('x'):          # the designed network is extended in memory and designed again
        chains.append('then ' + ' '.join(f"+F{str(x['e']['l'] / 1000).rstrip('0').rstrip('.')} behind {x['at']}" for x in case['x']))
    chains = [f"{e['n']}+{e['o']}" for e in g if e['t'] == 'Roadm' and e.get('o')] + chains
    return ' '.join(chains) + f" | pad={s['padding'] // 1000000} eol={s['eol'] // 1000000} " \
                              f"max={s['maxLen'] // 1000} {'power' if s['powerMode'] else 'gain'}" \
                              f"{' SI=ampband' if s.get('siBand') and s['siBand'] == s.get('ampBand') else ''}" \
                              f"{' maxlen-in-m' if s.get('lenUnits') == 'm' else ''}" \
                              f"{'' if s.get('insert', True) else ' no-insert'}" \
                              f"{' C+L' if s.get('bands', 1) == 2 else ''}{' P=%+.1f' % (s['power'] / 10) if s.get('power') else ''}"


def _b2_one(c):
    """worker: design one TLC case with the real code; returns (trace or None, violation or None)"""
    name = case_name(c)
    topo = du.render_topology(c)
    eq = du.equipment_for(c['s'])
    s = dict(c['s'])
    s['lib'] = sorted(eq['Edfa'].keys())
    s['maxLen'] = s['maxLen'] * 100                         # the model counts metres, observations are in cm
    try:
        # amplifier insertion off = the public entry point's no_insert_edfas=True
        if c.get('x'):
            before, ev = du8.design_extend_design(topo, eq, c, no_insert_edfas=not s.get('insert', True))
            return dict(name=name, s=s, inp=before, ev=ev, _case=c, _topo=topo), None
        before, names, net, _, _ = du.design(topo, eq, no_insert_edfas=not s.get('insert', True))
        g = du.project_network(net, names)
    except Machinery:
        raise
    except Exception as e:                                   # noqa - an exception on a well-formed topology
        msg, tb = du.exc_text(e)
        return None, (f'B2|exception|{type(e).__name__}|{features(c)}',
                      dict(case=name, exception=msg, traceback=tb, topology=topo, span=c['s']))
    return dict(name=name, s=s, inp=before, ev=[dict(op='Design', g=g)], _case=c, _topo=topo), None


def b2_traces(cases, chk):
    """run the real design on every TLC case; returns trace records (one Design event each)"""
    du.equipment_base('example-data')                          # parsed once, inherited by the workers
    traces = []
    for c, (tr, viol) in zip(cases, du.parallel_map(_b2_one, cases)):
        if viol:
            chk.case(case_name(c), nontrivial=True)
            chk.violation(*viol)
        else:
            traces.append(tr)
    return traces


def b3_traces(pairs, chk):
    from gnpy.tools.json_io import load_equipments_and_configs, load_json
    traces = []
    eqs = {}
    for topo_file, eq_file in pairs:
        if eq_file not in eqs:
            eqs[eq_file] = load_equipments_and_configs(eq_file, [], [])
        eq = eqs[eq_file]
        doc = load_json(topo_file)
        name = f'{topo_file.parent.name}/{topo_file.name}'
        try:
            before, names, net, _, _ = du.design(du.as_loadable(doc), eq)
            g = du.project_network(net, names)
        except Machinery:
            raise
        except Exception as e:                                   # noqa
            msg, tb = du.exc_text(e)
            chk.violation(f'B3|{name}|exception|{type(e).__name__}', dict(network=name, exception=msg, traceback=tb))
            continue
        traces.append(dict(name=name, s=du.settings_of(eq), inp=before, ev=[dict(op='Design', g=g)],
                           _grew=len(g) - len(before)))
    return traces


def judge(traces, chk, tag, batch=400):
    """second TLC pass: Trace_Design judges the observed graphs; returns {name: verdict}"""
    verdicts = {}
    for k in range(0, len(traces), batch):
        part = traces[k:k + batch]
        data = '\n'.join(json.dumps({a: b for a, b in t.items() if not a.startswith('_')}) for t in part) + '\n'
        # chains of several hundred elements (CORONET) are walked recursively: give the JVM threads a deep stack
        res = tlc.run('Trace_Design', extra_files={'trace.ndjson': data},
                      env={'TRACE_FILE': 'trace.ndjson', 'JAVA_TOOL_OPTIONS': '-Xss512m'},
                      workers=min(4, max(1, len(part) // 50)) if len(part) > 50 else 1, timeout=3000, tag=tag)
        if not res.ok:
            raise Machinery(f'trace validation run failed: {res.error or res.violated}\n{res.out[-2500:]}')
        chk.states += res.distinct
        chk.transitions += res.generated
        for v in res.emitted:
            verdicts[v['name']] = v
    for t in traces:
        v = verdicts.get(t['name'])
        if v is None:
            raise Machinery(f'no verdict for trace {t["name"]}')
        if v['n'] != len(t['ev']):
            raise Machinery(f'trace {t["name"]} consumed {v["n"]}/{len(t["ev"])} events')
    return verdicts


def run(chk):
    tier = chk.tier
    # the stage before auto-design: what network_from_json makes of a topology document and the library (NetworkLoad.tla) -
    # "well-formed topology" is what this stage accepts, and the parameters it resolves are what the design then completes
    from harness import netload_util
    netload_util.run_part(chk)
    # ---- B1 (+ emission of the cases for B2: thorough in the same exhaustive run; quick: B1 explores the model under
    # four settings per topology and a second, enumeration-only run lists the cases of the half fraction for B2)
    t0 = time.time()
    w = min(int(os.environ.get('VERIF_TLC_WORKERS', '16')), 6)       # ~20-400 k states: more workers only add contention
    if tier == 'thorough':
        r = tlc.run('MC_DesignStructure', cfg_text=mc_cfg(tier, emit_ext=True), timeout=3000, tag='c08-mc', workers=w)
        chk.add_mc(f'MC_DesignStructure Tier={tier} (all C08 clauses as invariants)', r)
        cases = r.emitted
    else:
        r = tlc.run('MC_DesignStructure', cfg_text=mc_cfg('b1quick', emit=False), timeout=3000, tag='c08-mc', workers=w)
        chk.add_mc('MC_DesignStructure Tier=b1quick (all C08 clauses as invariants)', r)
        e = tlc.run('MC_DesignStructure', cfg_text=mc_cfg('quick', emit_ext=True) + 'CONSTRAINT InitialOnly\n', timeout=3000,
                    tag='c08-emit', workers=w)
        if not e.ok:
            raise Machinery(f'case enumeration failed: {e.error}')
        cases = e.emitted
    chk.exhaustive = True
    chk.cov['t_b1_s'] = round(time.time() - t0, 1)
    if not cases:
        raise Machinery('MC_DesignStructure emitted no case')
    chk.cov['b2_cases_listed'] = len(cases)
    if tier == 'quick':
        # sample of the listed cases that the real code designs in the quick tier: the max_length = 150 km quarter of the
        # half fraction (padding, EOL, mode pairwise complete; SI band and length unit are functions of them) for every
        # topology, the 80 km quarter too where a fibre of 95 km or more has to be split differently
        cases = [c for c in cases if c['s']['maxLen'] > 100000 or any(e['l'] >= 95000 for e in c['g']) or c.get('x')]
        big = sorted((c for c in cases if sum(1 for e in c['g'] if e['t'] == 'Roadm') > 2), key=case_name)
        drop = {case_name(c) for k, c in enumerate(big) if k % 3 != chk.seed % 3}       # a third of the 3-ROADM cases
        cases = [c for c in cases if case_name(c) not in drop]
    chk.cov['b2_cases_enumerated'] = len(cases)
    if tier == 'thorough':
        witnesses(chk)
    # ---- B2
    traces = b2_traces(cases, chk)
    chk.cov['t_b2_designed_s'] = round(time.time() - t0, 1)
    verdicts = judge(traces, chk, 'c08-b2')
    chk.cov['t_b2_judged_s'] = round(time.time() - t0, 1)
    exercised = set()
    for t in traces:
        v = verdicts[t['name']]
        c = t['_case']
        chk.case(t['name'], nontrivial=len(t['ev'][0]['g']) > len(t['inp']))
        if any(cl.startswith('~') for _, cl in v['viol']):
            raise Machinery(f'generated case {t["name"]} is not well-formed')
        if v['viol']:
            for _, clause in v['viol']:
                chk.violation(f'B2|{clause}|{features(c)}',
                              dict(case=t['name'], clause=clause, topology=t['_topo'], span=c['s']))
        else:
            chk.traces += 1
        if len(chk.samples) < 2 and 'X' in t['name'] and 'A' in t['name']:
            chk.sample(dict(kind='B2 case enumerated by TLC, designed by the real designed_network, judged by Trace_Design',
                            case=t['name'], designed=[f"{e['type']}:{e['name']}" for e in t['ev'][0]['g']],
                            verdict=v['viol']))
    chk.cov['b2_designed'] = len(traces)
    # ---- B3
    pairs = SHIPPED_THOROUGH if tier == 'thorough' else SHIPPED_QUICK
    t3 = b3_traces(pairs, chk)
    v3 = judge(t3, chk, 'c08-b3', batch=6)
    for t in t3:
        v = v3[t['name']]
        chk.case('B3:' + t['name'], nontrivial=t['_grew'] > 0)
        if any(cl.startswith('~') for _, cl in v['viol']):
            chk.cov.setdefault('b3_unjudged_input_not_well_formed', []).append(t['name'])
        elif v['viol']:
            for _, clause in v['viol']:
                chk.violation(f'B3|{t["name"]}|{clause}', dict(network=t['name'], clause=clause))
        else:
            chk.traces += 1
        if t['_grew'] > 0:
            chk.sample(dict(kind='B3 shipped network designed and judged', network=t['name'],
                            elements_before=len(t['inp']), elements_after=len(t['ev'][0]['g']), verdict=v['viol']),
                       limit=4)
    chk.cov['b3_networks'] = len(t3)
    chk.cov['clauses'] = CLAUSES
    chk.cov['rule'] = ('cases = the (topology, Span settings) pairs enumerated by TLC from MC_DesignStructure plus the '
                       'shipped networks; a case is non-trivial when auto-design added at least one element '
                       '(amplifier or split span) or raised; distinct by chain composition + settings / file name')
    chk.cov['tolerance_udb'] = 10
    # measured on this run: |loss - padding| of the padded single-fibre amplifier-to-amplifier spans (float noise)
    dev = [abs(e['loss'] - t['s']['padding']) for t in traces for e in t['ev'][0]['g']
           if e['type'] == 'Fiber' and e['attIn'] not in (0, NONE) and e['origin'] == '' and t['s']['padding'] > 0
           and all(t['ev'][0]['g'][j - 1]['type'] == 'Edfa' for j in e['succ'] + e['pred'])
           and not any(i['name'] == e['name'] and i['attIn'] not in (0, NONE) for i in t['inp'])]
    chk.cov['padded_spans_measured'] = len(dev)
    chk.cov['measured_padding_deviation_udb'] = max(dev, default=0)
    chk.assume('well-formed topology: every ROADM has one transceiver; no parallel links between two ROADMs; '
               'fibres of the generated cases are SSMF 0.2 dB/km with connector losses left to the Span defaults; '
               'Raman fibres carry their own connector losses (RamanFiber() raises TypeError on con_out = None)')
    chk.assume('generated chains (spec/MC_DesignStructure.tla): single fibres 0.05..1200 km; Fiber Fused [Fused] Fiber; Fiber '
               'UserAmp(full|partial|none|voa only|explicit zeros) Fiber; joined fibres; RamanFiber alone / next to a fibre / '
               'spliced to one / behind a user amplifier; user att_in, single connector, per-frequency loss, pmd / lumped '
               'loss / dispersion overrides; already split spans; user-complete line systems (also with '
               'no_insert_edfas); C+L multiband sites; 140 km under a design power sweep; settings padding 0/10, EOL 0/1, '
               'max_length 80/(100)/150 km given in km or m, power/gain mode, SI band inside / equal to the amplifier band; '
               'links given as two / three directly connected sections that are each longer than the maximum; '
               'second use of a network object (DesignStructure.Extend): a designed 2-ROADM network gets a 400 km '
               'section (behind a plain 80 km fibre also 20 km, or 400 + 151 km) behind the last fibre of line A -> B in memory and is designed again, both '
               'designs judged, the second against the extended graph it was given; '
               'the reverse direction carries the mirrored chain (plain 80 km fibre opposite a Raman chain)')
    chk.assume('quick tier: TLC checks the model exhaustively under two settings per 2-ROADM topology and lists the half '
               'fraction of the settings; the real code designs the 150 km quarter of them (80 km quarter too for fibres '
               '>= 95 km) and a third of the 3-ROADM cases; thorough: every listed case')
    chk.assume('SpanAtLeastPadding judges amplifier-to-amplifier spans without Raman fibre only; a span starting at a '
               'ROADM or transceiver (Fused after ROADM = documented no-booster idiom) is not judged')
    chk.assume('trusted: TLC, Json/IOUtils community modules, the projection in harness/design_util.py (reads uid, type, '
               'params.length/loss_coef/con_in/con_out/att_in, .loss, Edfa effective_gain/out_voa/delta_p/type_variety; '
               'maps <uid>_(i/k) to origin <uid>)')


def witnesses(chk):
    """non-vacuity: every clause's antecedent is reachable in the bounded model (TLC must find each witness)"""
    mod = r'''---- MODULE VacDS ----
EXTENDS MC_DesignStructure
W1 == ~(Designed /\ \E e \in SpanEnds(g) : Judged(g, e) /\ SpanLoss(g, e) = cfg.padding /\ cfg.padding > 0)
W2 == ~(Designed /\ \E e \in SpanEnds(g) : ~Judged(g, e) /\ \E i \in SpanOf(g, e) : g[i].type = "RamanFiber")
W3 == ~(Designed /\ \E i \in Fibres(inp) : Cardinality({j \in Nodes(g) : g[j].origin = inp[i].name}) = 13)
W4 == ~(Designed /\ \E i \in Added(inp, g) : IsAmp(g[i]) /\ IsFib(g[Prev1(g, i)]) /\ IsFib(g[Next1(g, i)]))
W5 == ~(Designed /\ \E i \in Amps(g) : i \notin Added(inp, g) /\ inp[i].sub[1].gain = NONE /\ g[i].sub[1].gain # NONE)
W6 == ~(Designed /\ \E i \in Fibres(g) : g[Next1(g, i)].type = "Fused" /\ cfg.eol > 0 /\ g[i].conOut = cfg.conOut)
W7 == ~(Designed /\ \E i \in Nodes(g), j \in Nodes(g) : g[i].type = "Fused" /\ j \in g[i].succ /\ IsFib(g[j]))
W8 == ~(Designed /\ ~cfg.powerMode /\ \E i \in Amps(g) : g[i].sub[1].dp = NONE)
W9 == ~(Designed /\ round = 2 /\ \E i \in Added(inp, g) : IsFib(g[i]) /\ IsAmp(g[Prev1(g, i)]) /\ Prev1(g, i) \in Added(inp, g))
W10 == ~(Designed /\ \E i \in Fibres(inp), j \in Fibres(inp) : j \in inp[i].succ /\ inp[i].len > cfg.maxLen /\ inp[j].len > cfg.maxLen)
====
'''
    base = '\n'.join(ln for ln in mc_cfg('quick', emit=False).splitlines() if not ln.startswith('INVARIANT'))
    found = []
    for w in ['W1', 'W2', 'W3', 'W4', 'W5', 'W6', 'W7', 'W8', 'W9', 'W10']:
        r = tlc.run('VacDS', cfg_text=base + f'\nINVARIANT {w}\n', extra_modules={'VacDS': mod}, timeout=900,
                    tag='c08-vac')
        if r.violated != w:
            raise Machinery(f'vacuity: no witness for {w} in MC_DesignStructure: {r.error}')
        found.append(w)
    chk.cov['witnesses_found'] = found


# ------------------------------------------------------------------------------------------------------- mutants
def _mut_split_same_name():
    """split spans all carry the same uid (index left out of the name)"""
    import gnpy.core.network as nw
    from gnpy.core import elements
    orig_fiber = elements.Fiber

    class _Fiber(orig_fiber):
        def __init__(self, *a, **k):
            uid = k.get('uid', '')
            m = du._SPLIT.match(uid) if isinstance(uid, str) else None
            if m:
                k['uid'] = f'{m.group(1)}_(1/{m.group(3)})'
            super().__init__(*a, **k)
    _Fiber.__name__ = 'Fiber'
    orig_split = nw.split_fiber

    def split_fiber(network, fiber, bounds, target_length):
        saved = nw.elements.Fiber
        nw.elements.Fiber = _Fiber
        try:
            return orig_split(network, fiber, bounds, target_length)
        finally:
            nw.elements.Fiber = saved
    nw.split_fiber = split_fiber


def _mut_inline_stale_list():
    """add_missing_elements_in_network iterates the inline-amplifier loop over the fibre list taken before the split"""
    import gnpy.core.network as nw
    from gnpy.core import elements
    from gnpy.core.utils import convert_length

    def add_missing_elements_in_network(network, equipment):
        sp = equipment['Span']['default']
        max_length = int(convert_length(sp.max_length, sp.length_units))
        min_length = max(int(sp.padding / 0.2 * 1e3), 50_000)
        bounds = range(min_length, max_length)
        target_length = max(min_length, min(max_length, 90_000))
        fibers = [f for f in network.nodes() if isinstance(f, elements.Fiber)]
        for fiber in fibers:
            nw.split_fiber(network, fiber, bounds, target_length)
        for roadm in [r for r in network.nodes() if isinstance(r, elements.Roadm)]:
            nw.add_roadm_preamp(network, roadm)
            nw.add_roadm_booster(network, roadm)
        for fiber in fibers:                                   # stale list: split spans are missing
            if fiber in network:
                nw.add_inline_amplifier(network, fiber)
    nw.add_missing_elements_in_network = add_missing_elements_in_network
    import gnpy.tools.worker_utils as wu
    wu.add_missing_elements_in_network = add_missing_elements_in_network


def _mut_padding_skips_fused_chain():
    """add_fiber_padding does not pad a span whose fibres are spliced (previous node is a Fused)"""
    import gnpy.core.network as nw
    from gnpy.core import elements
    orig = nw.add_fiber_padding

    def add_fiber_padding(network, fibers, padding, equipment):
        keep = [f for f in fibers if not isinstance(next(network.predecessors(f)), elements.Fused)]
        return orig(network, keep, padding, equipment)
    nw.add_fiber_padding = add_fiber_padding


def _mut_split_integer_length():
    """calculate_new_length truncates the span length to whole metres"""
    import gnpy.core.network as nw
    orig = nw.calculate_new_length

    def calculate_new_length(fiber_length, bounds, target_length):
        length, n = orig(fiber_length, bounds, target_length)
        return (float(int(length)) if n > 1 else length), n
    nw.calculate_new_length = calculate_new_length


def _mut_gain_mode_no_voa():
    """set_amplifier_voa leaves out_voa unset in gain mode"""
    import gnpy.core.network as nw
    orig = nw.set_amplifier_voa

    def set_amplifier_voa(amp, power_target, power_mode, voa_margin, voa_step):
        if not power_mode and amp.out_voa is None:
            if amp.in_voa is None:
                amp.in_voa = 0
            return
        return orig(amp, power_target, power_mode, voa_margin, voa_step)
    nw.set_amplifier_voa = set_amplifier_voa


def _mut_preamp_skipped_after_split():
    """add_roadm_preamp skips predecessors that are split spans (uid test instead of type test)"""
    import gnpy.core.network as nw
    orig = nw.add_roadm_preamp

    def add_roadm_preamp(network, roadm):
        hidden = [(p, roadm, network[p][roadm]) for p in list(network.predecessors(roadm))
                  if du._SPLIT.match(p.uid)]
        for p, r, _ in hidden:
            network.remove_edge(p, r)
        orig(network, roadm)
        for p, r, d in hidden:
            network.add_edge(p, r, **d)
    nw.add_roadm_preamp = add_roadm_preamp


def _mut_asdict_drops_frequency():
    """FiberParams.asdict() returns a per-frequency loss coefficient without its frequency reference (split spans are
    rebuilt from it)"""
    from gnpy.core.parameters import FiberParams
    orig = FiberParams.asdict

    def asdict(self):
        d = orig(self)
        if isinstance(d.get('loss_coef'), dict):
            import numpy as np
            d['loss_coef'] = np.asarray(d['loss_coef']['value'])
        return d
    FiberParams.asdict = asdict


def _netload_mutant(name):
    def f():
        from harness import netload_util
        netload_util.MUTANTS[name]()
    return f


MUTANTS = {'netload_zero_is_absent': _netload_mutant('zero_is_absent'), 'netload_weight_entering_fibre': _netload_mutant('weight_entering_fibre'),
           'asdict_drops_frequency': _mut_asdict_drops_frequency, 'split_same_name': _mut_split_same_name, 'inline_stale_list': _mut_inline_stale_list,
           'padding_skips_fused_chain': _mut_padding_skips_fused_chain,
           'split_integer_length': _mut_split_integer_length, 'gain_mode_no_voa': _mut_gain_mode_no_voa,
           'preamp_skipped_after_split': _mut_preamp_skipped_after_split}
