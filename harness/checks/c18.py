"""C18 - input documents mean the same thing in legacy and YANG form; alias entries report their name.

B1  TLC checks MC_Documents: every abstract document of the vocabulary (topology / equipment / service / spectrum /
    sim-params) through ToYang, ToLegacy, Again, Load with RoundTrip, Idempotent, StructurePreserved, AliasInv.
B2  TLC emits every abstract document; the harness renders it to legacy JSON, runs the REAL legacy_to_yang,
    yang_to_legacy (libyang validation included), legacy_to_yang again and the REAL file loaders on both forms,
    projects everything back to the vocabulary and Trace_Documents.tla (TLC) judges the clauses.
B3  every shipped JSON document is round-tripped twice and loaded in both forms; the leaf / object-graph value
    vectors are judged by the same trace specification.
"""
import copy
import json
import random
import re
import shutil
import tempfile
import traceback
from pathlib import Path

from harness import tlc
from harness.core import Machinery
from harness.gnpy_util import EX, TD, REPO, equipment
from harness import documents_util as du

ROOT = Path(__file__).resolve().parent.parent.parent
QUICK_SAMPLE = {'topology': 240, 'equipment': 105, 'service': 180, 'spectrum': 40, 'simparams': 48}
MINI_TOPO = {'elements': [{'uid': 'trx A', 'type': 'Transceiver'}, {'uid': 'trx B', 'type': 'Transceiver'},
                          {'uid': 'fiber', 'type': 'Fiber', 'type_variety': 'SSMF',
                           'params': {'length': 50.0, 'loss_coef': 0.2, 'length_units': 'km', 'att_in': 0,
                                      'con_in': 0.5, 'con_out': 0.5}}],
             'connections': [{'from_node': 'trx A', 'to_node': 'fiber'}, {'from_node': 'fiber', 'to_node': 'trx B'}]}


# ------------------------------------------------------------------------------------------------ real-code side
class Bench:
    def __init__(self):
        from gnpy.core.parameters import SimParams
        du.cache_yang_context()
        self.wd = Path(tempfile.mkdtemp(prefix='c18-', dir=ROOT / 'build'))
        from gnpy.tools.json_io import load_equipments_and_configs
        # example-data library: multiband amplifiers (std_medium_gain_C / _L), RamanFiber, the single-band types of the frame
        self.eq_topo = load_equipments_and_configs(EX / 'eqpt_config_multiband.json', [], [])
        self.eq_serv = equipment('eqpt_config.json')
        self.base_eqpt = EX / 'eqpt_config.json'
        self.mini_topo = self.wd / 'mini_topo.json'
        self.mini_topo.write_text(json.dumps(MINI_TOPO))
        self.sim_saved = dict(SimParams._shared_dict)
        self.eqpt_cache = {}

    def close(self):
        from gnpy.core.parameters import SimParams
        SimParams._shared_dict.update(self.sim_saved)
        shutil.rmtree(self.wd, ignore_errors=True)

    # each loader takes the path of a document file and returns the object graph the real loader builds from it
    def load(self, kind, path, role='main', eqpt=None):
        import gnpy.tools.json_io as jio
        from gnpy.core.parameters import SimParams
        if kind == 'topology':
            net = jio.load_network(path, eqpt or self.eq_topo)
            return {'nodes': {n.uid: n for n in net.nodes()},
                    'edges': sorted(f'{a.uid}->{b.uid}:{w["weight"]!r}' for a, b, w in net.edges(data=True))}
        if kind == 'equipment' and role in ('main', 'reordered', 'written', 'qualified'):
            return jio.load_equipments_and_configs(path, [], [])
        if kind == 'equipment' and role == 'extra':
            return jio.load_equipments_and_configs(self.base_eqpt, [path], [])
        if kind == 'service':
            data = jio.load_requests(path, eqpt or self.eq_serv, bidir=False, network=None, network_filename=None)
            return {'requests': jio.requests_from_json(data, eqpt or self.eq_serv),
                    'disjunctions': jio.disjunctions_from_json(data)}
        if kind == 'spectrum':
            return jio.load_initial_spectrum(path)
        if kind == 'simparams':
            from gnpy.tools.cli_examples import load_common_data
            try:
                load_common_data(self.base_eqpt, [], [], self.mini_topo, path, None)
                sp = SimParams()
                return {'nli': copy.deepcopy(sp.nli_params), 'raman': copy.deepcopy(sp.raman_params)}
            finally:
                SimParams._shared_dict.update(self.sim_saved)
        raise Machinery(f'no loader for {kind}/{role}')

    def load_pair(self, kind, legacy_json, yang_json, role='main', eqpt=None, first=None, want_sides=False):
        """load the same document from a legacy file and from a YANG file -> aligned value-number vectors.
        `first` = an already loaded first side (what load_pair returned as third value) to avoid loading it again"""
        res = [first] if first is not None else []
        for name, data in (('legacy', legacy_json), ('yang', yang_json))[len(res):]:
            p = self.wd / f'{name}.json'
            p.write_text(json.dumps(data))
            flat, err, tb = {}, 'ok', None
            try:
                du.flatten(self.load(kind, p, role, eqpt), '', flat)
                if role == 'extra':
                    flat = {k: v for k, v in flat.items() if not k.startswith('/Span') and '/legacy.json' not in v
                            and '/yang.json' not in v}
            except SystemExit as e:            # load_common_data turns gnpy errors into sys.exit(1)
                err, tb = f'SystemExit({e.code})', traceback.format_exc(limit=3)
            except Exception as e:             # noqa
                err, tb = type(e).__name__, f'{type(e).__name__}: {str(e)[:300]}'
            res.append((flat, err, tb))
        a, b, paths = du.value_numbers(res[0][0], res[1][0])
        diff = [p for p, x, y in zip(paths, a, b) if x != y]
        classes = {k[len('/nodes/'):-len('#class')]: v.strip("'")
                   for k, v in list(res[0][0].items()) + list(res[1][0].items())
                   if k.startswith('/nodes/') and k.endswith('#class') and '.' not in k[len('/nodes/'):].replace('. ', '')}
        sample = {p: (str(res[0][0].get(p))[:200], str(res[1][0].get(p))[:200]) for p in diff[:4]}
        out = (dict(role=role, a=a, b=b, ea=res[0][1], eb=res[1][1]),
               dict(role=role, differing=diff[:12], ndiff=len(diff), all_differing=diff, classes=classes,
                    err_legacy=res[0][2], err_yang=res[1][2], sample=sample))
        return out + (res[1],) if want_sides else out


def observe(bench, doc, as_int, name):
    """run the real converters and loaders on one abstract document -> one trace line (+ report details)"""
    from gnpy.tools.convert_legacy_yang import legacy_to_yang, yang_to_legacy
    kind = doc['kind']
    J = du.RENDER[kind](doc, as_int)
    back, ex = du.PROJECT[kind](copy.deepcopy(J), 'legacy')
    if back != doc:
        raise Machinery(f'harness: rendering then projecting {name} does not give the document back: {ex}\n'
                        f'{json.dumps(doc)[:600]}\n{json.dumps(back)[:600]}')
    tr = dict(name=name, kind='abstract', doc=doc, exc=[], loads=[], lib=[], libok=False, accepted=True)
    det = dict(name=name, legacy_json=J, exceptions=[], loads=[])
    try:
        yang_to_legacy(copy.deepcopy(J))         # what load_gnpy_json does with the legacy file
    except Exception as e:                       # noqa
        tr['accepted'] = False
        det['exceptions'].append(f'loaders refuse the legacy document: {type(e).__name__}: {str(e)[:300]}')
    Y = L = Y2 = None
    # the caller's own document object is handed to legacy_to_yang (as save_gnpy_json / an API user does) and looked at
    # again afterwards: converting must not change it
    J_call = copy.deepcopy(J)
    stages = (('l2y', lambda: legacy_to_yang(J_call), 'yang', 'y'),
              ('y2l', lambda: yang_to_legacy(copy.deepcopy(Y)), 'legacy', 'l'),
              ('l2y2', lambda: legacy_to_yang(copy.deepcopy(L)), 'yang', 'y2'))
    for stage, fn, form, field in stages:
        out = None
        try:
            out = fn()
        except Exception as e:                   # noqa  an exception on a valid document is judged by TLC (Converts*)
            tr['exc'].append(dict(stage=stage, what=type(e).__name__))
            det['exceptions'].append(f'{stage}: {type(e).__name__}: {str(e)[:400]}')
        proj = None
        if out is not None:
            proj, _ = du.PROJECT[kind](copy.deepcopy(out), form)
        tr[field] = proj if proj is not None else du.placeholder(kind, form)
        if stage == 'l2y':
            Y = out
            try:
                ja, _ = du.PROJECT[kind](copy.deepcopy(J_call), 'legacy')
            except Exception:                    # noqa  a document the projection cannot even walk any more
                ja = None
            tr['ja'] = ja if ja is not None else du.placeholder(kind, 'legacy')
        elif stage == 'y2l':
            L = out
        else:
            Y2 = out
        if out is None:
            for _, _, f2, fld in stages:
                tr.setdefault(fld, du.placeholder(kind, f2))
            break
    det['yang_json'], det['back_json'] = Y, L
    tr['lr'] = tr['lw'] = tr['lq'] = tr['lv'] = du.placeholder(kind, 'legacy')
    others = {}
    if Y is not None:
        from gnpy.tools.yang_convert_utils import dump_data
        # two more YANG files of the same document: keyed lists in another order; the file written by gnpy's writer
        for stage, make, field in (('reordered', lambda: du.reorder_keyed_lists(kind, Y), 'lr'),
                                   ('qualified', lambda: du.qualify_identities(kind, Y), 'lq'),
                                   ('revectors', lambda: du.reorder_vector_lists(kind, Y), 'lv'),
                                   ('written', lambda: json.loads(dump_data(copy.deepcopy(Y))), 'lw')):
            try:
                other = make()
                proj, _ = du.PROJECT[kind](yang_to_legacy(copy.deepcopy(other)), 'legacy')
                tr[field] = proj if proj is not None else du.placeholder(kind, 'legacy')
                others[stage] = other
            except Exception as e:               # noqa
                tr['exc'].append(dict(stage=stage, what=type(e).__name__))
                det['exceptions'].append(f'{stage}: {type(e).__name__}: {str(e)[:400]}')
    if Y is not None:
        ld, rep, y_side = bench.load_pair(kind, J, Y, want_sides=True)
        tr['loads'].append(ld)
        det['loads'].append(rep)
        for role, other in others.items():
            if role == 'revectors' or (role in ('reordered', 'qualified') and other == Y):
                continue                         # (the loaded vectors follow the listing order: documents only)                         # this document has no keyed list with two entries: same file
            # "legacy" side of these pairs = the converter's in-memory YANG output written as is
            ld, rep = bench.load_pair(kind, Y, other, role=role, first=y_side)
            tr['loads'].append(ld)
            det['loads'].append(rep)
        if kind == 'equipment':
            ld, rep = bench.load_pair(kind, J, Y, role='extra')
            tr['loads'].append(ld)
            det['loads'].append(rep)
            try:
                p = bench.wd / 'legacy.json'
                p.write_text(json.dumps(J))
                tr['lib'] = du.observed_library(bench.load('equipment', p))
                tr['libok'] = True
            except Exception as e:               # noqa  (already visible as ea of the main load)
                det['exceptions'].append(f'alias view: {type(e).__name__}: {e}')
    return tr, det


# ---------------------------------------------------------------------------------------------- judging with TLC
def judge(traces, chk, tag):
    """one TLC run of Trace_Documents over a batch of trace lines -> {name: [[stage, clause], ...]}"""
    if not traces:
        return {}
    data = '\n'.join(json.dumps(t) for t in traces) + '\n'
    res = tlc.run('Trace_Documents', extra_files={'trace.ndjson': data}, env={'TRACE_FILE': 'trace.ndjson'}, workers=1,
                  timeout=1800, tag=tag, heap='12g')
    if not res.ok:
        raise Machinery(f'trace validation run failed: {res.error or res.violated}\n{res.out[-3000:]}')
    chk.states += res.distinct
    chk.transitions += res.generated
    verdicts = {v['name']: v for v in res.emitted}
    out = {}
    for t in traces:
        v = verdicts.get(t['name'])
        if v is None or v['n'] != 5:
            raise Machinery(f'no complete verdict for trace {t["name"]}')
        out[t['name']] = [tuple(x) for x in v['viol']]
    return out


def diff_components(a, b, path=''):
    """names of the vocabulary components where two abstract documents differ (for the report only)"""
    if isinstance(a, dict) and isinstance(b, dict) and set(a) >= {'t', 'm', 's'} and set(b) >= {'t', 'm', 's'}:
        return [path] if a != b else []
    if isinstance(a, dict) and isinstance(b, dict):
        out = []
        for k in sorted(set(a) | set(b)):
            if k not in a or k not in b:
                out.append(f'{path}.{k}')
            else:
                out += diff_components(a[k], b[k], f'{path}.{k}')
        return out
    if isinstance(a, list) and isinstance(b, list):
        if len(a) != len(b):
            return [f'{path}#len']
        out = []
        for x, y in zip(a, b):
            out += diff_components(x, y, path + '[]')
        return out
    return [path] if a != b else []


def load_groups(flat_paths, classes):
    """coarse, stable description of WHERE two loaded object graphs differ: node classes / library sections"""
    out = set()
    for p in flat_paths:
        m = re.match(r'/nodes/(.*?)(\.|#|$)', p)
        if m:
            out.add(classes.get(m.group(1), 'node'))
        else:
            out.add(re.split(r'[/.#]', p.lstrip('/'))[0] or 'root')
    return ','.join(sorted(out))


def load_what(ld, rep):
    if ld['ea'] != ld['eb']:
        return f'legacy={ld["ea"]},yang={ld["eb"]}'
    return 'values:' + load_groups(rep['all_differing'], rep.get('classes', {}))


def classify(tr, det, stage, clause):
    """stable signature naming the CLASS of failing document + a readable detail record"""
    doc = tr.get('doc', {})
    kind = doc.get('kind', tr.get('dkind', '?'))
    what = ''
    if clause in ('RoundTrip', 'NoForeignKeysInLegacy', 'StructurePreserved', 'KeyedListOrderIrrelevant',
                  'WrittenFileMeansTheSame', 'IdentitySpellingIrrelevant', 'KeyedPairsStayTogether') and tr.get('l'):
        obs = tr[{'KeyedListOrderIrrelevant': 'lr', 'WrittenFileMeansTheSame': 'lw',
                  'IdentitySpellingIrrelevant': 'lq', 'KeyedPairsStayTogether': 'lv'}.get(clause, 'l')]
        ref = doc if obs is tr['l'] else dict(tr['l'], extra=[])
        comps = diff_components(ref, dict(obs, extra=[])) if obs.get('extra') != ['~no-document'] else []
        comps = sorted({re.sub(r'\[\]|#len', '', c).split('.')[1] + '.' + re.sub(r'\[\]|#len', '', c).split('.')[2]
                        if c.count('.') >= 2 else c for c in comps})
        what = ','.join(comps[:4])
    elif clause in ('YangFormAsSpecified', 'NoForeignKeysInYang'):
        keys = sorted({re.sub(r'/\d+', '/#', e) for e in tr['y'].get('extra', [])})
        what = ','.join(keys[:4])
    elif clause == 'InputDocumentUntouched':
        comps = diff_components(doc, dict(tr['ja'], extra=[])) if tr['ja'].get('extra') != ['~no-document'] else []
        what = ','.join(sorted({'.'.join(re.sub(r'\[\]|#len', '', c).split('.')[1:3]) for c in comps})[:3])
    elif clause == 'Idempotent':
        comps = diff_components(tr['y'], tr['y2'])
        what = ','.join(sorted({'.'.join(re.sub(r'\[\]|#len', '', c).split('.')[1:3]) for c in comps})[:4])
    elif clause.startswith('Converts'):
        what = ','.join(sorted({e['stage'] + ':' + e['what'] for e in tr['exc']}))
    elif clause.startswith('SameLoaded'):
        role = clause.split('_', 1)[1]
        ld = next(x for x in tr['loads'] if x['role'] == role)
        rep = next(x for x in det['loads'] if x['role'] == role)
        what = load_what(ld, rep)
    elif clause == 'AliasesReportTheirName':
        bad = sorted({o['cat'] for o in tr['lib'] if o['reports'] != o['key']})
        what = 'reports-other-name:' + ','.join(bad) if bad else 'names-missing-or-parameters-differ'
    return f'B2|{kind}|{clause}|{what}'


# ------------------------------------------------------------------------------------------------------ B3 files
NORMALISED = [  # documented normalisations of the converters (not value changes): see chk.assume below
    (r'/per_degree_(pch_out_db|psd_out_mWperGHz|psd_out_mWperSlotWidth)\{\}$', 'an empty per-degree dictionary is dropped'),
    (r'/Roadm/\d+/type_variety$', "a Roadm library entry without type_variety is the 'default' one"),
    (r'/metadata/location/(city|region)$', 'a null city/region is the empty string'),
    (r'/params/(loss_coef_per_frequency|loss_coef)(/|$)', 'exported per-frequency loss lists are the legacy loss_coef dictionary'),
    (r'/params\{\}$', 'a params dictionary left empty by the above'),
]
def eqpt_for(path):
    """the equipment library the repository's tests / examples use with this topology or service file"""
    here = EX if path.parent == EX else TD
    if 'multiband' in path.name:
        return here / 'eqpt_config_multiband.json', (), ()
    if 'OpenROADMv4' in path.name:
        return EX / 'eqpt_config_openroadm_ver4.json', (), ()
    if 'OpenROADMv5' in path.name:
        return EX / 'eqpt_config_openroadm_ver5.json', (), ()
    if path.name == 'service_pluggable.json':
        return EX / 'eqpt_config.json', (EX / 'extra_eqpt_config.json', TD / 'extra_eqpt_config.json'), \
            (TD / 'user_edfa_config.json',)
    return here / 'eqpt_config.json', (), ()


def file_kind(d):
    inner = d
    for ns, k in ((du.TOPO_NS, 'topology'), (du.EQPT_NS, 'equipment'), (du.SERV_NS, 'service'), (du.SPEC_NS, 'spectrum'),
                  (du.SIM_NS, 'simparams'), ('gnpy-edfa-config:edfa-config', 'edfa-config'),
                  ('gnpy-path-computation:responses', 'response'), ('gnpy-api:api', 'api')):
        if ns in d:
            return k, 'yang'
    if 'elements' in inner:
        return 'topology', 'legacy'
    if any(k in inner for k in ('Edfa', 'Transceiver', 'Fiber', 'Roadm')):
        return 'equipment', 'legacy'
    if 'path-request' in inner:
        return 'service', 'legacy'
    if 'spectrum' in inner:
        return 'spectrum', 'legacy'
    if any(k in inner for k in ('raman_params', 'nli_params')):
        return 'simparams', 'legacy'
    if any(k in inner for k in ('nf_fit_coeff', 'nf_ripple', 'gain_ripple', 'dgt')):
        return 'edfa-config', 'legacy'
    if 'response' in inner:
        return 'response', 'legacy'
    return 'other', 'legacy'


def observe_file(bench, path):
    from gnpy.tools.convert_legacy_yang import legacy_to_yang, yang_to_legacy
    from gnpy.yang.precision_dict import PRECISION_DICT
    name = str(path.relative_to(REPO))
    try:
        orig = json.loads(path.read_text())
    except Exception:                                   # noqa
        return None, dict(name=name, status='not JSON')
    if not isinstance(orig, dict):
        return None, dict(name=name, status='not a JSON object')
    kind, form = file_kind(orig)
    if kind in ('other', 'response', 'api', 'edfa-config'):
        return None, dict(name=name, status=f'{kind}: not one of the five document kinds of the property')
    tr = dict(name=name, kind='file', dkind=kind, form=form, st='ok', loads=[])
    det = dict(name=name, loads=[])
    try:
        y1 = legacy_to_yang(copy.deepcopy(orig))
        l1 = yang_to_legacy(copy.deepcopy(y1))
    except Exception as e:                              # noqa
        # the loaders (load_gnpy_json) reject this file: outside "every document accepted by the loaders"
        return None, dict(name=name, status=f'rejected by the loaders ({type(e).__name__}: {str(e)[:160]})')
    try:
        y2 = legacy_to_yang(copy.deepcopy(l1))
        l2 = yang_to_legacy(copy.deepcopy(y2))
    except Exception as e:                              # noqa
        tr['st'] = 'second-round-failed'
        det['exception'] = f'{type(e).__name__}: {str(e)[:300]}'
        for k in ('o', 'same', 'l1', 'l2', 'y1', 'y2', 'inprec', 'norm'):
            tr[k] = []
        return tr, det
    views = {'o': du.leaves(orig, PRECISION_DICT), 'l1': du.leaves(l1, PRECISION_DICT), 'l2': du.leaves(l2, PRECISION_DICT),
             'y1': du.leaves(y1, PRECISION_DICT), 'y2': du.leaves(y2, PRECISION_DICT)}
    paths = sorted(set().union(*[set(v) for v in views.values()]))
    ids = {}
    for k, v in views.items():
        tr[k] = [ids.setdefault(v[p][:3], len(ids) + 1) if p in v else 0 for p in paths]
    tr['same'] = tr['l1'] if form == 'legacy' else tr['y1']
    tr['inprec'] = [bool(views['o'][p][3]) if p in views['o'] else True for p in paths]
    tr['norm'] = [any(re.search(rx, p) for rx, _ in NORMALISED) for p in paths]
    det['paths'] = paths
    det['views'] = {k: views[k] for k in ('o', 'l1', 'y1')}
    # documents with leaves beyond the declared precision are loaded from their once-converted (in-precision) form
    exact = all(tr['inprec'])
    leg, yang = ((orig if exact else l1), y1) if form == 'legacy' else (l1, orig)
    tr['exact'] = exact
    if kind in ('equipment', 'spectrum', 'topology', 'service'):
        eq = None
        if kind in ('topology', 'service'):
            from gnpy.tools.json_io import load_equipments_and_configs
            eqf, extra, cfgs = eqpt_for(path)
            eq = bench.eqpt_cache.get((eqf, extra)) or bench.eqpt_cache.setdefault(
                (eqf, extra), load_equipments_and_configs(eqf, list(extra), list(cfgs)))
        ld, rep = bench.load_pair(kind, leg, yang, eqpt=eq)
        tr['loads'].append(ld)
        det['loads'].append(rep)
    return tr, det


def classify_file(tr, det, stage, clause):
    what = ''
    if clause in ('PreservesValues', 'InventsNothing'):
        bad = []
        for k, p in enumerate(det['paths']):
            if tr['norm'][k]:
                continue
            if clause == 'PreservesValues' and tr['inprec'][k] and tr['o'][k] and tr['same'][k] != tr['o'][k]:
                bad.append(p)
            if clause == 'InventsNothing' and not tr['o'][k] and tr['same'][k]:
                bad.append(p)
        det['bad_paths'] = bad[:10]
        what = ','.join(sorted({re.sub(r'/\d+', '/#', p) for p in bad})[:3])
    elif clause.startswith('SameLoaded'):
        ld, rep = tr['loads'][0], det['loads'][0]
        what = load_what(ld, rep)
    return f'B3|{tr["dkind"]}|{clause}|{what}'


# ----------------------------------------------------------------------------------------------------------- run
def stratified(docs, rng, quota):
    by = {}
    for d in docs:
        by.setdefault(d['kind'], []).append(d)
    out = []
    for k, ds in sorted(by.items()):
        ds.sort(key=lambda d: json.dumps(d, sort_keys=True))
        n = min(len(ds), quota.get(k, len(ds)))
        out += rng.sample(ds, n)
    return out


def run(chk):
    rng = random.Random(chk.seed)
    # ---- B1 (all invariants of MC_Documents.cfg) and the emission of every document for B2, in one exhaustive run
    cfg = (tlc.SPEC / 'MC_Documents.cfg').read_text() + 'INVARIANT Emit\n'
    r2 = tlc.run('MC_Documents', cfg_text=cfg, timeout=900, tag='c18-mc')
    chk.add_mc('MC_Documents (5 document kinds, all clauses) + emission', r2)
    chk.exhaustive = True
    prec = next((d['prec'] for d in r2.emitted if 'prec' in d), None)
    docs = [d for d in r2.emitted if 'prec' not in d]
    if prec is None:
        raise Machinery('the MC module did not print its precision table')
    for d in docs:
        bad = du.out_of_domain(d, prec)
        if bad:
            raise Machinery(f'enumerated document outside the claimed domain: {bad[:3]} in {json.dumps(d)[:300]}')
    if len(docs) < 2000:
        raise Machinery(f'only {len(docs)} documents emitted')
    todo = docs if chk.tier == 'thorough' else stratified(docs, rng, QUICK_SAMPLE)
    bench = Bench()
    try:
        traces, details = [], {}
        ordered = sorted(todo, key=lambda d: json.dumps(d, sort_keys=True))
        for n, doc in enumerate(ordered):
            # whole numbers are written as JSON integers or as floats: quick picks one at random, thorough does both
            styles = (False, True) if chk.tier == 'thorough' else (rng.random() < 0.5,)
            for as_int in styles:
                name = f'{doc["kind"]}-{n}-{"int" if as_int else "float"}'
                tr, det = observe(bench, doc, as_int=as_int, name=name)
                traces.append(tr)
                details[name] = (tr, det)
            chk.case(json.dumps(doc, sort_keys=True), nontrivial=True)
        if chk.tier == 'thorough':
            # the memoised libyang context is a harness shortcut: a sample goes through gnpy's own per-call context
            du.uncache_yang_context()
            try:
                for n, doc in enumerate(rng.sample(ordered, 100)):
                    name = f'{doc["kind"]}-uncached-{n}'
                    tr, det = observe(bench, doc, as_int=False, name=name)
                    traces.append(tr)
                    details[name] = (tr, det)
            finally:
                du.cache_yang_context()
            chk.cov['b2_documents_with_per_call_libyang_context'] = 100
        verdicts = judge(traces, chk, 'c18-trace')
        for name, viol in verdicts.items():
            tr, det = details[name]
            if not viol:
                chk.traces += 1
            for stage, clause in viol:
                chk.violation(classify(tr, det, stage, clause),
                              dict(trace=name, stage=stage, clause=clause, document=tr['doc'], legacy_json=det['legacy_json'],
                                   exceptions=det['exceptions'],
                                   loads=[{k: v for k, v in x.items() if k not in ('all_differing', 'classes')}
                                          for x in det['loads']],
                                   observed={k: tr.get(k) for k in ('y', 'l', 'lr', 'lw', 'lq') if clause in ('RoundTrip', 'YangFormAsSpecified',
                                                                                          'NoForeignKeysInLegacy',
                                                                                          'NoForeignKeysInYang',
                                                                                          'StructurePreserved',
                                                                                          'KeyedListOrderIrrelevant',
                                                                                          'WrittenFileMeansTheSame',
                                                                                          'IdentitySpellingIrrelevant')},
                                   lib=tr['lib'] if clause == 'AliasesReportTheirName' else None))
        # the load clauses must not be vacuous: most documents of every kind are accepted by the loader of the legacy form
        for k in sorted({t['doc']['kind'] for t in traces}):
            mine = [t for t in traces if t['doc']['kind'] == k and t['loads']]
            okl = sum(1 for t in mine if t['loads'][0]['ea'] == 'ok')
            chk.cov[f'b2_{k}_loaded_ok'] = f'{okl}/{len(mine)}'
            if not chk.mutant and mine and okl * 4 < len(mine):
                raise Machinery(f'only {okl} of {len(mine)} {k} documents are accepted by the loader: the frame of '
                                f'the harness does not fit the library any more')
        chk.cov['b2_documents_refused_by_the_loaders'] = sum(1 for t in traces if not t['accepted'])
        chk.cov['b2_document_runs'] = len(traces)
        chk.cov['b2_documents'] = len(ordered)
        chk.cov['b2_documents_by_kind'] = {k: sum(1 for t in traces if t['doc']['kind'] == k)
                                           for k in sorted({t['doc']['kind'] for t in traces})}
        chk.cov['b2_documents_enumerated'] = len(docs)
        if traces:
            t0 = traces[0]
            chk.sample(dict(kind='B2 abstract document -> real converters/loaders -> judged by Trace_Documents',
                            document=t0['doc'], yang_projection=t0['y'], verdict=verdicts[t0['name']]))
        # ---- B3: shipped files
        files = sorted(list(EX.glob('*.json')) + list(TD.glob('*.json')) + list((TD / 'convert').glob('*.json')))
        ftr, fdet, skipped = [], {}, []
        for f in files:
            tr, det = observe_file(bench, f)
            if tr is None:
                skipped.append(det)
                continue
            ftr.append(tr)
            fdet[tr['name']] = (tr, det)
        fver = judge(ftr, chk, 'c18-files')
        for name, viol in fver.items():
            tr, det = fdet[name]
            if not viol:
                chk.traces += 1
            for stage, clause in viol:
                sig = classify_file(tr, det, stage, clause)
                chk.violation(sig, dict(file=name, stage=stage, clause=clause, bad_paths=det.get('bad_paths'),
                                        loads=[{k: v for k, v in x.items() if k not in ('all_differing', 'classes')}
                                               for x in det.get('loads', [])], exception=det.get('exception')))
            chk.case('file:' + name, nontrivial=True)
        chk.cov['b3_files_judged'] = len(ftr)
        chk.cov['b3_files_not_judged'] = skipped
        if ftr:
            chk.sample(dict(kind='B3 shipped file round-tripped twice and loaded in both forms', file=ftr[0]['name'],
                            leaves=len(ftr[0]['o']), verdict=fver[ftr[0]['name']]))
    finally:
        bench.close()
    chk.assume('claimed domain: numbers with no more fraction digits than the YANG model declares for their key and at most '
               '10 significant digits (IEEE-754 formatting corner cases and rounding of longer fractions are not decided)')
    chk.assume('lists that are present are non-empty (YANG cannot tell an empty list from an absent one: a RamanFiber with '
               '"raman_pumps": [] loads from the legacy file but not from the YANG file written by dump_data)')
    chk.assume('one per-degree equalisation type per degree (YANG choice); N / M present (number or null) in every '
               'effective-freq-slot; edfa-config, response and API wrapper documents are not among the five kinds of C18')
    chk.assume('the libyang context (schema parsing only) is memoised by the harness; every document is still parsed and '
               'validated by gnpy load_data / libyang')
    chk.assume('B3 documented normalisations not counted as changes: ' + '; '.join(t for _, t in NORMALISED))
    chk.assume('loaded object graphs are compared attribute by attribute (floats bit-exact by repr) through value numbers; '
               'TLC compares the vectors')


# ------------------------------------------------------------------------------------------------------ mutants
def _mut_degree_lost():
    """convert_back_degree keeps only the first equalisation type found (degree lost when two types coexist)"""
    import gnpy.tools.yang_convert_utils as u

    def process_power_targets(elem, power_targets):
        first = next(t for t in ('per_degree_pch_out_db', 'per_degree_psd_out_mWperGHz', 'per_degree_psd_out_mWperSlotWidth')
                     if any(t in x for x in power_targets))
        elem['params'][first] = {x['degree_uid']: x[first] for x in power_targets if first in x}
    u.process_power_targets = process_power_targets


def _mut_precision():
    """a key formatted with fewer fraction digits than the model declares"""
    from gnpy.yang.precision_dict import PRECISION_DICT
    PRECISION_DICT['loss_coef'] = 2
    PRECISION_DICT['gain_target'] = 2


def _mut_none_in_list():
    """[null] not converted back to null for values nested in lists"""
    import gnpy.tools.yang_convert_utils as u
    import gnpy.tools.convert_legacy_yang as c

    def convert_empty_to_none(json_data):
        if isinstance(json_data, dict):
            for key, value in json_data.items():
                if isinstance(value, list) and len(value) == 1 and value[0] is None:
                    json_data[key] = None
                elif isinstance(value, dict):
                    convert_empty_to_none(value)
        return json_data
    u.convert_empty_to_none = convert_empty_to_none
    c.convert_empty_to_none = convert_empty_to_none


def _mut_loss_zip():
    """per-frequency loss converted back with the two vectors swapped"""
    import gnpy.tools.yang_convert_utils as u
    import gnpy.tools.convert_legacy_yang as c
    orig = u.convert_back_loss_coeff_list

    def convert_back_loss_coeff_list(json_data):
        json_data = orig(json_data)
        for elem in json_data['elements']:
            lc = elem.get('params', {}).get('loss_coef')
            if isinstance(lc, dict):
                lc['value'] = list(reversed(lc['value']))
        return json_data
    u.convert_back_loss_coeff_list = convert_back_loss_coeff_list
    c.convert_back_loss_coeff_list = convert_back_loss_coeff_list


def _mut_edfa_alias():
    """Edfa other_name expansion reports the declaring name under every alias"""
    import gnpy.tools.json_io as jio
    orig = jio.Amp.from_json.__func__

    def from_json(cls, extra_configs, **kwargs):
        amp = orig(cls, extra_configs, **kwargs)
        if kwargs.get('type_variety', '').startswith('E-'):
            amp.type_variety = 'E'
        return amp
    jio.Amp.from_json = classmethod(from_json)


def _mut_loader_skips_conversion():
    """a loader reads the file with load_json instead of load_gnpy_json"""
    import gnpy.tools.json_io as jio
    jio.load_initial_spectrum = lambda filename: jio._spectrum_from_json(jio.load_json(filename)['spectrum'])


MUTANTS = {'degree_lost': _mut_degree_lost, 'precision': _mut_precision, 'none_in_list': _mut_none_in_list,
           'loss_zip': _mut_loss_zip, 'edfa_alias': _mut_edfa_alias, 'loader_skips_conversion': _mut_loader_skips_conversion}
