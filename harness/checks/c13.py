"""C13 - a service is accepted exactly when its worst channel clears the mode's threshold; automatic mode choice.

B1  TLC explores MC_Feasibility exhaustively: every library of <= 3 modes (2 baud rates x 2 bit rates x fits x margin
    in {-2,-1,0,+1,+2} dB or an impairment outside the penalty table), every request (automatic / each fitting fixed
    mode, uni-/bidirectional), every reverse margin; clauses AutoSelection, FixedModeVerdict, InfPenaltyAlwaysBlocks,
    CompositionHolds (whatever nUpdates), LineIsPristine, RuleWellDefined, SelectionUniqueUpToTies,
    BlockedIffNoFeasible.  Three negated witnesses show the interesting states are reached.
B2  the libraries TLC enumerated are concretised on fixed real paths (thresholds = measured pristine worst channel
    minus the model's margin, "outside the table" = a CD table ending below the path's CD, "does not fit" =
    min_spacing above the request's spacing) and run through the real compute_path_with_disjunction; the observed
    outcome must be a member of the set of acceptable outcomes the specification emitted.
B3  (primary) on paths of meshTopologyExampleV2, the Sweden OpenROADM networks and a synthetic 3-ROADM line (fibres
    with a dispersion slope, longer in one direction, one hop over-compensated so that the residual CD is negative)
    the driver measures the metrics of BOTH directions per channel, constructs libraries whose thresholds / penalty
    tables (upper and lower end inside or beside the measured per-channel CD, steep tables, loader-inserted 0
    boundary) / min_spacing / offsets straddle them, runs the real
    compute_path_with_disjunction with and without a fixed mode, bidirectional or not, records every recomputation of
    the receiver figures, and Trace_Feasibility judges verdict, selection, composition law, penalty law and
    independence from the exploration history against the per-mode pristine figures.  Libraries defining several
    equalization offsets for ONE baud rate (the higher offset on the lower bit rate) are judged on every mode whose side of
    the threshold does not depend on the offset applied (FeasibilityOps.UnderOffsets); the add/drop OSNR of a carrier is
    read from the configured frequency ranges of the ROADM profile as listed - overlapping, first listed wins.
"""
import concurrent.futures as cf
import inspect
import json
import math
import random
import textwrap

import numpy as np

from harness import tlc
from harness.core import Machinery
from harness.gnpy_util import udb
from harness import feas_util as fu
from harness.feas_util import Bench, TRX, base_mode, penalties_json

BAND_DB = 0.0051
CLAUSES_B1 = ['TypeOK', 'AutoSelection', 'FixedModeVerdict', 'InfPenaltyAlwaysBlocks', 'CompositionHolds',
              'LineIsPristine', 'ReverseOnOwnRoute', 'DirectionAsRequested', 'ThresholdOfDefaultSI', 'RuleWellDefined', 'SelectionUniqueUpToTies', 'BlockedIffNoFeasible']
WITNESSES = ['WitnessManyUpdates', 'WitnessReverseBlocks', 'WitnessUnjudgedPick']
TAGS = ['ProfileZero', 'OtherRoute', 'SameRoute', 'MixedSpectrum', 'MixedFlags', 'NamedSI']      # MC_Feasibility.WitnessTags

TIER = {
    # b2: (# two-mode libraries sampled, # three-mode libraries sampled, paths); b3: scenarios per pair, pairs
    'quick': dict(b2_two=180, b2_three=240, b2_paths=1, b3_per_pair=23, b3_pairs='quick'),
    'thorough': dict(b2_two=1176, b2_three=4000, b2_paths=3, b3_per_pair=64, b3_pairs='thorough'),
}


def mc_cfg(invariants, next_='Next', maxmodes=3, libs='MCLibs'):
    base = (tlc.SPEC / 'MC_Feasibility.cfg').read_text()
    lines = [ln for ln in base.splitlines() if not ln.startswith('INVARIANT') and not ln.startswith('NEXT')]
    text = '\n'.join(lines).replace('MaxModes = 3', f'MaxModes = {maxmodes}').replace('Libs <- MCLibs', f'Libs <- {libs}')
    return text + f'\nNEXT {next_}\n' + ''.join(f'INVARIANT {i}\n' for i in invariants)


# ================================================================================================================ B1
def start_b1(pool):
    jobs = {'main': pool.submit(tlc.run, 'MC_Feasibility', cfg_text=mc_cfg(CLAUSES_B1 + ['Emit']), timeout=1500,
                                tag='c13-mc')}
    for w in WITNESSES:
        jobs[w] = pool.submit(tlc.run, 'MC_Feasibility', cfg_text=mc_cfg([w], libs='MCWitnessLibs'), timeout=900,
                              tag='c13-' + w, workers=2)
    seen = set()
    jobs['tags'] = pool.submit(tlc.run, 'MC_Feasibility', cfg_text=mc_cfg(['WitnessTags'], libs='MCWitnessLibs1'),
                               timeout=900, tag='c13-tags', workers=2, on_emit=seen.add)
    jobs['tags_seen'] = seen
    return jobs


def finish_b1(chk, jobs):
    r = jobs['main'].result()
    chk.add_mc('MC_Feasibility MaxModes=3 (all clauses + emission)', r)
    chk.exhaustive = True
    for w in WITNESSES:
        rw = jobs[w].result()
        if rw.violated != w:
            raise Machinery(f'vacuity: witness {w} not reached in the bounded model ({rw.error})')
        chk.mc_runs.append(dict(model=f'reachability witness {w} (negated invariant violated as required)',
                                **rw.as_dict()))
    rt = jobs['tags'].result()
    missing = [t for t in TAGS if t not in jobs['tags_seen']]
    if not rt.ok or missing:
        raise Machinery(f'vacuity: stage / batch / spectrum dimensions not reached in the bounded model: {missing} {rt.error}')
    chk.mc_runs.append(dict(model='reachability tags ' + ', '.join(TAGS) + ' (one-mode sub-model)', **rt.as_dict()))
    chk.cov['b1_libraries'] = len(r.emitted)
    return r.emitted


# ================================================================================================================ B2
CD_WIDE = [(2000, 0.1), (8000, 0.6), (30000, 1.5), (70000, 4.0)]


CD_NEGLOW = [(-20000, 0.5), (0, 0.0), (30000, 1.5), (70000, 4.0)]      # explicit negative lower boundary


B2_BAUDS = (((32e9, 64e9), (37.5e9, 75e9)), ((63.1e9, 66e9), (75e9, 75e9)))    # (baud rates, min_spacing that fits)


def b2_mode_json(f, k, worst, margin, tabs, listing='asc', bauds=B2_BAUDS[0]):
    """model mode [b, r, f, d] -> equipment JSON; worst: measured pristine worst channel of the physical mode;
    tabs = (CD table holding the path's CD, CD table the path's CD lies outside of)"""
    baud = bauds[0][f['b']]
    inf_pen = f['d'] == 9
    d = 3 if inf_pen else f['d']                  # without its penalty the mode would be 3 dB above the threshold
    pens = penalties_json(cd=tabs[1] if inf_pen else tabs[0], listing=listing)
    min_spacing = bauds[1][f['b']] if f['f'] else 100e9
    return base_mode(f'm{k}', baud, 100e9 * (f['r'] + 1), min_spacing, osnr=worst - d - margin, tx_osnr=40.0,
                     penalties=pens)


def run_b2(chk, emitted, benches):
    cfg = TIER[chk.tier]
    rng = random.Random(chk.seed + 13)
    by_len = {1: [], 2: [], 3: []}
    for e in emitted:
        by_len[len(e['lib'])].append(e)
    for v in by_len.values():
        v.sort(key=lambda e: json.dumps(e['lib'], sort_keys=True))
    cases = list(by_len[1])
    cases += rng.sample(by_len[2], min(cfg['b2_two'], len(by_len[2])))
    cases += rng.sample(by_len[3], min(cfg['b2_three'], len(by_len[3])))
    # "outside the table" is concretised above the upper end on positive-CD paths and below the lower end on the
    # over-compensated line (residual CD negative: the loader's 0 boundary lies above it)
    spots = [('mesh', 'trx Lannion_CAS', 'trx Lorient_KMA'), ('line', 'trx B', 'trx C'),
             ('swe5', 'trx_Gothenburg', 'trx_Karlstad')]
    spacing = 75e9
    n = 0
    for spot_i, (bname, src, dst) in enumerate(spots):
        bench = benches[bname]
        margin = bench.default_margin
        # measurement phase: the four physical modes (2 baud rates x {table holding the path CD, table not holding it})
        probe = bench.pristine(src, dst, 0, spacing, base_mode('p', 32e9, 100e9, 37.5e9))
        cd_lo, cd_hi = float(np.min(probe['cd'])), float(np.max(probe['cd']))
        if cd_hi < -10:
            tabs = (CD_NEGLOW, CD_WIDE)
            if not (CD_NEGLOW[0][0] < cd_lo):
                raise Machinery('B2: negative-CD path outside the prepared table')
        elif cd_lo > 10:
            tabs = (CD_WIDE, [(int(cd_lo * 0.3), 0.2), (int(cd_lo * 0.7), 0.5)])
        else:
            raise Machinery('B2: path CD too close to zero to place tables')
        worst = {}
        for bs, bauds in enumerate(B2_BAUDS):
            for b in (0, 1):
                for inf_pen in (False, True):
                    mj = b2_mode_json(dict(b=b, r=0, f=1, d=9 if inf_pen else 0), 0, 0.0, 0.0, tabs, bauds=bauds)
                    ev = bench.pristine(src, dst, 0, spacing, mj)
                    # an infinite penalty: place the threshold with respect to the GSNR alone
                    worst[(bs, b, inf_pen)] = float(np.min(ev['rx'])) if inf_pen else fu.worst_db(ev)
        for ci, e in enumerate(cases):
            if cfg['b2_paths'] == 1 and ci % 3 != spot_i:        # quick: the sampled libraries are dealt over the spots
                continue
            for order in ((0,) if ci % 5 else (0, 1)):            # every fifth library also in reversed file order
                idx = list(range(len(e['lib'])))
                if order:
                    idx.reverse()
                # every other library lists its penalty points from the largest boundary down
                # ... and every other one uses two baud rates less than 5 GBd apart; one in four lists two explicitly
                # named SI entries (the first listed is the default, the other has 4 dB more margin)
                bs = (ci // 6) % 2
                modes = [b2_mode_json(e['lib'][i], i + 1, worst[(bs, e['lib'][i]['b'], e['lib'][i]['d'] == 9)], margin,
                                      tabs, listing=('asc', 'desc')[(ci // 3) % 2], bauds=B2_BAUDS[bs]) for i in idx]
                pos = {i + 1: k + 1 for k, i in enumerate(idx)}   # model index -> position in the file
                eq = bench.equipment(modes, None, 'named' if (ci // 12) % 4 == 1 else 'file')
                kinds = [None]
                fitting = [i + 1 for i, f in enumerate(e['lib']) if f['f']]
                if fitting and ci % 3 == 0:
                    kinds.append(rng.choice(fitting))
                for fixed in kinds:
                    req, _, exc = fu.run_request(bench, eq, src, dst, None if fixed is None else f'm{fixed}', False,
                                                 spacing)
                    sel, block = fu.outcome_of(req, eq, exc)
                    sel_model = next((i for i, p in pos.items() if p == sel), 0)
                    if fixed is None:
                        got = dict(block=block, sel=sel_model if block == 'none' else 0)
                        ok = got in e['auto']
                        exp = e['auto']
                    else:
                        got = block
                        exp = e['fixed'][fixed - 1]
                        ok = got in exp
                    n += 1
                    key = (bname, json.dumps(e['lib'], sort_keys=True), fixed, order)
                    chk.case(key, nontrivial=len(exp) == 1)
                    if ok:
                        chk.traces += 1
                    else:
                        lib_txt = ' '.join(f"{B2_BAUDS[bs][0][f['b']] / 1e9:g}G/{100 * (f['r'] + 1)}G/{'fit' if f['f'] else 'nofit'}/"
                                           f"{'penInf' if f['d'] == 9 else '%+d' % f['d']}" for f in e['lib'])
                        kind = 'auto' if fixed is None else 'fixed'
                        chk.violation(f'B2|{kind}|outcome-not-acceptable|code={got if fixed else got["block"]}',
                                      dict(bench=bname, src=src, dst=dst, library=lib_txt, fixed_mode=fixed,
                                           reversed_file_order=bool(order), acceptable=exp, code=got,
                                           exception=exc))
                    if len(chk.samples) < 1 and len(e['lib']) == 3 and fixed is None:
                        chk.sample(dict(kind='B2 library from MC_Feasibility concretised on a real path', path=[src, dst],
                                        library=e['lib'], acceptable_outcomes=e['auto'], code_outcome=got))
    chk.cov['b2_cases'] = n


# ================================================================================================================ B3
PMD_TAB = [(5, 0.1), (15, 0.4), (40, 1.0)]
PDL_TAB = [(1, 0.5), (2, 1.0), (4, 2.5), (6, 4.0)]
CD_TABS = {
    'wide': CD_WIDE,
    'neg': [(-2000, 0.3), (3000, 0.0), (30000, 1.0), (70000, 3.0)],        # not normalised by the loader; a falling segment
    'flat': [(4000, 0.0), (18000, 0.5), (60000, 0.5)],
}
DELTAS = [-1.0, -0.3, -0.02, 0.02, 0.3, 1.0]
B3_PAIRS = {
    'quick': [('mesh', 'trx Lannion_CAS', 'trx Lorient_KMA'),
              ('mesh33', 'trx Rennes_STA', 'trx Brest_KLA'),
              ('swe5', 'trx_Gothenburg', 'trx_Karlstad'), ('swe5', 'trx_Borås', 'trx_Umeå'),
              ('swe4', 'trx_Stockholm', 'trx_Malmö'),
              ('line', 'trx A', 'trx B'), ('line', 'trx B', 'trx C'), ('line', 'trx C', 'trx A'),
              ('prof', 'trx Brest_KLA', 'trx Vannes_KBE'), ('prof', 'trx Lannion_CAS', 'trx Lorient_KMA')],
    'thorough': None,       # filled in b3_pairs()
}


def b3_pairs(tier, benches, rng):
    if tier == 'quick':
        return B3_PAIRS['quick']
    out = list(B3_PAIRS['quick']) + [('mesh', 'trx Brest_KLA', 'trx Vannes_KBE')]
    for b in ('mesh', 'mesh33', 'meshdet', 'prof', 'swe5', 'swe4', 'line'):
        uids = benches[b].trx_uids()
        pairs = [(s, d) for s in uids for d in uids if s != d]
        for s, d in rng.sample(pairs, min(len(pairs), 7 if b.startswith('mesh') else 9)):
            if (b, s, d) not in out:
                out.append((b, s, d))
    return out


def measured_tables(meas):
    """CD tables placed around the MEASURED per-channel CD of the two directions (meas = dict(f=(min, max), r=(min, max))
    in ps/nm): a steep one (penalty varies by 2 dB over the channels), ones whose upper / lower end lies INSIDE the
    channel spread of the reverse direction, ones whose lower boundary lies below / above the path's CD."""
    lo, hi = int(math.floor(min(meas['f'][0], meas['r'][0]))), int(math.ceil(max(meas['f'][1], meas['r'][1])))
    rlo, rhi = meas['r']
    t = {}
    t['steep'] = [(lo - 2000, 0.0), (lo, 0.2), (max(hi + 1, lo + 400), 2.2), (hi + 30000, 3.2)]
    flo, fhi = meas['f']
    # upper end inside the reverse spread; above every forward channel when the directions are asymmetric enough
    end_hi = int((fhi + rhi) / 2) if rhi > fhi + 10 else int(rlo + 0.6 * (rhi - rlo))
    t['partial_hi'] = [(end_hi - 3000, 0.1), (end_hi - 1500, 0.3), (end_hi, 0.5)]
    # lower end inside the reverse spread; below every forward channel when the directions are asymmetric enough
    end_lo = int((flo + rlo) / 2) if rlo < flo - 10 else int(rlo + 0.4 * (rhi - rlo))
    t['partial_lo'] = [(end_lo, 0.3), (end_lo + 2500, 0.0), (end_lo + 30000, 1.0)]
    t['partial_fwd'] = [(int(flo + 0.6 * (fhi - flo)) - 3000, 0.1), (int(flo + 0.6 * (fhi - flo)), 0.5)]   # forward spread
    t['low_in'] = [(lo - 5000, 0.4), (lo + 40000, 1.0)]    # lower boundary below the path: finite penalty
    t['low_out'] = [(hi + 500, 0.2), (hi + 30000, 1.0)]    # lower boundary above the path (unless the loader adds 0)
    return t


def physical_library(kind, spacing, meas, rng, listing='asc'):
    """modes without thresholds.  Equalisation offset is a function of the baud rate, except in 'offsetmix'.
    listing: order in which the points of the penalty tables are written in the file"""
    def penalties_json(**kw):                       # every table of this library is written in the chosen order
        return fu.penalties_json(listing=listing, rng=rng, **kw)
    wide = lambda cd='wide': penalties_json(cd=CD_TABS[cd], pmd=PMD_TAB, pdl=PDL_TAB)   # noqa
    cd_lo = meas['f'][0]
    short = penalties_json(cd=[(max(1, int(cd_lo * 0.3)), 0.2), (max(2, int(cd_lo * 0.7)), 0.5)] if cd_lo > 10
                           else [(1000, 0.2), (2000, 0.5)], pmd=PMD_TAB)
    mt = measured_tables(meas)
    only = lambda name: penalties_json(cd=mt[name], pmd=PMD_TAB)       # noqa
    hi = 75e9 if spacing >= 75e9 else 87.5e9          # min_spacing of the 64 GBd modes (fits at 75 GHz only)
    off = {'offset': (3.0, 0.0), 'offset2': (2.0, -1.0)}.get(kind, (0.0, 0.0))
    if kind == 'groups3':
        return [base_mode('64G-400', 64e9, 400e9, hi, tx_osnr=37.0, offset=2.0, penalties=wide()),
                base_mode('48G-300', 48e9, 300e9, 62.5e9, tx_osnr=39.0, offset=1.0, penalties=wide('flat')),
                base_mode('48G-250', 48e9, 250e9, 62.5e9, tx_osnr=41.0, offset=1.0),
                base_mode('32G-100', 32e9, 100e9, 37.5e9, tx_osnr=44.0, penalties=wide('neg'))]
    if kind == 'offsetmix':       # ONE baud rate, several offsets: the higher offset on the LOWER bit rate (64 GBd) / on
        #                           the higher bit rate (32 GBd).  The rule speaks of the modes whatever their offsets
        return [base_mode('64G-400', 64e9, 400e9, hi, tx_osnr=36.0, penalties=wide()),
                base_mode('64G-300', 64e9, 300e9, hi, tx_osnr=38.5, offset=1.0, penalties=wide('neg')),
                base_mode('32G-200', 32e9, 200e9, 50e9, tx_osnr=41.0, offset=0.5, penalties=wide('flat')),
                base_mode('32G-100', 32e9, 100e9, 37.5e9, tx_osnr=45.0)]
    if kind == 'closebr':         # two baud rates less than 5 GBd apart, the lower one carrying the higher bit rate
        return [base_mode('63G-400', 63.1e9, 400e9, hi, tx_osnr=37.0, penalties=wide()),
                base_mode('66G-300', 66e9, 300e9, hi, tx_osnr=39.0, penalties=wide('flat')),
                base_mode('63G-250', 63.1e9, 250e9, hi, tx_osnr=41.0),
                base_mode('28G-100', 27.95e9, 100e9, 37.5e9, tx_osnr=43.0, penalties=wide('neg')),
                base_mode('32G-100', 31.57e9, 100e9, 37.5e9, tx_osnr=44.0)]
    lib = [base_mode('64G-400', 64e9, 400e9, hi, tx_osnr=36.0, offset=off[0], penalties=wide()),
           base_mode('64G-300', 64e9, 300e9, hi, tx_osnr=38.5, offset=off[0], penalties=wide('neg')),
           base_mode('32G-200', 32e9, 200e9, 50e9, tx_osnr=41.0, offset=off[1], penalties=wide('flat')),
           base_mode('32G-100', 32e9, 100e9, 37.5e9, tx_osnr=45.0, offset=off[1])]
    if kind == 'cdshort':
        lib[0]['penalties'] = short
        lib[2]['penalties'] = short
    if kind == 'cdsteep':         # channel-dependent finite penalty: the worst channel is not the lowest-GSNR channel
        for k in (0, 1, 2):
            lib[k]['penalties'] = only('steep')
    if kind == 'cdpartial':       # only SOME channels of the reverse direction leave the table
        lib[0]['penalties'] = only('partial_hi')
        lib[1]['penalties'] = only('partial_fwd')      # ... and of the forward direction for the second mode
        lib[2]['penalties'] = only('partial_hi')
        lib[3]['penalties'] = only('partial_lo')
    if kind == 'cdlow':           # the lower end of the table: loader-inserted 0, explicit boundary below / above the path
        lib[0]['penalties'] = penalties_json(cd=CD_WIDE)
        lib[1]['penalties'] = only('low_in')
        lib[2]['penalties'] = only('low_out')
    if kind == 'ties':            # two modes with the same (baud rate, bit rate)
        lib.insert(2, base_mode('64G-300b', 64e9, 300e9, hi, tx_osnr=40.0, offset=off[0], penalties=wide('flat')))
    if kind == 'nofit':           # the 64 GBd modes do not fit whatever the spacing; with 25 GHz spacing nothing fits
        for m in lib[:2]:
            m['min_spacing'] = 100e9
    if kind == 'shuffled':
        rng.shuffle(lib)
    return lib


def place_thresholds(bench, src, dst, spacing, lib, deltas, margin, reference, vias=((),), spectrum=None,
                     only=None):
    """OSNR of every fitting mode := (measured pristine worst channel) - delta - margin.  `reference` chooses the
    direction(s) measured: 'fwd', 'rev' (straddle the reverse metric), 'between' (forward passes, reverse fails when
    the directions differ) or 'fwdpass' (like 'between', and forward passes by 0.3 dB when they do not differ or the
    reverse worst channel is outside a table) or 'routes' (batch: between the reverse metrics of the two routes).
    Measurements are those of the first request's route (vias[0])."""
    via = vias[0]
    out = []
    for m, d in zip(lib, deltas):
        m = dict(m)
        if m['min_spacing'] <= spacing and (only is None or only == len(out) + 1):
            f = bench.pristine(src, dst, 0, spacing, m, via, spectrum)
            wf = fu.worst_db(f)
            w = wf if np.isfinite(wf) else float(np.min(f['rx'])) - 3.0
            if reference == 'routes' and len(vias) > 1:
                wrs = [fu.worst_db(bench.pristine(src, dst, 1, spacing, m, v, spectrum)) for v in vias[:2]]
                if all(np.isfinite(x) for x in wrs) and abs(wrs[0] - wrs[1]) > 0.03:
                    w, d = (wrs[0] + wrs[1]) / 2, 0.0
            elif reference != 'fwd':
                r = bench.pristine(src, dst, 1, spacing, m, via, spectrum)
                wr = fu.worst_db(r)
                if np.isfinite(wr) and np.isfinite(wf):
                    if reference == 'rev':
                        w = wr
                    elif abs(wf - wr) > 0.03:
                        w, d = (wf + wr) / 2, 0.0
                    elif reference == 'fwdpass':
                        d = 0.3
                elif reference == 'fwdpass' and np.isfinite(wf):
                    # the reverse worst channel is outside a table: both directions clear the threshold by 0.3 dB as
                    # far as the channels inside the table are concerned
                    net = r['rx'] - r['tot']
                    inside = net[np.isfinite(net)]
                    w, d = (min(wf, float(np.min(inside))) if inside.size else wf), 0.3
            m['OSNR'] = round(w - d - margin, 4)
        else:
            m['OSNR'] = 15.0
        out.append(m)
    return out


def scenario_traces(bench, name, src, dst, spacing, modes_json, fixed, flags, margin, vias=((),), spectrum=None,
                    si_layout='file'):
    """run the real code on one constructed scenario - the services of ONE service file, identical but for their route
    (vias) and their bidirectional flag (flags), through requests_aggregation and ONE call of
    compute_path_with_disjunction - and assemble one integer trace per SERVICE for Trace_Feasibility: every service
    is judged for what it asked (its own flag) against the pristine figures of its own route"""
    from gnpy.topology.request import find_reversed_path
    eq = bench.equipment(modes_json, margin, si_layout)
    si_written = fu.si_int(bench.si_entries(margin, si_layout))  # as written, not as loaded
    loaded = eq['Transceiver'][TRX].mode
    pen_ids = {id(m['penalties']): k + 1 for k, m in enumerate(loaded)}
    rqs, serving, evals, exc, res = fu.run_batch(bench, eq, src, dst,
                                                 None if not fixed else modes_json[fixed - 1]['format'], flags, spacing,
                                                 vias, spectrum)
    txc = fu.spectrum_carriers_tx(spectrum) if spectrum else []
    out = []
    for si, (via, bidir) in enumerate(zip(vias, flags)):
        ri = serving[si]
        req = rqs[ri]
        sel, block = fu.outcome_of(req, eq, exc)
        path = bench.path(src, dst, spacing, via)
        tmodes = []
        events = []
        raw = dict(pristine={}, loop=[], others={})
        for k, (mj, m) in enumerate(zip(modes_json, loaded), start=1):
            fits = float(mj['min_spacing']) <= spacing
            tm = dict(br=int(round(mj['baud_rate'] / 1e6)), rate=int(round(mj['bit_rate'] / 1e6)), fits=int(fits),
                      osnr=udb(mj['OSNR']), tx=fu.inv9(mj['tx_osnr']), pf=fu.NOT_RUN, pr=fu.NOT_RUN, po=[])
            for imp, short in fu.SHORT.items():
                tm[short] = fu.points_int(mj.get('penalties'), imp)      # as written in the file, not as loaded
            if fits and (not spectrum or k == fixed):
                pf = bench.pristine(src, dst, 0, spacing, mj, via, spectrum)
                raw['pristine'][(k, 0)] = pf
                tm['pf'] = fu.project_eval(pf, k, 0, 0)
                events.append(dict(kind=0, mode=k, dir=0))
                # the same mode propagated alone under every OTHER offset the library defines for its baud rate (fitting
                # modes): the automatic selection propagates a baud rate once per offset (FeasibilityOps.UnderOffsets)
                if not fixed:
                    own = mj.get('equalization_offset_db', 0)
                    others = sorted({o.get('equalization_offset_db', 0) for o in modes_json
                                     if o['baud_rate'] == mj['baud_rate'] and float(o['min_spacing']) <= spacing} - {own})
                    alts = [bench.pristine(src, dst, 0, spacing, dict(mj, equalization_offset_db=o), via, spectrum)
                            for o in others]
                    raw['others'][k] = alts
                    tm['po'] = [fu.project_eval(q, k, 0, 0) for q in alts]
                if bidir and k in (fixed, sel):
                    pr = bench.pristine(src, dst, 1, spacing, mj, via, spectrum)
                    raw['pristine'][(k, 1)] = pr
                    tm['pr'] = fu.project_eval(pr, k, 1, 0)
                    events.append(dict(kind=0, mode=k, dir=1))
            tmodes.append(tm)
        mine = str(req.request_id)
        for ev in evals:
            if ev['req'] != mine:
                if ev['req'] is None:
                    raise Machinery(f'{name}: a receiver evaluation outside propagate / propagate_and_optimize_mode')
                continue
            k = pen_ids.get(ev['pen_id'])
            if k is None:
                raise Machinery(f'{name}: a receiver evaluation used a penalties table that is not a mode of the library')
            direction = 0 if ev['uid'] == dst else 1
            if txc and len(txc) != len(ev['rx']):
                raise Machinery(f'{name}: {len(ev["rx"])} carriers received for a spectrum of {len(txc)}')
            events.append(fu.project_eval(ev, k, direction, 1))
            raw['loop'].append((k, direction, ev))
        # the reverse result RETURNED for the request serving this service: the figures its verdict was taken on
        if res is not None and bidir and sel and res[2][ri]:
            events.append(fu.project_reported(res[2][ri][-1], sel))
        tr = dict(name=f'{name}.{si}' if len(vias) > 1 else name, auto=int(not fixed), bidir=int(bool(bidir)),
                  fixed=fixed or 0, stf=bench.stages(path), str=bench.stages(find_reversed_path(path)), txc=txc, si=si_written,
                  modes=tmodes, ev=events, out=dict(sel=sel, block=block))
        out.append((tr, raw, exc))
    return out


def _interp_int(tab, v):
    """integer interpolation mirroring FeasibilityOps.Interp - used ONLY to report the measured projection error next
    to the tolerance (the verdict is TLC's)"""
    xs, ys = tab['x'], tab['y']
    if not xs:
        return 0
    if v < xs[0] or v > xs[-1] or min(abs(v - xs[0]), abs(v - xs[-1])) <= 1:
        return None
    k = max(j for j in range(len(xs)) if xs[j] <= v)
    if k == len(xs) - 1:
        return ys[k]
    return ys[k] + (ys[k + 1] - ys[k]) * (v - xs[k]) // (xs[k + 1] - xs[k])


def _band_dev(tab, v, obs):
    """distance of the observed penalty from the band [interp(v-1), interp(v), interp(v+1)] (None: not judged)"""
    ps = [_interp_int(tab, v + d) for d in (-1, 0, 1)]
    if any(p is None for p in ps) or obs >= fu.INF:
        return None
    return max(0, min(ps) - obs, obs - max(ps))


def deviations(tr, raw, acc):
    """measured deviations on the recorded figures (reported next to the tolerances; not a verdict)"""
    for e in tr['ev']:
        if e['kind'] == 2:
            continue
        if e['kind'] == 0:
            e = tr['modes'][e['mode'] - 1]['pf' if e['dir'] == 0 else 'pr']
        m = tr['modes'][e['mode'] - 1]
        sts = tr['stf'] if e['dir'] == 0 else tr['str']
        txs = tr['txc'] if tr['txc'] else [m['tx']] * len(e['rx'])
        acc['composition'] = max(acc['composition'],
                                 max(abs(rx - ln - tx - sum(fu.stage_inv(st, f) for st in sts))
                                     for rx, ln, tx, f in zip(e['rx'], e['line'], txs, e['freq'])))
        acc['max_nup'] = max(acc['max_nup'], e['nup'])
        for short in ('cd', 'pmd', 'pdl'):
            for v, obs in zip(e[short], e['p' + short]):
                dev = _band_dev(fu.table_of_points(m[short]), v, obs)
                if dev is not None:
                    acc['penalty'] = max(acc['penalty'], dev)
    worst = 0.0
    for k, d, ev in raw['loop']:
        p = raw['pristine'].get((k, d))
        if p is not None and len(p['rx']) == len(ev['rx']):     # the closest of the pristine figures under the offsets
            worst = max(worst, min(float(np.max(np.abs(q['rx'] - ev['rx'])))     # defined for the mode's baud rate
                                   for q in [p] + (raw['others'].get(k, []) if d == 0 else [])))
    return worst


def build_b3(chk, benches):
    cfg = TIER[chk.tier]
    rng = random.Random(chk.seed)
    traces, meta = [], {}
    acc = dict(composition=0, penalty=0, max_nup=0)
    kinds = ['plain', 'offset', 'cdshort', 'ties', 'groups3', 'nofit', 'shuffled', 'offset2', 'cdsteep', 'cdpartial',
             'cdlow', 'listing', 'closebr']
    # plans taken first on every pair: the table-end / per-channel kinds in each request shape (None: drawn at random)
    # last field: the batch - None (one request) or two requests with the same ends and mode: 'alt-first' (constrained
    # route then shortest), 'alt-second', 'same' (twice the shortest); only where the network offers another route
    #   'flags-TF' / 'flags-FT': two services on the same route identical but for their bidirectional flag (they go
    #   through requests_aggregation like every batch); 'spec-good-first' / 'spec-bad-first': one fixed-mode request
    #   carrying a user-defined spectrum whose partitions have different transmitter OSNR
    plans = [(k, None, None, None, None) for k in kinds]
    # one baud rate with several offsets, automatic selection: far enough from the thresholds for the side of every mode
    # not to depend on the offset applied (whether it does is the specification's call: FeasibilityOps.OffsetRobust)
    plans += [('offsetmix', False, False, 'fwd', None)]
    plans += [('plain', True, True, 'fwdpass', 'flags-TF'), ('plain', True, True, 'fwdpass', 'flags-FT'),
              ('plain', True, False, 'fwd', 'spec-good-first'), ('cdsteep', True, True, 'fwd', 'spec-bad-first')]
    plans += [('cdpartial', 2, False, 'fwd', None)]      # fixed mode 2: SOME forward channels leave the table
    plans += [('plain', True, True, 'routes', 'alt-first'), ('plain', False, True, 'routes', 'alt-second'),
              ('offset', True, True, 'fwdpass', 'alt-second'), ('plain', True, True, 'fwd', 'same')]
    plans += [(k, fx, True, ref, None) for k in ('cdpartial', 'cdsteep', 'cdlow') for fx, ref in ((False, 'fwdpass'), (True, 'fwdpass'))]
    plans += [('cdsteep', False, True, 'rev', None), ('cdlow', True, False, 'fwd', None), ('cdpartial', False, False, 'fwd', None)]
    for pi, (bname, src, dst) in enumerate(b3_pairs(chk.tier, benches, rng)):
        bench = benches[bname]
        probe = {d: bench.pristine(src, dst, d, 75e9, base_mode('p', 32e9, 100e9, 37.5e9))['cd'] for d in (0, 1)}
        meas = dict(f=(float(np.min(probe[0])), float(np.max(probe[0]))),
                    r=(float(np.min(probe[1])), float(np.max(probe[1]))))
        alts = bench.alternative_routes(src, dst) if bench.name.startswith(('mesh', 'prof')) else []
        pair_plans = [pl for pl in plans if alts or pl[4] not in ('alt-first', 'alt-second')]   # needs another route
        for si in range(cfg['b3_per_pair']):
            kind, p_fixed, p_bidir, p_ref, p_batch = pair_plans[si] if si < len(pair_plans) else \
                (rng.choice(kinds + ['offsetmix']), None, None, None, None)
            spacing = 75e9 if kind != 'nofit' else rng.choice([75e9, 50e9, 25e9])
            # order in which the penalty points are written: ascending on the first pass over the kinds, then any
            listing = 'desc' if kind == 'listing' else 'asc' if si < len(kinds) else \
                rng.choice(['asc', 'desc', 'shuffled', 'mixed'])
            lib = physical_library(kind, spacing, meas, rng, listing)
            n = len(lib)
            # how the SI entries are written: as shipped, two explicitly named entries (the first is the default), or
            # the entry named "default" listed second; the other entry has another margin
            si_layout = ('file', 'named', 'default-second')[si % 3] if si < len(kinds) else \
                rng.choice(['file', 'file', 'named', 'default-second'])
            pattern = si % 7
            if pattern == 0:
                deltas = [-1.0] * n                                   # nothing feasible
            elif pattern == 1:
                deltas = [-0.3] * (n - 1) + [0.02]                    # only the last mode of the file
            elif pattern == 2:
                deltas = [rng.choice([-0.003, 0.003, 0.0])] + [rng.choice(DELTAS) for _ in range(n - 1)]   # unjudged band
            else:
                deltas = [rng.choice(DELTAS) for _ in range(n)]
            margin = rng.choice([None, None, 0.0, 3.5])
            sys_margin = bench.default_margin if margin is None else margin
            fitting = [k + 1 for k, m in enumerate(lib) if m['min_spacing'] <= spacing]
            rk = rng.random()
            fixed = rng.choice(fitting) if (fitting and rk < 0.4) else 0
            bidir = rng.random() < 0.45
            reference = rng.choice(['fwd', 'rev', 'between', 'fwdpass']) if bidir else 'fwd'
            if p_bidir is not None:
                fixed = (p_fixed if p_fixed in fitting and p_fixed is not True else fitting[0]) if p_fixed and fitting else 0
                bidir, reference = p_bidir, p_ref
                if pattern in (0, 2):
                    deltas = [rng.choice(DELTAS) for _ in range(n)]
            if kind == 'offsetmix':     # 1 dB away from every threshold; the first time everything is feasible
                deltas = [1.0] * n if p_bidir is not None else [rng.choice([-1.0, 1.0]) for _ in range(n)]
            if p_batch is None and p_bidir is None and bidir and alts and rng.random() < 0.2:
                p_batch = rng.choice(['alt-first', 'alt-second', 'same'])
            vias, flags, spectrum, only = ((),), (bidir,), None, None
            if p_batch in ('alt-first', 'alt-second', 'same') and spacing == 75e9 and (alts or p_batch == 'same'):
                alt = alts[si % len(alts)] if alts else ()
                vias = {'alt-first': (alt, ()), 'alt-second': ((), alt), 'same': ((), ())}[p_batch]
                flags = (bidir, bidir)
            elif p_batch in ('flags-TF', 'flags-FT') and spacing == 75e9:
                vias, flags = ((), ()), ((True, False) if p_batch == 'flags-TF' else (False, True))
            elif p_batch in ('spec-good-first', 'spec-bad-first') and fixed and spacing == 75e9:
                tx = [45.0, 24.0] if p_batch == 'spec-good-first' else [23.0, 38.0, 44.0]
                spectrum = fu.spectrum_partitions(lib[fixed - 1]['baud_rate'], spacing, tx,
                                                  width=2.0e12 if len(tx) == 2 else 1.3e12)
                only = fixed
                deltas = [rng.choice([-0.3, -0.02, 0.02, 0.3]) for _ in range(n)]
            modes = place_thresholds(bench, src, dst, spacing, lib, deltas, sys_margin, reference, vias, spectrum, only)
            name = f't{pi}-{si}'
            for tr, raw, exc in scenario_traces(bench, name, src, dst, spacing, modes, fixed, flags, margin, vias,
                                                spectrum, si_layout):
                hist_dev = deviations(tr, raw, acc)
                traces.append(tr)
                meta[tr['name']] = dict(
                    history_deviation_db=round(hist_dev, 6), bench=bname, src=src, dst=dst, kind=kind,
                    spacing=spacing, fixed=fixed, bidir=bool(tr['bidir']), reference=reference, measured_cd=meas,
                    table_listing=listing, si_layout=si_layout, batch_routes=[list(v) for v in vias], batch_flags=list(flags),
                    spectrum_tx_osnr=[q['tx_osnr'] for q in spectrum] if spectrum else None,
                    stages_forward=[dict(kind=st['kind'], sel=st['sel'], profile_ids=[q['id'] for q in st['profiles']])
                                    for st in tr['stf']],
                    deltas_db=deltas, sys_margins=sys_margin, exception=exc, outcome=tr['out'],
                    offsets=sorted({(m['baud_rate'], m.get('equalization_offset_db', 0)) for m in lib}),
                    modes=[dict(format=m['format'], OSNR=m['OSNR'], min_spacing=m['min_spacing'],
                                tx_osnr=m['tx_osnr']) for m in modes],
                    judged=any(abs(d) > BAND_DB for d, m in zip(deltas, lib) if m['min_spacing'] <= spacing))
    return traces, meta, acc


def _judge_batch(batch):
    data = '\n'.join(json.dumps(t) for t in batch) + '\n'
    return tlc.run('Trace_Feasibility', extra_files={'trace.ndjson': data}, env={'TRACE_FILE': 'trace.ndjson'},
                   workers=4, timeout=1800, tag='c13-trace', heap='6g')


def start_judging(pool, traces):
    """TLC judges the recorded traces (batches of 300) while Python replays the B2 cases"""
    return [pool.submit(_judge_batch, traces[k:k + 300]) for k in range(0, len(traces), 300)]


def judge_b3(chk, traces, meta, futures):
    results = [f.result() for f in futures]
    emitted = []
    wall = 0.0
    for res in results:
        if not res.ok:
            raise Machinery(f'trace validation run failed: {res.error or res.violated}\n{res.out[-2000:]}')
        chk.states += res.distinct
        chk.transitions += res.generated
        emitted += res.emitted
        wall += res.wall
    verdicts = {v['name']: v for v in emitted}
    ok = 0
    hist_ok = hist_bad = 0.0
    mixed = [0, 0]          # automatic requests on a library with several offsets for one baud rate: all, fully judged
    for t in traces:
        v = verdicts.get(t['name'])
        m = meta[t['name']]
        if v is None:
            raise Machinery(f'no verdict for trace {t["name"]}')
        if v['n'] != len(t['ev']) + 1:
            raise Machinery(f'trace {t["name"]} consumed {v["n"]}/{len(t["ev"]) + 1} steps')
        chk.case(t['name'] + json.dumps(m['modes']), nontrivial=m['judged'])
        clauses = sorted({c for _, c in v['viol']})
        if 'StageWellFormed' in clauses:
            raise Machinery(f'trace {t["name"]}: a selected ROADM profile is not listed for the type / kind')
        if 'TableWellFormed' in clauses:
            raise Machinery(f'trace {t["name"]}: a constructed penalty table violates the integer-interpolation bound')
        if m['kind'] == 'offsetmix' and not m['fixed']:
            mixed[0] += 1
            mixed[1] += not v['offdep']
        if not clauses:
            ok += 1
            hist_ok = max(hist_ok, m['history_deviation_db'])
            continue
        hist_bad = max(hist_bad, m['history_deviation_db'])
        req_kind = ('fixed' if m['fixed'] else 'auto') + ('-bidir' if m['bidir'] else '')
        multi_offset = len({o for _, o in m['offsets']}) > 1
        leak = 'HistoryIndependence' in clauses
        for c in clauses:
            if c == 'HistoryIndependence':
                sig = f'B3|HistoryIndependence|auto|offset-differs-between-baud-rate-groups={multi_offset}'
            elif leak and c not in ('CompositionLaw', 'PenaltyLaw'):
                sig = 'B3|verdict-differs-from-pristine-figures|in-a-trace-with-HistoryIndependence-violation'
            else:
                sig = f'B3|{c}|{req_kind}'
            steps = [s for s, cc in v['viol'] if cc == c]
            chk.violation(sig, dict(trace=t['name'], clause=c, steps=steps, scenario=m))
    if mixed[0] and not mixed[1]:
        raise Machinery('vacuity: on every library with several offsets for one baud rate some mode changes side with the '
                        'offset applied (nothing judged): move the thresholds further away')
    chk.cov['b3_auto_traces_several_offsets_for_one_baud_rate'] = mixed[0]
    chk.cov['b3_auto_traces_several_offsets_every_mode_judged'] = mixed[1]
    chk.cov['tolerance_history_udb'] = 200
    chk.cov['history_deviation_note'] = ('figures are bit-identical (0 udb on all traces) once the exploration works on a '
                                         'fresh copy per baud-rate group; non-zero values below are instances of the reported '
                                         'state leak, those under the tolerance are not flagged')
    chk.cov['measured_history_deviation_udb_on_traces_without_violation'] = int(round(hist_ok * 1e6))
    chk.cov['measured_history_deviation_udb_on_violating_traces'] = int(round(hist_bad * 1e6))
    chk.cov['b3_tlc_wall_s'] = round(wall, 1)
    return ok


# =============================================================================================================== run
def fu_node(bench, uid):
    return next(n for n in bench.net.nodes() if n.uid == uid)


def make_benches(tier):
    b = {'mesh': Bench('mesh', 'eqpt_config.json', 'meshTopologyExampleV2.json'),
         'mesh33': Bench('mesh33', 'eqpt_config.json', 'meshTopologyExampleV2.json', add_drop_osnr=33.0),
         'swe5': Bench('swe5', 'eqpt_config_openroadm_ver5.json', 'Sweden_OpenROADMv5_example_network.json'),
         'swe4': Bench('swe4', 'eqpt_config_openroadm_ver4.json', 'Sweden_OpenROADMv4_example_network.json')}
    slope = {'dispersion_slope': 58}               # s/m^3: the accumulated CD depends on the channel
    neg = dict(type_variety='C13-NEG', dispersion=-3.0e-05, effective_area=5.0e-11, pmd_coef=1.265e-15)
    # A-B: same fibre both ways but longer from B to A; B-C: over-compensated both ways (negative residual CD)
    topo = fu.line_topology(['A', 'B', 'C'], [
        ([(80, 'SSMF', slope)] * 3, [(86, 'SSMF', slope)] * 3),
        ([(80, 'SSMF', slope), (80, 'C13-NEG', slope)], [(85, 'SSMF', slope), (90, 'C13-NEG', slope)])])
    b['line'] = Bench('line', 'eqpt_config.json', topo, add_drop_osnr=36.0, extra_fibers=[neg])
    # ROADM type listing several add / drop profiles (id 0 NOT first of its kind); the topology selects profiles per
    # pair of degrees on some sites: add profile 0 everywhere out of Lannion and on one degree out of Brest, the poor
    # drop profile 2 on ONE ingress degree of Brest (routes arriving another way get the first listed), drop 1 at Vannes
    def degrees(site):
        n = fu_node(b['mesh'], f'roadm {site}')
        from gnpy.core.elements import Transceiver
        ins = sorted(x.uid for x in b['mesh'].net.predecessors(n) if not isinstance(x, Transceiver))
        outs = sorted(x.uid for x in b['mesh'].net.successors(n) if not isinstance(x, Transceiver))
        return ins, outs
    sel = {}
    ins, outs = degrees('Lannion_CAS')
    sel['roadm Lannion_CAS'] = [dict(from_degree='trx Lannion_CAS', to_degree=o, impairment_id=0) for o in outs]
    ins, outs = degrees('Brest_KLA')
    sel['roadm Brest_KLA'] = [dict(from_degree='trx Brest_KLA', to_degree=outs[0], impairment_id=0),
                              dict(from_degree=ins[0], to_degree='trx Brest_KLA', impairment_id=2)]
    ins, outs = degrees('Vannes_KBE')
    sel['roadm Vannes_KBE'] = [dict(from_degree=i, to_degree='trx Vannes_KBE', impairment_id=1) for i in ins]
    # the profiles list OVERLAPPING frequency ranges (a carrier takes the first listed range containing it): a narrow
    # poor range listed BEFORE the range covering the band (add 3), the covering range before a narrow one that is
    # therefore never applied (drop 1), two half bands sharing their middle (add 0), a range without OSNR first (drop 2)
    lo, hi = fu.BAND['lower-frequency'], fu.BAND['upper-frequency']
    b['prof'] = Bench('prof', 'eqpt_config.json', 'meshTopologyExampleV2.json', per_degree=sel,
                      roadm_profiles=fu.osnr_profiles([
                          (3, 'add', [(lo, 192.6123e12, 35.0), (lo, hi, 41.0)]),
                          (1, 'drop', [(lo, hi, 40.0), (194.0123e12, 195.2123e12, 31.0)]),
                          (0, 'add', [(lo, 194.5123e12, 30.0), (193.1123e12, hi, 33.0)]),
                          (2, 'drop', [(192.0123e12, 193.0123e12, None), (lo, hi, 27.0)])]))
    if tier == 'thorough':
        b['meshdet'] = Bench('meshdet', 'eqpt_config.json', 'meshTopologyExampleV2.json',
                             detailed_sites=('roadm Lannion_CAS', 'roadm Brest_KLA', 'roadm Vannes_KBE'))
    return b


def run(chk):
    with cf.ThreadPoolExecutor(max_workers=4) as pool:
        jobs = start_b1(pool)                      # TLC explores the bounded model while Python measures the networks
        benches = make_benches(chk.tier)
        traces, meta, acc = build_b3(chk, benches)
        emitted = finish_b1(chk, jobs)
        with cf.ThreadPoolExecutor(max_workers=3) as tpool:
            futures = start_judging(tpool, traces)
            run_b2(chk, emitted, benches)
            ok = judge_b3(chk, traces, meta, futures)
    chk.traces += ok
    chk.cov['b3_traces'] = len(traces)
    chk.cov['b3_receiver_evaluations'] = sum(len(t['ev']) for t in traces)
    # the stage before: how a service entry and the library become the request that is judged (RequestResolution.tla) - the
    # mode's OSNR threshold, baud rate, min_spacing, penalties and the "undetermined" mode of the automatic selection
    from harness import resolution_util
    resolution_util.run_part(chk)
    chk.cov['b3_max_updates_on_one_receiver'] = acc['max_nup']
    chk.cov['tolerance_composition_1e-9'] = 60
    chk.cov['measured_composition_deviation_1e-9'] = acc['composition']
    chk.cov['tolerance_penalty_udb'] = 2000
    chk.cov['measured_penalty_deviation_udb'] = acc['penalty']
    t = next((t for t in traces if t['auto'] and sum(e['kind'] for e in t['ev']) >= 3), traces[0])
    chk.sample(dict(kind='B3 scenario judged by Trace_Feasibility', scenario=meta[t['name']],
                    adddrop_stages_forward=t['stf'],
                    modes=[{k: m[k] for k in ('br', 'rate', 'fits', 'osnr', 'tx')} for m in t['modes']],
                    loop=[dict(mode=e['mode'], dir=e['dir'], nup=e['nup'], worst_rxdb=min(e['rxdb']))
                          for e in t['ev'] if e['kind'] == 1]))
    chk.assume('several equalisation offsets for one baud rate within one transceiver: the code propagates the baud rate '
               'once per offset, so a mode may be looked at under the offset of another mode; a mode whose side of the '
               'threshold differs between its own offset and another offset defined for its baud rate is not judged '
               '(FeasibilityOps.UnderOffsets); the figures seen for a mode must be pristine ones under one of these offsets')
    chk.assume('mode roll-off equals SI roll-off (the automatic-mode loop propagates with the SI roll-off, as its TODO says)')
    chk.assume('a metric within +/-0.0051 dB of OSNR + margin is not judged (round(x, 2) vs ">" / ">=")')
    chk.assume('bidirectional automatic requests: the mode is selected on the forward direction; the reverse direction '
               'decides the verdict for that mode (MODE_NOT_FEASIBLE)')
    chk.assume('an impairment within one table unit (1 ps/nm, 1 fs, 1e-4 dB) of the end of a penalty table is not judged')
    chk.assume('configured add/drop OSNR is read from the equipment JSON by position on the path (ROADM next to a '
               'transceiver); default ROADM types contribute add_drop_osnr + 10log10(2) per stage')
    chk.assume('trusted base: numpy float -> integer projections in harness/feas_util.py; TLC')


# =========================================================================================================== mutants
def _rewrite(module, func_name, old, new, owner=None):
    """source-level mutant: recompile one function of the anchored code with one expression changed"""
    target = getattr(owner or module, func_name)
    src = textwrap.dedent(inspect.getsource(target))
    if src.count(old) < 1:
        raise Machinery(f'mutant: pattern not found in {func_name}: {old!r}')
    ns = {}
    exec(compile(src.replace(old, new), f'<mutant {func_name}>', 'exec'), module.__dict__, ns)      # noqa: S102
    setattr(owner or module, func_name, ns[func_name])


def _mut_auto_margin_dropped():
    import gnpy.topology.request as rq
    _rewrite(rq, 'propagate_and_optimize_mode', "> this_mode['OSNR'] + equipment['SI']['default'].sys_margins",
             "> this_mode['OSNR']")


def _mut_tx_osnr_accumulates():
    import gnpy.topology.request as rq
    _rewrite(rq, 'propagate_and_optimize_mode', 'del roadm_osnr[-1]', 'pass')


def _mut_update_from_previous():
    import gnpy.core.elements as el
    _rewrite(el, 'update_snr', 'self.snr_01nm = snr_sum(self.raw_snr_01nm, 12.5e9, snr_added)',
             'self.snr_01nm = snr_sum(self.snr_01nm, 12.5e9, snr_added)', owner=el.Transceiver)


def _mut_lowest_bitrate_first():
    import gnpy.topology.request as rq
    _rewrite(rq, 'propagate_and_optimize_mode',
             "key=lambda x: (x['bit_rate'], x['equalization_offset_db']), reverse=True)",
             "key=lambda x: (x['bit_rate'], x['equalization_offset_db']))")


def _mut_reverse_ignored():
    import gnpy.topology.request as rq
    _rewrite(rq, 'compute_path_with_disjunction',
             "if round(snr01nm_with_penalty[min_ind], 2) < pathreq.OSNR + equipment['SI']['default'].sys_margins:\n"
             "                    msg = f'\\tWarning! Request {pathreq.request_id} computed path from' \\\n"
             "                        + f' {pathreq.destination} to",
             "if False:\n"
             "                    msg = f'\\tWarning! Request {pathreq.request_id} computed path from' \\\n"
             "                        + f' {pathreq.destination} to")


def _mut_penalty_clamped():
    import gnpy.core.elements as el
    _rewrite(el, '_calc_penalty', "left=float('inf'), right=float('inf')", "left=float('inf')", owner=el.Transceiver)


def _mut_adddrop_at_every_roadm():
    import gnpy.core.elements as el
    _rewrite(el, 'set_roadm_paths', "if path_type in ['add', 'drop']:", "if path_type in ['add', 'drop', 'express']:",
             owner=el.Roadm)


MUTANTS = {'auto_margin_dropped': _mut_auto_margin_dropped, 'tx_osnr_accumulates': _mut_tx_osnr_accumulates,
           'adddrop_at_every_roadm': _mut_adddrop_at_every_roadm, 'lowest_bitrate_first': _mut_lowest_bitrate_first,
           'reverse_ignored': _mut_reverse_ignored, 'penalty_clamped': _mut_penalty_clamped}
def _resolution_mutant(name):
    def f():
        from harness import resolution_util
        resolution_util.MUTANTS[name]()
    return f


MUTANTS.update({'resolution_per_channel_m_floor': _resolution_mutant('per_channel_m_floor'),
                'resolution_fmax_not_recomputed': _resolution_mutant('fmax_not_recomputed')})
EXTRA_MUTANTS = {'update_from_previous': _mut_update_from_previous}      # also killed; kept out of the selftest budget
