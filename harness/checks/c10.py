"""C10 - auto-selected amplifiers are allowed, capable and the quietest capable choice.

B1  TLC explores MC_AmpSelection: every initial state is one selection case (library of <= MaxLib models, context with
    position / fibre / own list / ROADM list, required gain half a dB off every capability boundary); the clauses
    ChosenPermitted, CoversBand, RamanOnlyIfAllowed, CapableIfPossible, QuietestCapable, NeverRefusesWhenCapable are
    invariants of every outcome the specification admits, and SketchRefinesProperty shows that the algorithm of
    select_edfa as read (gain filters, 0.3 dB power window, NF ranking) only produces admissible outcomes.
B2  sampled cases are emitted with their admissible set; each is concretised as equipment JSON (fixed-gain models,
    exact NF) + a two-ROADM, two-span line with the judged amplifier as booster / inline / preamp, and designed by the
    real designed_network; the chosen model must be admissible.  The same line is designed a second time with the
    library turned into variable-gain models and both designs are judged by Trace_AmpSelection with the implementation's
    own edfa_nf as the noise figure.  The catalogue includes a model whose band EQUALS the design band (edges coincide),
    a quiet Raman model whose p_max is below the required power, and fibres whose per-frequency loss coefficient is
    above the Raman limit on part of the band only; cases without any capable model are sampled four times sparser.
    The configured extended-gain allowance is 3 dB or 1 dB; p_max of the catalogue lies 0.1 dB below / above the
    required power.  The library is used a SECOND time in the same design: next to an inline / preamp amplifier its
    neighbour one span away (the COMPANION) is left to auto-design too, with the same lists and the same required gain
    and power but the opposite Raman situation (0.3 dB/km fibre in front of it when the judged amplifier may use Raman
    models, 0.2 dB/km otherwise).  The companion's selection is recorded and judged by Trace_AmpSelection on its own
    context like any selection of B3; what the judged amplifier gets must not depend on it.
B3  every select_edfa call made while designing the shipped networks (as shipped and with every amplifier turned into
    a placeholder), both modes, is recorded with the whole library, each model's edfa_nf at the target gain, the lists
    read from the element and the adjacent ROADMs, the targets and the choice; Trace_AmpSelection judges the choice.
    Auto-designed multiband amplifiers: OneGroup, EveryMemberCoversItsBand.  meshV2 with placeholders is also designed
    with the SI band equal to the default amplifier band, and with every model allowed at 5 dBm per channel.
"""
import inspect
import json
import zlib

from harness import tlc
from harness.core import Machinery
from harness import designpower_util as U
from harness.gnpy_util import TD

BOUNDS = {
    'quick': [dict(max_lib=2, wide=False, stride=52)],
    'thorough': [dict(max_lib=3, wide=True, stride=149), dict(max_lib=4, wide=False, stride=1499)],
}
CLAUSES = ['ChosenPermitted', 'CoversBand', 'RamanOnlyIfAllowed', 'CapableIfPossible', 'QuietestCapable',
           'NeverRefusesWhenCapable', 'RestrictIsPermitted', 'CanAlwaysConclude', 'SketchRefinesProperty']
BOOSTER, INLINE, PREAMP, BETWEEN = 0, 1, 2, 3
POS_NAMES = ['booster', 'inline', 'preamp', 'between-roadms']
JUDGED_UID = {BOOSTER: 'amp 0', INLINE: 'amp 1', PREAMP: 'amp 2', BETWEEN: 'amp 0'}


def mc_cfg(b):
    inv = '\n'.join(f'INVARIANT {c}' for c in ['TypeOK'] + CLAUSES + ['Emit'])
    return (f'CONSTANTS\n  Cases <- MCCases\n  MaxLib = {b["max_lib"]}\n  WidePairs = {"TRUE" if b["wide"] else "FALSE"}\n'
            f'  EmitStride = {b["stride"]}\nINIT MCInit\nNEXT Next\n{inv}\n')


# ------------------------------------------------------------------------------------------------ B2 concretiser
SI = dict(f_min=193.0e12, f_max=193.5e12, spacing=50e9, baud_rate=32e9, power_dbm=0, tx_power_dbm=0,
          use_si_channel_count_for_design=True)        # 10 channels at 0 dBm: required total power 10 dBm
HELPER = dict(type_variety='helper', type_def='fixed_gain', gain_flatmax=45, gain_min=0, p_max=30, nf0=5,
              out_voa_auto=False, allowed_for_design=False)


def db(x):
    return x / 1e6


def name_models(js):
    """library-independent names: the models of a case are called model_a, model_b, ... in the order of their ids, so
    the same name carries different gain ranges, powers and noise figures from one generated library to the next (as
    two equipment files of different vendors / releases do)"""
    for k, a in enumerate(sorted(js['lib'], key=lambda m: m['id'])):
        a['name'] = f'model_{"abcdefgh"[k]}'


def mname(a):
    return a['name']


def library_json(lib, variable_gain):
    out = [dict(HELPER)]
    for a in sorted(lib, key=lambda m: m['id']):
        e = dict(type_variety=mname(a), gain_flatmax=db(a['flat']), gain_min=db(a['gmin']), p_max=db(a['pmax']),
                 out_voa_auto=False, allowed_for_design=bool(a['alw']), raman=bool(a['raman']),
                 f_min=a['fmin'] * 1e6, f_max=a['fmax'] * 1e6)
        if variable_gain:
            e.update(type_def='variable_gain', nf_min=db(a['nf0']) + 1.0, nf_max=db(a['nf0']) + 4.0)
        else:
            e.update(type_def='fixed_gain', nf0=db(a['nf0']))
        out.append(e)
    return out


def companion_of(c):
    """index of the companion amplifier of the line (None: the judged amplifier has none)"""
    return {INLINE: PREAMP, PREAMP: INLINE}.get(c['pos'])


def concretise(js, variable_gain, companion=False):
    lib, c = js['lib'], js['c']
    own_grid = c['variant'] == 3          # design band of the degree declared on a 37.5 GHz grid (13 channels, SI grid: 10)
    eq = U.synthetic_equipment(library_json(lib, variable_gain),
                               span=dict(power_mode=True, delta_power_range_db=[0, 0, 0], padding=10, EOL=0,
                                         con_in=0.25, con_out=0.25, target_extended_gain=db(c['ext']),
                                         max_fiber_lineic_loss_for_raman=db(c['ramanLimit']), max_length=150,
                                         length_units='km'),
                               si=dict(SI, use_si_channel_count_for_design=False) if own_grid else SI)
    g, pos = db(c['g']), c['pos']
    fused_before = c['variant'] == 1        # a 0.5 dB Fused element directly in front of the judged amplifier
    uvoa = 1.0 if c['variant'] == 2 else 0.0  # operator output VOA on the judged amplifier: offset +1 dB, so the loss in
    g -= uvoa                                 # front of it is 1 dB below the required gain
    losses = [20.0, 20.0]
    coefs = [0.2, 0.2]                  # dB/km at the fibre's reference frequency (sets the length for a given loss)
    decl = [0.2, 0.2]                   # what the topology declares as loss_coef
    if pos in (INLINE, PREAMP):
        ref = db(c['lossCoefRef'])
        losses[pos - 1], coefs[pos - 1], decl[pos - 1] = g, ref, ref
        if c['fibre'] == 2:
            # frequency-dependent coefficient: 0.30 dB/km at the lower edge of the design band, 0.24 dB/km from 193.2 THz
            # on (the fibre's reference frequency, 193.41 THz, lies there): above the Raman limit on part of the band
            decl[pos - 1] = {'value': [db(c['lossCoef']), ref, ref], 'frequency': [193.0e12, 193.2e12, 193.6e12]}
    spans = [[dict(kind='fiber', length_km=(L - 0.5) / k, loss_coef=d)] for L, k, d in zip(losses, coefs, decl)]
    head = None
    if fused_before and pos in (INLINE, PREAMP):
        L, k, d = losses[pos - 1], coefs[pos - 1], decl[pos - 1]
        spans[pos - 1] = [dict(kind='fiber', length_km=(L - 1.0) / k, loss_coef=d), dict(kind='fused', loss=0.5)]
    elif fused_before:
        head = [dict(kind='fused', loss=0.5)]
        g -= 0.5                              # ROADM target + Fused loss + gain = reference power
    if pos == BETWEEN:
        spans = []                          # ROADM A -> judged amplifier -> ROADM B
    judged = {'operational': {'out_voa': uvoa}} if uvoa else {}
    own = [mname(a) for a in lib if a['own']]
    if c['useOwn'] and own:
        judged['variety_list'] = own
    amps = {0: judged} if pos == BETWEEN else {k: ({'type_variety': 'helper'} if k != pos else judged) for k in range(3)}
    co = companion_of(c) if companion else None
    if co is not None:
        # the companion: same lists, same required gain (span loss c.g) and power (no operator VOA), a plain fibre in
        # front of it whose loss coefficient puts it in the opposite Raman situation
        raman_ok = c['prevFiber'] and c['lossCoef'] < c['ramanLimit']
        k = 0.3 if raman_ok else 0.2
        spans[co - 1] = [dict(kind='fiber', length_km=(db(c['g']) - 0.5) / k, loss_coef=k)]
        amps[co] = {'variety_list': own} if c['useOwn'] and own else {}
    rdm = [mname(a) for a in lib if a['rdm']]
    ra = {'params': {'target_pch_out_db': -g if pos in (BOOSTER, BETWEEN) else -20.0}}
    rb = {'params': {}}
    if c['useRdm'] and rdm:
        # the lists are declared on both ROADMs (booster lists, preamp lists or both, see rdmSide): only the booster
        # list of the ROADM right before and the preamp list of the ROADM right after may take effect, an empty list is
        # no restriction, and none of them applies to an inline amplifier
        for r in (ra, rb):
            r['params']['restrictions'] = {'booster_variety_list': rdm if c['rdmSide'] in (0, 1) else [],
                                           'preamp_variety_list': rdm if c['rdmSide'] in (0, 2) else []}
    if own_grid:
        first = 'fused 0.1' if head else 'amp 0'
        ra['params']['per_degree_design_bands'] = {first: [{'f_min': 193.0e12, 'f_max': 193.5e12, 'spacing': 37.5e9}]}
    return eq, U.line_topology(spans, roadm_a=ra, roadm_b=rb, amps=amps, reverse=False, head=head)


def run_case(js, variable_gain, tag, companion=True):
    """design the concretised line; returns (chosen model name or 'refused' or 'EXC ...', trace for TLC or None, error
    text or None, traces of the other auto-designed amplifiers of the line).  The line is first designed with the
    companion amplifier; when the companion's own outcome changes what the judged amplifier is asked for (the design
    stops at the companion, or the companion cannot deliver its power and the judged amplifier downstream has to make up
    for it) the line is designed again without it."""
    from gnpy.core.exceptions import ConfigurationError
    c = js['c']
    companion = companion and companion_of(c) is not None
    eq, topo = concretise(js, variable_gain, companion)
    try:
        net, ref, rec = U.design_json(topo, eq)
    except ConfigurationError as e:
        # "no amplifier found": a refusal.  The trace carries the library as the harness reads it.
        uid = JUDGED_UID[c['pos']]
        if uid not in str(e):
            if companion:
                return run_case(js, variable_gain, tag, companion=False)
            raise Machinery(f'{tag}: the design failed outside the judged amplifier: {e}')
        names, lib = U.library_models(eq, db(c['g']), [mname(a) for a in js['lib'] if a['own'] and c['useOwn']],
                                      [mname(a) for a in js['lib'] if a['rdm'] and c['hasRdm']])
        ctx = dict(g=c['g'], p=c['p'], ext=c['ext'], hasOwn=int(c['hasOwn']), hasRdm=int(c['hasRdm']), bfmin=c['bfmin'],
                   bfmax=c['bfmax'], prevFiber=int(c['prevFiber']), lossCoef=c['lossCoef'], ramanLimit=c['ramanLimit'])
        return 'refused', dict(name=tag, kind=0, jp=1, c=ctx, lib=lib, chosen=0, refused=1, hasList=0, groups=[],
                               ptype=U.NONE, named=U.NONE, members=[], sels=[]), str(e), []
    except Exception as e:                                               # noqa
        return f'EXC {type(e).__name__}', None, str(e), []
    tr, cx = U.selection_traces(net, eq, rec, tag)
    uid = JUDGED_UID[c['pos']]
    mine = [(t, x) for t, x in zip(tr, cx) if x['uid'] == uid]
    if len(mine) != 1:
        raise Machinery(f'{tag}: {len(mine)} selections recorded for the judged amplifier')
    t, x = mine[0]
    others = [o for o, y in zip(tr, cx) if y['uid'] != uid]
    if len(others) != (1 if companion else 0):
        raise Machinery(f'{tag}: {len(others)} selections recorded besides the judged amplifier')
    if companion and (abs(t['c']['g'] - c['g']) > 5 or abs(t['c']['p'] - c['p']) > 5) and \
            any(s['reduction'] for s in rec.select_calls if s['uid'] != uid):
        return run_case(js, variable_gain, tag, companion=False)
    for o in others:
        o['name'] = tag + 'co'
    t['name'] = tag
    # the selection must have been asked for the gain and total power the line requires (the case's g and p); the
    # trace is judged against the REQUIRED values
    err = None
    if abs(t['c']['g'] - c['g']) > 5 or abs(t['c']['p'] - c['p']) > 5:
        err = f'selection called with g={t["c"]["g"]} p={t["c"]["p"]} (micro-dB), the line requires g={c["g"]} p={c["p"]}'
    t['c']['g'], t['c']['p'] = c['g'], c['p']
    return x['chosen'], t, err, others


def describe(js):
    c = js['c']
    return dict(g=db(c['g']), p=db(c['p']), position=POS_NAMES[c['pos']], fibre=['0.2 dB/km', '0.3 dB/km', '0.30..0.24 dB/km'][c['fibre']],
                useOwn=c['useOwn'], useRdm=c['useRdm'], roadm_lists=['booster+preamp', 'booster only', 'preamp only'][c['rdmSide']],
                surroundings=['plain', 'Fused element directly before', 'operator out_voa 1 dB',
                              'design band on a 37.5 GHz grid (13 channels)', 'target_extended_gain 1 dB'][c['variant']],
                extended_gain=db(c['ext']),
                library=[{k: (db(a[k]) if k in ('gmin', 'flat', 'pmax', 'nf0', 'nf') else a[k])
                          for k in ('name', 'id', 'gmin', 'flat', 'pmax', 'nf0', 'nf', 'raman', 'fmin', 'own', 'rdm', 'alw')}
                         for a in sorted(js['lib'], key=lambda m: m['id'])],
                admissible=sorted(js['adm']), capable=sorted(js['cap']), mayRefuse=js['mayRefuse'])


def case_class(js, got):
    """stable class of a failing case: what the library offered and what went wrong"""
    c = js['c']
    lib = {mname(a): a for a in js['lib']}
    kinds = []
    if got in lib:
        a = lib[got]
        if a['id'] not in js['cap'] and js['cap']:
            kinds.append('chose-incapable')
        if a['raman'] and not (c['prevFiber'] and c['lossCoef'] < c['ramanLimit']):
            kinds.append('raman-not-allowed')
        if a['fmin'] > c['bfmin']:
            kinds.append('band-not-covered')
        if a['id'] in js['cap'] and a['id'] not in js['adm']:
            kinds.append('not-quietest')
        listed = a['own'] if c['hasOwn'] else (a['rdm'] if c['hasRdm'] else a['alw'])
        if not listed:
            kinds.append('not-permitted')
    else:
        kinds.append(got.split(':')[0].replace(' ', '-'))
    src = 'own' if c['hasOwn'] else ('roadm' if c['hasRdm'] else 'allowed')
    return f'{"+".join(kinds) or "other"}|list={src}|pos={POS_NAMES[c["pos"]]}'


_SHARED = {}          # verdicts of the shared TLC pass over B2 + B3 + corrupted traces


def judge(traces, chk, tag):
    if traces and all(t['name'] in _SHARED for t in traces):
        return {t['name']: _SHARED[t['name']] for t in traces}
    verdicts = {}
    for lo in range(0, len(traces), 6000):
        batch = traces[lo:lo + 6000]
        res = tlc.run('Trace_AmpSelection', extra_files={'trace.ndjson': U.ndjson(batch)},
                      env={'TRACE_FILE': 'trace.ndjson'}, workers=1, timeout=1800, tag=f'c10-{tag}')
        if not res.ok:
            raise Machinery(f'trace validation run failed: {res.error or res.violated}\n{res.out[-2000:]}')
        chk.states += res.distinct
        chk.transitions += res.generated
        for v in res.emitted:
            verdicts[v['name']] = v
        for t in batch:
            if t['name'] not in verdicts or verdicts[t['name']]['n'] != 1:
                raise Machinery(f'no verdict for trace {t["name"]}')
    return verdicts


def corrupted_traces(traces):
    """corrupted copies of conforming traces must be rejected with the right clause"""
    import copy
    base = None
    for t in traces:
        if t['kind'] == 0 and not t['refused'] and t['jp'] == 1:
            others = [m for m in t['lib'] if m['id'] != t['chosen'] and m['alw'] == 0 and m['own'] == 0 and m['rdm'] == 0]
            if others:
                base, other = t, others[0]
                break
    if base is None:
        return []
    muts = []
    m = copy.deepcopy(base); m['name'] = 'corrupt-choice'; m['chosen'] = other['id']; muts.append((m, 'ChosenPermitted'))
    m = copy.deepcopy(base); m['name'] = 'corrupt-band'
    m['lib'][base['chosen']]['fmin'] = base['c']['bfmin'] + 100000; muts.append((m, 'CoversBand'))
    return muts


def check_corrupted(muts, chk):
    got = {m['name']: {c for _, c in judge([m], chk, 'selfcheck')[m['name']]['viol']} for m, _ in muts}
    for m, clause in muts:
        if clause not in got.get(m['name'], set()):
            raise Machinery(f'Trace_AmpSelection accepted a corrupted trace ({m["name"]}: expected {clause}, got {got.get(m["name"])})')
    chk.cov['monitor_selfcheck'] = sorted(f'{m["name"]}->{c}' for m, c in muts)


# ------------------------------------------------------------------------------------------------------- B3
MB_BANDS = [{'f_min': 191.3e12, 'f_max': 196.0e12, 'spacing': 50e9}, {'f_min': 187.0e12, 'f_max': 190.0e12, 'spacing': 50e9}]


def multiband_line(own=None, booster=None, preamp=None, operator_type=None, lengths=(70, 105, 50)):
    """C+L line ROADM A -> amp 0 -> 70 km -> amp 1 -> 105 km -> amp 2 -> 50 km -> amp 3 -> ROADM B of Multiband_amplifier
    elements.  own: variety_list of amp 1; booster / preamp: restriction lists of ROADM A / ROADM B; operator_type: the
    multiband type the operator gives every amplifier (its band models are still left to auto-design)"""
    spans = [[dict(kind='fiber', length_km=L)] for L in lengths]
    amps = {k: {'amplifiers': []} for k in range(4)}
    if operator_type:
        amps = {k: {'type_variety': operator_type} for k in range(4)}
    if own:
        amps[1]['variety_list'] = own
    ra = {'params': {'per_degree_design_bands': {'amp 0': MB_BANDS}} if operator_type else {'design_bands': MB_BANDS}}
    rb = {'params': {}}
    if booster:
        ra['params']['restrictions'] = {'booster_variety_list': booster, 'preamp_variety_list': []}
    if preamp:
        rb['params']['restrictions'] = {'booster_variety_list': [], 'preamp_variety_list': preamp}
    return U.line_topology(spans, roadm_a=ra, roadm_b=rb, amps=amps, amp_type='Multiband_amplifier', reverse=False)


def multiband_scenarios(eq):
    """every multiband type of the library in turn as: own variety list of an amplifier, booster restriction of the
    ingress ROADM, preamp restriction of the egress ROADM, operator-chosen type of every amplifier; plus no list"""
    types = [g for g, a in eq['Edfa'].items() if a.type_def == 'multi_band']
    yield 'auto', multiband_line()
    # required gains swept in 0.5 dB steps through the flat and extended gain ranges of the library's multiband types
    for k, lengths in enumerate(((42.5, 80, 117.5), (45, 82.5, 120), (47.5, 85, 122.5), (50, 87.5, 125), (52.5, 90, 127.5),
                                 (55, 92.5, 130), (57.5, 77.5, 132.5), (60, 75, 135))):
        yield f'auto-gains-{k}', multiband_line(lengths=lengths)
    for t in types:
        yield f'own={t}', multiband_line(own=[t])
        yield f'booster={t}', multiband_line(booster=[t])
        yield f'preamp={t}', multiband_line(preamp=[t])
        yield f'operator-type={t}', multiband_line(operator_type=t)


def collect_b3(chk):
    traces, ctxs = [], {}
    for name, topo, eqf, extra, tier in U.SHIPPED:
        if tier == 'thorough' and chk.tier == 'quick':
            continue
        for strip in (False, True):
            if strip and str(topo).endswith(('.xls', '.xlsx')):
                continue
            for mode in (True, False):
                if strip and not mode and chk.tier == 'quick':
                    continue                    # placeholder variants in gain mode: thorough tier only
                tag = f'{name}{"-placeholders" if strip else ""}|{"power" if mode else "gain"}'
                try:
                    net, eq, ref, rec = U.design(topo, eqf, extra, power_mode=mode, strip=strip)
                except U.LoadError as e:
                    chk.cov.setdefault('b3_not_loadable', []).append(f'{tag}: {str(e)[:80]}')
                    continue
                except Exception as e:                                       # noqa
                    if strip:
                        # placeholders may be undesignable with the shipped library (e.g. no allowed model): not a
                        # selection to judge
                        chk.cov.setdefault('b3_undesignable_placeholder_variants', []).append(tag)
                        continue
                    chk.violation(f'B3|{name}|design-exception|{type(e).__name__}',
                                  dict(network=name, power_mode=mode, exception=f'{type(e).__name__}: {e}'))
                    continue
                tr, cx = U.selection_traces(net, eq, rec, tag)
                traces += tr
                ctxs.update({c['name']: c for c in cx})
    # generalised designs of a shipped network with placeholder amplifiers: (a) the SI band equal to the band of the
    # library's default amplifier models (design-band edges coincide with model edges), (b) every model allowed for
    # design and 5 dBm per channel (the required total power exceeds the p_max of some otherwise suitable models)
    from harness.gnpy_util import EX
    for vname, kw in (('meshV2-placeholders-si-band-equals-amplifier-band', dict(si=dict(f_min=191.275e12, f_max=196.125e12))),
                      ('meshV2-placeholders-all-models-allowed-5dBm',
                       dict(si=dict(power_dbm=5, tx_power_dbm=5), edfa_attrs={'allowed_for_design': True}))):
        tag = f'{vname}|power'
        try:
            net, eq, ref, rec = U.design(EX / 'meshTopologyExampleV2.json', EX / 'eqpt_config.json', (), power_mode=True,
                                         strip=True, **kw)
        except U.LoadError as e:
            chk.cov.setdefault('b3_not_loadable', []).append(f'{tag}: {str(e)[:80]}')
            continue
        except Exception as e:                                               # noqa
            chk.violation(f'B3|{vname}|design-exception|{type(e).__name__}',
                          dict(variant=vname, exception=f'{type(e).__name__}: {e}'))
            continue
        tr, cx = U.selection_traces(net, eq, rec, tag)
        traces += tr
        ctxs.update({c['name']: c for c in cx})
    from gnpy.core.exceptions import ConfigurationError, NetworkTopologyError
    refusals = 0
    for mode in ((True,) if chk.tier == 'quick' else (True, False)):
        for sname, topo in multiband_scenarios(U.load_equipment(TD / 'eqpt_config_multiband.json')):
            eq = U.load_equipment(TD / 'eqpt_config_multiband.json', power_mode=mode)
            tag = f'synthetic_multiband_line:{sname}|{"power" if mode else "gain"}'
            net, ref, rec, exc = U.design_json_partial(topo, eq)
            if exc is not None and not isinstance(exc, (ConfigurationError, NetworkTopologyError)):
                chk.violation(f'B3|synthetic_multiband_line|design-exception|{type(exc).__name__}',
                              dict(power_mode=mode, scenario=sname, exception=f'{type(exc).__name__}: {exc}'))
                continue
            if exc is not None:
                refusals += 1          # the design declines the configuration; what it selected until then is still judged
            try:
                tr, cx = U.selection_traces(net, eq, rec, tag, complete=exc is None)
            except Exception:                                                # noqa  half-designed network not walkable
                continue
            traces += tr
            ctxs.update({c['name']: c for c in cx})
    chk.cov['b3_multiband_scenarios_refused'] = refusals
    return traces, ctxs


def finish_b3(chk, traces, ctxs):
    verdicts = judge(traces, chk, 'b3')
    ok = 0
    for t in traces:
        v = verdicts[t['name']]
        chk.case(t['name'], nontrivial=v['ncap'] > 1 or t['kind'] == 2)
        if not v['viol']:
            ok += 1
            continue
        c = ctxs[t['name']]
        for _, clause in v['viol']:
            src = 'own' if t['c']['hasOwn'] else ('roadm' if t['c']['hasRdm'] else 'allowed')
            net_name = t['name'].split('|')[0]
            if net_name.startswith('synthetic_multiband_line:'):
                net_name = 'synthetic_multiband_line'           # the list kind (below) is the class, not the scenario
            if t['kind'] != 0:
                src = 'operator-type' if t['ptype'] != U.NONE else ('listed' if t['hasList'] else 'allowed')
            sig = f'B3|{net_name}|{clause}|kind={t["kind"]}|list={src}'
            chk.violation(sig, dict(trace=t['name'], clause=clause, selection=c, context=t['c'],
                                    library=[dict(m, name=c.get('models', [None] * 999)[m['id']]) for m in t['lib']]))
    chk.traces += ok
    chk.cov['b3_selections'] = sum(1 for t in traces if t['kind'] == 0)
    chk.cov['b3_multiband_member_selections'] = sum(1 for t in traces if t['kind'] == 1)
    chk.cov['b3_multiband_amplifiers'] = sum(1 for t in traces if t['kind'] == 2)
    chk.cov['b3_selections_with_several_capable_models'] = sum(1 for t in traces if verdicts[t['name']]['ncap'] > 1)
    chk.cov['b3_selections_with_no_capable_model'] = sum(1 for t in traces if t['kind'] == 0 and verdicts[t['name']]['ncap'] == 0)
    chk.cov['b3_selections_restricted_by_own_list'] = sum(1 for t in traces if t['kind'] == 0 and t['c']['hasOwn'])
    chk.cov['b3_selections_restricted_by_roadm'] = sum(1 for t in traces if t['kind'] == 0 and t['c']['hasRdm'])
    chk.cov['b3_open_min_gain_cases_unjudged'] = sum(verdicts[t['name']]['open'] for t in traces)
    if traces:
        t = next((x for x in traces if x['kind'] == 0 and verdicts[x['name']]['ncap'] > 1), traces[0])
        chk.sample(dict(kind='B3 select_edfa call of a real design judged by Trace_AmpSelection', name=t['name'],
                        context=t['c'], chosen=t['chosen'], selection=ctxs[t['name']], library=t['lib'][:4]))
    return traces


def run(chk):
    b2_traces = []
    n = n_ok = n_open = n_vg = n_co = 0
    exercised = dict(own_list=0, roadm_list=0, allowed=0, raman_capable=0, raman_blocked=0, narrow_band=0,
                     several_capable=0, none_capable=0, refusal_admitted=0, below_min_gain_allowance=0,
                     band_edge_model_is_the_choice=0, quieter_raman_lacks_power=0, mixed_loss_fibre_blocks_quieter_raman=0,
                     between_roadms_preamp_list_only=0, fused_before_blocks_quieter_raman=0,
                     fused_after_roadm_lifts_booster_list=0, operator_voa_needs_more_power=0, nf_within_a_tenth_of_a_db=0, own_grid_needs_more_power=0,
                     quieter_model_a_tenth_of_a_db_short_of_power=0, small_extended_gain_padded_model_is_the_choice=0,
                     companion_differs_in_raman_only=0)
    mism = []
    for b in BOUNDS[chk.tier]:
        r = tlc.run('MC_AmpSelection', cfg_text=mc_cfg(b), timeout=2400, tag='c10-mc')
        chk.add_mc(f'MC_AmpSelection MaxLib={b["max_lib"]} WidePairs={b["wide"]}', r)
        for js in r.emitted:
            name_models(js)
            c = js['c']
            key = json.dumps([sorted(a['id'] for a in js['lib']), c['g'], c['pos'], c['fibre'], c['useOwn'], c['useRdm'], c['rdmSide'], c['variant']])
            n += 1
            tag = 'B2#' + format(zlib.crc32(key.encode()), '08x')
            got, trace, err, others = run_case(js, False, tag)
            b2_traces += others
            n_co += len(others)
            names = {mname(a): a['id'] for a in js['lib']}
            ok = (got == 'refused' and js['mayRefuse']) or (got in names and names[got] in js['adm'])
            if err and not got.startswith('EXC') and got != 'refused':
                chk.violation('B2|selection-called-with-other-targets', dict(case=describe(js), detail=err))
            if js['open']:
                n_open += 1                       # a model below the 3 dB allowance would be quieter: unjudged
            elif ok:
                n_ok += 1
            else:
                mism.append((js, got, err, tag))
            if trace is not None:
                trace['open'] = 1 if js['open'] else 0
                b2_traces.append(trace)
            # the same line with the library turned into variable-gain models: judged by the trace specification only
            # (always when the NF ranking decides between several capable models, else for every third capable case)
            twin = len(js['cap']) > 1 or (js['cap'] and n % 3 == 0)
            got2, trace2, err2, _ = run_case(js, True, tag + 'vg', companion=False) if twin else ('skipped', None, None, [])
            if trace2 is not None:
                trace2['open'] = 0
                b2_traces.append(trace2)
                n_vg += 1
            elif got2.startswith('EXC'):
                chk.violation(f'B2vg|{got2}|pos={c["pos"]}', dict(case=describe(js), exception=err2))
            chk.case(key, nontrivial=len(js['cap']) > 0)
            exercised['own_list'] += c['hasOwn']
            exercised['roadm_list'] += c['hasRdm'] and not c['hasOwn']
            exercised['allowed'] += not c['hasOwn'] and not c['hasRdm']
            ramanok = c['prevFiber'] and c['lossCoef'] < c['ramanLimit']
            exercised['raman_capable'] += any(a['raman'] and a['id'] in js['cap'] for a in js['lib'])
            exercised['raman_blocked'] += any(a['raman'] for a in js['lib']) and not ramanok
            exercised['narrow_band'] += any(a['fmin'] > c['bfmin'] for a in js['lib'])
            exercised['several_capable'] += len(js['cap']) > 1
            exercised['none_capable'] += len(js['cap']) == 0
            exercised['refusal_admitted'] += got == 'refused'
            exercised['below_min_gain_allowance'] += bool(js['open'])
            best = min((a['nf'] for a in js['lib'] if a['id'] in js['adm']), default=None)
            exercised['between_roadms_preamp_list_only'] += bool(js['cap']) and c['pos'] == BETWEEN and c['hasRdm'] and \
                c['rdmSide'] == 2 and not c['hasOwn']
            adm_nf = sorted(a['nf'] for a in js['lib'] if a['id'] in js['cap'])
            exercised['nf_within_a_tenth_of_a_db'] += len(adm_nf) > 1 and 0 < adm_nf[1] - adm_nf[0] < 100000
            exercised['operator_voa_needs_more_power'] += c['variant'] == 2 and bool(js['cap']) and any(
                a['pmax'] < c['p'] <= a['pmax'] + 1000000 and a['nf'] < best for a in js['lib'])
            exercised['own_grid_needs_more_power'] += c['variant'] == 3 and bool(js['cap']) and any(
                a['pmax'] < c['p'] and a['pmax'] > c['p'] - 1139434 and a['nf'] < best for a in js['lib'])
            exercised['fused_before_blocks_quieter_raman'] += c['variant'] == 1 and bool(js['cap']) and c['pos'] in (INLINE, PREAMP) \
                and any(a['raman'] and a['nf'] < best and a['pmax'] > c['p'] for a in js['lib'])
            exercised['fused_after_roadm_lifts_booster_list'] += c['variant'] == 1 and c['pos'] in (BOOSTER, BETWEEN) and \
                c['useRdm'] and not c['hasRdm'] and not c['hasOwn'] and any(a['rdm'] for a in js['lib'])
            exercised['quieter_model_a_tenth_of_a_db_short_of_power'] += bool(js['cap']) and any(
                c['p'] - 300000 < a['pmax'] < c['p'] and a['nf'] < best for a in js['lib']) and all(
                a['pmax'] < c['p'] + 300000 for a in js['lib'] if a['id'] in js['cap'])
            exercised['small_extended_gain_padded_model_is_the_choice'] += c['ext'] < 3000000 and len(js['cap']) > 1 and any(
                a['id'] in js['adm'] and a['gmin'] - 3000000 < c['g'] < a['gmin'] - c['ext'] for a in js['lib'])
            # the companion is asked for the same targets among the same candidates, only Raman is allowed for one of them
            # (read from the generated case, not from what the design did: no operator VOA on the judged amplifier only, no
            # ROADM preamp list that applies to the preamp of the pair only)
            exercised['companion_differs_in_raman_only'] += companion_of(c) is not None and bool(js['cap']) and \
                c['variant'] != 2 and not (c['useRdm'] and c['rdmSide'] in (0, 2) and any(a['rdm'] for a in js['lib'])) and \
                any(a['raman'] and a['id'] in js['cap'] for a in js['lib'])
            exercised['band_edge_model_is_the_choice'] += bool(js['cap']) and any(
                a['fmax'] == c['bfmax'] and a['id'] in js['adm'] for a in js['lib'])
            exercised['quieter_raman_lacks_power'] += bool(js['cap']) and ramanok and any(
                a['raman'] and a['pmax'] < c['p'] and a['gmin'] < c['g'] < a['flat'] + c['ext'] and a['nf'] < best
                for a in js['lib'])
            exercised['mixed_loss_fibre_blocks_quieter_raman'] += bool(js['cap']) and c['fibre'] == 2 and any(
                a['raman'] and a['pmax'] > c['p'] and a['gmin'] < c['g'] < a['flat'] + c['ext'] and a['nf'] < best
                for a in js['lib'])
            if len(chk.samples) < 2 and len(js['cap']) > 1 and len(js['adm']) == 1:
                chk.sample(dict(kind='B2 TLC case designed by the real auto-design', case=describe(js), chosen=got))
    if any(v == 0 for k, v in exercised.items() if k != 'refusal_admitted'):
        raise Machinery(f'vacuous replay set: {exercised}')
    for js, got, err, tag in mism:
        chk.violation(f'B2|{case_class(js, got)}', dict(case=describe(js), chosen=got, exception=err, trace=tag))
    # ONE TLC pass judges the replayed cases (B2), the recorded selections of the corpus (B3) and the corrupted copies
    b3_traces, b3_ctx = collect_b3(chk)
    muts = corrupted_traces(b3_traces + b2_traces)
    _SHARED.clear()
    _SHARED.update(judge(b2_traces + b3_traces + [m for m, _ in muts], chk, 'traces'))
    verdicts = judge(b2_traces, chk, 'b2')
    named = {tag for _, _, _, tag in mism}
    ok = 0
    for t in b2_traces:
        v = verdicts[t['name']]
        if not v['viol']:
            ok += 1
            continue
        if t['name'] in named:
            continue                                     # already reported with the model's expectation
        if t.get('open'):
            continue
        if t['name'].endswith('co'):
            # the second selection of the design (the companion amplifier), judged on its own context
            clause = '+'.join(sorted({c for _, c in v['viol']}))
            src = 'own' if t['c']['hasOwn'] else ('roadm' if t['c']['hasRdm'] else 'allowed')
            chk.violation(f'B2co|{clause}|list={src}', dict(trace=t['name'], viol=v['viol'], context=t['c'], library=t['lib'],
                                                            chosen=t['chosen']))
        elif t['name'].endswith('vg'):
            clause = '+'.join(sorted({c for _, c in v['viol']}))
            src = 'own' if t['c']['hasOwn'] else ('roadm' if t['c']['hasRdm'] else 'allowed')
            chk.violation(f'B2vg|{clause}|list={src}', dict(trace=t['name'], viol=v['viol'], context=t['c'], library=t['lib'],
                                                            chosen=t['chosen']))
        else:
            raise Machinery(f'choice admissible for the model is rejected by Trace_AmpSelection: {t["name"]} {v["viol"]}')
    chk.traces += ok
    chk.exhaustive = True
    chk.cov['b2_cases_replayed'] = n
    chk.cov['b2_choices_admissible'] = n_ok
    chk.cov['b2_open_min_gain_cases_unjudged'] = n_open
    chk.cov['b2_variable_gain_twins_judged_by_trace'] = n_vg
    chk.cov['b2_companion_selections_judged_by_trace'] = n_co
    chk.cov['b2_clauses_exercised'] = exercised
    b3 = finish_b3(chk, b3_traces, b3_ctx)
    check_corrupted(muts, chk)
    chk.cov['tolerance_trace_udb'] = dict(Margin=10, TolNF=10)
    chk.cov['rule'] = ('B2: one case = (library, required gain, position, fibre, own list, ROADM list) emitted by TLC, distinct '
                       'by that key, non-trivial when at least one permitted model is capable; B3: one case = one '
                       'select_edfa call (or one auto-designed multiband amplifier) of a real design, non-trivial when more '
                       'than one permitted model is capable (the NF ranking decides) or for a multiband amplifier')
    chk.assume('a required gain / power within 1e-5 dB of a capability boundary is undecided; B2 targets sit 0.5 dB off every boundary')
    chk.assume('the noise figure of a model at the required gain is the implementation\'s own edfa_nf (an input to the '
               'specification); a model without computable NF is not used as a comparison')
    chk.assume('a model excluded only by the 3 dB minimum-gain allowance that would be quieter than the choice: case '
               'generated and counted, not judged; when no permitted model is capable only membership (and Raman / band) is judged')
    chk.assume('an amplifier directly between two ROADMs that carry different booster and preamp lists: precedence '
               'between the two lists is not judged')
    chk.assume('per-band selections inside a multiband amplifier: band coverage and the Raman rule only; the completed '
               'multiband amplifier must be one permitted group whose members cover their bands')


# ------------------------------------------------------------------------------------------------------ mutants
def _patch_source(name, old, new, count=1):
    import gnpy.core.network as N
    src = inspect.getsource(getattr(N, name))
    if src.count(old) < 1:
        raise Machinery(f'mutant: fragment not found in {name}: {old!r}')
    exec(compile(src.replace(old, new, count), f'<mutant {name}>', 'exec'), N.__dict__)


def _mut_rank_max_nf():          # ranking on the wrong key: the noisiest acceptable model
    _patch_source('select_edfa', "selected_edfa = min(acceptable_power_list, key=attrgetter('nf'))",
                  "selected_edfa = max(acceptable_power_list, key=attrgetter('nf'))")


def _mut_rank_power():           # ranking on output power head-room instead of NF
    _patch_source('select_edfa', "selected_edfa = min(acceptable_power_list, key=attrgetter('nf'))",
                  "selected_edfa = max(acceptable_power_list, key=attrgetter('power'))")


def _mut_precedence():           # allowed_for_design models stay eligible next to a restriction list
    _patch_source('get_node_restrictions', 'and (n in restrictions or (not restrictions and a.allowed_for_design))]\n        return edfa_eqpt',
                  'and (n in restrictions or a.allowed_for_design)]\n        return edfa_eqpt')


def _mut_band_filter_dropped():  # band coverage not checked for single-band amplifiers
    _patch_source('get_node_restrictions', "(a.type_def != 'multi_band' and a.f_min <= band['f_min'] and a.f_max >= band['f_max'])",
                  "(a.type_def != 'multi_band')")


def _mut_raman_always():         # Raman models considered whatever the previous fibre
    _patch_source('set_one_amplifier', 'raman_allowed = (prev_node.params.loss_coef < max_fiber_lineic_loss_for_raman).all()',
                  'raman_allowed = True')


def _mut_power_per_channel():    # power capability tested against the per-channel instead of the total power
    _patch_source('set_one_amplifier', 'select_edfa(raman_allowed, gain_target, power_target, edfa_eqpt,',
                  'select_edfa(raman_allowed, gain_target, power_target - 10, edfa_eqpt,')


def _mut_preamp_list_first():    # preamp list of the next ROADM applied to every amplifier in front of it, own list ignored
    _patch_source('get_node_restrictions', 'if node.variety_list and isinstance(node.variety_list, list):',
                  'if False:')


def _mut_nf_rank_coarse():       # NF compared at 0.1 dB resolution, ties broken by power margin
    _patch_source('select_edfa', "selected_edfa = min(acceptable_power_list, key=attrgetter('nf'))",
                  "selected_edfa = min(acceptable_power_list, key=lambda x: (round(x.nf, 1), -x.power))")


def _mut_select_power_after_voa():   # the selection is asked for the power behind the output VOA
    _patch_source('set_one_amplifier', 'select_edfa(raman_allowed, gain_target, power_target, edfa_eqpt,',
                  'select_edfa(raman_allowed, gain_target, power_target - voa, edfa_eqpt,')


def _mut_fused_keeps_prev():     # a Fused element in the OMS walk does not become the "previous node"
    _patch_source('set_egress_amplifier', "            prev_node = node\n            node = next_node",
                  "            if not isinstance(node, elements.Fused):\n                prev_node = node\n            node = next_node")


MUTANTS = {'rank_max_nf': _mut_rank_max_nf, 'nf_rank_coarse': _mut_nf_rank_coarse,
           'select_power_after_voa': _mut_select_power_after_voa, 'fused_keeps_prev': _mut_fused_keeps_prev, 'precedence': _mut_precedence,
           'band_filter_dropped': _mut_band_filter_dropped, 'raman_always': _mut_raman_always,
           'power_per_channel': _mut_power_per_channel, 'own_list_ignored': _mut_preamp_list_first}


def run_b3(chk):
    """B3 alone (collect + judge), kept for interactive use"""
    return finish_b3(chk, *collect_b3(chk))
