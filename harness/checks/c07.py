"""C07 - the launched channel set survives the path intact; channel order is irrelevant.

B1  TLC explores MC_ChannelSet: every launch list (every order) of <= MaxLaunch of 17 candidate channels sitting on
    band edges, one MHz beyond them, in the C/L gap, touching / overlapping by one MHz, baud = slot / one MHz wider,
    on seven paths (single-band, multi-band, mixed, no amplifier, wide single band before / after a multi-band amplifier,
    three-band amplifiers C+L+S), with Survives, FilterKeepsExactlyCommon,
    InFrequencyOrder, OwnAttributes, OrderIrrelevant, RejectOverlap, RejectBaudWiderThanSlot, AcceptValid.
B2  every walk TLC emits is replayed on real objects: create_arbitrary_spectral_information and
    carriers_to_spectral_information and the loader of user spectrum documents, one partition per carrier
    (rejected exactly when the model rejects - SpectrumError, or the loader's own ValueError for overlapping
    partitions - else the model's sorted list with every attribute attached), filter_si on a path of real amplifiers of the shipped multi-band library, then every
    real element (Edfa, Fiber, Multiband_amplifier) called in turn, and explicit demux per band + mux.  The model has no
    gain in it: the channel list does not depend on the operating point, so every walk is replayed at one of the
    OPERATING_POINTS (as designed / one stage of every amplifier transparent, 0 dB).  Lists long enough to populate every
    band of the path's widest amplifier at once go through the elements too (one order per set).
B3  real propagate() runs on the shipped networks are judged by Trace_Propagation: the request-level clauses
    (RejectOverlap, RejectBaudWiderThanSlot, AcceptValid, Survives = a valid request with a channel in the common
    band is propagated to the end), LaunchIsSortedRequest, FilterKeepsExactlyCommon, Survives after every element,
    InFrequencyOrder, OwnAttributes and MultiBandPartition for nested amplifier crossings, OrderIrrelevant
    (same request, carriers in another order: identical receiver figures channel by channel within 1 micro-dB).
"""
import copy
from concurrent.futures import ThreadPoolExecutor

import numpy as np

from harness import tlc
from harness import propagation_util as pu
from harness.core import Machinery
from harness.gnpy_util import EX
from harness.ledger_util import run_b3

BOUNDS = {   # tier -> (MaxLaunch for B1 and launch-level replay, longest list replayed through real elements)
    'quick': (3, 2),
    'thorough': (4, 3),
}
MODEL_BANDS = {   # must be the constants of MC_ChannelSet (checked against the real equipment before replaying)
    'multi': [[-1875000, 3025000], [-6600000, -3000000]],
    'test_fixed_gain': [[-1825000, 3025000]],
    'std_low_gain_bis': [[-1850000, 3050000]],
    'default': [-1800000, 2000000],
    'wide_band': [[-7100000, 3100000]],
    'multi3': [[-1875000, 3025000], [-6600000, -3000000], [3900000, 6900000]],
}
# the operating point of the amplifiers plays no part in the model (and none in the property): stage k of every
# amplifier of the path (an Edfa is its own first stage) set to 0 dB, a transparent stage, or everything as designed
OPERATING_POINTS = ('as-designed', 'stage-1-at-0dB', 'stage-2-at-0dB', 'stage-3-at-0dB')


def cfg(maxlaunch, emit):
    """every clause of MC_ChannelSet.cfg; with emit the same run also prints every finished walk for the replay"""
    base = (tlc.SPEC / 'MC_ChannelSet.cfg').read_text().replace('MaxLaunch = 3', f'MaxLaunch = {maxlaunch}')
    return base + ('INVARIANT Emit\n' if emit else '')


# --------------------------------------------------------------------------------------------- real-code side (B2)
def attrs(label_id):
    """everything the transmitter attaches to the channel the model calls `label_id`"""
    return dict(label=f'L{label_id}', tx_osnr=30.0 + label_id, tx_power=1e-6 * (1 + label_id / 100),
                roll_off=0.1 + label_id / 1000, delta_pdb=label_id / 10)


def label_of(si, k, tx_power=None):
    """projection of the attributes carried by channel k back to the model's label (-1 when they do not belong
    to one and the same launched channel); tx_power: the power every carrier was declared with (spectrum documents
    give it in dBm), default the per-label power of attrs()"""
    lab = str(si.label[k])
    if not (lab.startswith('L') and lab[1:].isdigit()):
        return -1
    a = attrs(int(lab[1:]))
    same = (si.tx_osnr[k] == a['tx_osnr'] and si.tx_power[k] == (a['tx_power'] if tx_power is None else tx_power)
            and si.roll_off[k] == a['roll_off'] and si.delta_pdb_per_channel[k] == a['delta_pdb'])
    return int(lab[1:]) if same else -1


def project(si, tx_power=None):
    return [dict(f=pu.mhz(si.frequency[k]), w=int(round(si.slot_width[k] / 1e6)), b=int(round(si.baud_rate[k] / 1e6)),
                 label=label_of(si, k, tx_power)) for k in range(si.number_of_channels)]


def build_arbitrary(inp):
    from gnpy.core.info import create_arbitrary_spectral_information
    a = [attrs(c['label']) for c in inp]
    return create_arbitrary_spectral_information(
        frequency=[pu.hz(c['f']) for c in inp], pch=[x['tx_power'] for x in a], baud_rate=[c['b'] * 1e6 for c in inp],
        slot_width=[c['w'] * 1e6 for c in inp], tx_osnr=[x['tx_osnr'] for x in a], tx_power=[x['tx_power'] for x in a],
        roll_off=[x['roll_off'] for x in a], delta_pdb_per_channel=[x['delta_pdb'] for x in a],
        label=[x['label'] for x in a])


def build_carriers(inp):
    from gnpy.core.info import carriers_to_spectral_information, Carrier
    spectrum = {}
    for c in inp:
        a = attrs(c['label'])
        spectrum[pu.hz(c['f'])] = Carrier(delta_pdb=a['delta_pdb'], baud_rate=c['b'] * 1e6, slot_width=c['w'] * 1e6,
                                          roll_off=a['roll_off'], tx_osnr=a['tx_osnr'], tx_power=a['tx_power'],
                                          label=a['label'])
    return carriers_to_spectral_information(spectrum, power=1e-6)


def build_from_document(inp):
    """the launch list as a user spectrum document: one partition per carrier, in the caller's order, through the
    loader of spectrum files (the function behind load_initial_spectrum) and carriers_to_spectral_information"""
    from gnpy.core.info import carriers_to_spectral_information
    from gnpy.tools.json_io import _spectrum_from_json
    parts = []
    for c in inp:
        a = attrs(c['label'])
        parts.append({'f_min': pu.hz(c['f']), 'f_max': pu.hz(c['f']), 'baud_rate': c['b'] * 1e6, 'slot_width': c['w'] * 1e6,
                      'roll_off': a['roll_off'], 'tx_osnr': a['tx_osnr'], 'delta_pdb': a['delta_pdb'], 'label': a['label'],
                      'tx_power_dbm': 0})
    return carriers_to_spectral_information(_spectrum_from_json(parts), power=1e-3)


def three_band_amplifiers(n=2):
    """real Multiband_amplifier objects with three member amplifiers, configured C, L, S: the shipped multi-band library
    plus an S-band amplifier (the shipped C-band one with its band moved to 197 - 200 THz) and the three-band type"""
    import json
    import tempfile
    from pathlib import Path
    from gnpy.tools.json_io import load_json, load_equipments_and_configs, network_from_json
    eqpt = load_json(EX / 'eqpt_config_multiband.json')
    members = ['std_medium_gain_C', 'std_medium_gain_L', 'std_medium_gain_S']
    eqpt['Edfa'] += [dict(next(a for a in eqpt['Edfa'] if a['type_variety'] == members[0]), type_variety=members[2],
                          f_min=197.0e12, f_max=200.0e12),
                     dict(type_variety='std_medium_gain_CLS', type_def='multi_band', amplifiers=members,
                          allowed_for_design=False)]
    tlc.BUILD.mkdir(exist_ok=True)
    with tempfile.TemporaryDirectory(dir=tlc.BUILD) as tmp:
        (Path(tmp) / 'eqpt.json').write_text(json.dumps(eqpt))
        eq = load_equipments_and_configs(Path(tmp) / 'eqpt.json', [], [])
    oper = dict(gain_target=20.0, delta_p=0.0, out_voa=0.0, tilt_target=0.0)
    net = network_from_json({'elements': [
        {'uid': f'three-band amplifier {k + 1}', 'type': 'Multiband_amplifier', 'type_variety': 'std_medium_gain_CLS',
         'amplifiers': [{'type_variety': v, 'operational': dict(oper)} for v in members]} for k in range(n)],
        'connections': []}, eq)
    return sorted(net.nodes(), key=lambda el: el.uid)


def set_operating_point(path, op):
    """op = index in OPERATING_POINTS; 0 leaves the elements as designed"""
    from gnpy.core.elements import Edfa, Multiband_amplifier
    if op == 0:
        return
    for el in path:
        stages = list(el.amplifiers.values()) if isinstance(el, Multiband_amplifier) else [el] if isinstance(el, Edfa) else []
        if len(stages) >= op:
            stages[op - 1].effective_gain = 0.0


class Bench:
    """real elements of the designed multi-band example (variant with a wide single-band line, see
    propagation_util.NETWORKS) and two three-band amplifiers arranged as the seven model paths"""

    def __init__(self):
        from gnpy.core.elements import Fiber, Edfa, Multiband_amplifier
        loaded = pu.network('multiband-wide')
        if loaded is None:
            raise Machinery(f'multiband example (wide-band variant) does not load: {pu.NOT_LOADED}')
        net, self.eq, _, _ = loaded
        by = {n.uid: n for n in net.nodes()}
        multi = by['east edfa in Site_A to Site_B']
        multi2 = by['east edfa in Site_B to Site_C']
        fixed = by['east edfa in Site_D to Site_E']
        low = by['east edfa in Site_F to Site_G']
        fiber = next(n for n in net.nodes() if isinstance(n, Fiber) and type(n) is Fiber)
        assert isinstance(multi, Multiband_amplifier) and isinstance(fixed, Edfa)

        bands = pu.bands_of                 # from the equipment parameters of the (member) amplifiers
        si = self.eq['SI']['default']
        wide = by['east edfa in Site_L to Site_A']
        three1, three2 = three_band_amplifiers()
        assert isinstance(three1, Multiband_amplifier) and len(three1.amplifiers) == 3
        real = dict(multi=bands(multi), test_fixed_gain=bands(fixed), std_low_gain_bis=bands(low),
                    default=[pu.mhz(si.f_min), pu.mhz(si.f_max)], wide_band=bands(wide), multi3=bands(three1))
        if real != MODEL_BANDS or bands(multi2) != MODEL_BANDS['multi'] or bands(three2) != MODEL_BANDS['multi3']:
            raise Machinery(f'band constants of MC_ChannelSet differ from the shipped library: {real}')
        self.paths = {1: [fixed, fiber, low], 2: [multi, fiber, multi2], 3: [multi, fiber, low], 4: [fiber],
                      5: [wide, fiber, multi], 6: [multi, fiber, wide], 7: [three1, fiber, three2]}
        # the largest number of bands an amplifier of the path splits the spectrum into
        self.max_bands = {pid: max([len(bands(el)) for el in p if hasattr(el.params, 'bands')] or [1])
                          for pid, p in self.paths.items()}


def crossing_failure(el, e):
    """signature of an exception raised by a real element on a spectrum the model lets through"""
    return f'B2|{type(el).__name__}-raises-{type(e).__name__}'


def replay_walk(bench, js, chk, through_elements):
    """returns True when the real code followed the model on the whole walk"""
    import gnpy.topology.request as rq
    from gnpy.core.exceptions import SpectrumError
    from gnpy.core.info import demuxed_spectral_information, muxed_spectral_information
    inp, pid, status = js['input'], js['pid'], js['status']
    shape = f'n={len(inp)}'
    ok = True
    sis = {}
    distinct_f = len({c['f'] for c in inp}) == len(inp)
    for how, build in (('create_arbitrary_spectral_information', build_arbitrary),
                       ('carriers_to_spectral_information', build_carriers),
                       ('spectrum-document', build_from_document)):
        if how == 'carriers_to_spectral_information' and not distinct_f:
            continue                # a dict keyed by frequency cannot even express two carriers at one frequency
        try:
            si = build(inp)
            got = ('launched', project(si, 1e-3 if how == 'spectrum-document' else None))
            sis[how] = si
        except SpectrumError:
            got = ('SpectrumError', [])
        except ValueError as e:
            # the document loader has its own overlap test between partitions and rejects with a ValueError
            rejected = how == 'spectrum-document' and 'Not a valid initial spectrum definition' in str(e)
            got = ('SpectrumError' if rejected else 'ValueError', [])
        except Exception as e:                                        # noqa
            got = (f'{type(e).__name__}', [])
        want = ('SpectrumError', []) if status == 'SpectrumError' else ('launched', js['launched'])
        if got != want:
            kind = 'accepted-invalid' if want[0] == 'SpectrumError' else ('rejected-valid' if got[0] != 'launched' else 'wrong-list')
            chk.violation(f'B2|{how}|{kind}|{got[0]}', dict(input=inp, model=want, code=got))
            ok = False
    if status == 'SpectrumError' or not ok or not through_elements:
        return ok
    si = sis['create_arbitrary_spectral_information']
    path = [copy.deepcopy(el) for el in bench.paths[pid]]
    op = (sum(c['label'] for c in inp) + pid) % len(OPERATING_POINTS)
    set_operating_point(path, op)
    at = '' if op == 0 else f'|{OPERATING_POINTS[op]}'
    try:
        si = rq.filter_si(path, bench.eq, si)
        got = ('filtered', project(si))
    except ValueError as e:
        got = ('NoChannel' if 'does not match amplifiers band' in str(e) else f'ValueError: {e}', [])
    except Exception as e:                                            # noqa
        got = (f'{type(e).__name__}: {e}', [])
    want = ('NoChannel', []) if status == 'NoChannel' else ('filtered', js['kept'])
    if got != want:
        what = 'channel-list-wrong' if got[0] == want[0] else f'{got[0].split(":")[0]}-instead-of-{want[0]}'
        chk.violation(f'B2|filter_si|path={pid}|{what}',
                      dict(input=inp, path=pid, model=want, code=got))
        return False
    if status == 'NoChannel':
        return True
    for pos, el in enumerate(path):
        if type(el).__name__ == 'Multiband_amplifier':
            # explicit band split and merge on the spectrum as it stands
            subs = [demuxed_spectral_information(si, {'f_min': a.params.f_min, 'f_max': a.params.f_max})
                    for a in el.amplifiers.values()]
            subs = [s for s in subs if s is not None]
            merged = project(muxed_spectral_information(subs))
            if merged != js['kept']:
                chk.violation(f'B2|demux+mux|path={pid}|channel-list-changed', dict(input=inp, model=js['kept'], code=merged))
                ok = False
        try:
            out = el(si)
        except Exception as e:                                        # noqa
            one = any(sum(1 for c in js['kept'] if c['f'] - c['w'] // 2 >= lo and c['f'] + c['w'] // 2 <= hi) == 1
                      for lo, hi in (pu.bands_of(el) if hasattr(el.params, 'bands') else []))
            chk.violation(crossing_failure(el, e) + ('|one-carrier-in-an-amplifier-band' if one else '|other') + at,
                          dict(input=inp, path=pid, element=el.uid, position=pos + 1, kept=js['kept'],
                               operating_point=OPERATING_POINTS[op],
                               exception=f'{type(e).__name__}: {e}',
                               note='the model lets every kept channel through every element of the path'))
            ok = False
            continue                                                   # the model says: unchanged; go on with the next element
        si = out
        got = project(si)
        if got != js['final']:
            chk.violation(f'B2|{type(el).__name__}|path={pid}|channel-list-changed{at}',
                          dict(input=inp, path=pid, element=el.uid, position=pos + 1, model=js['final'], code=got,
                               operating_point=OPERATING_POINTS[op]))
            return False
    return ok


def run(chk):
    maxlaunch, through = BOUNDS[chk.tier]
    # the stage before Launch: how a spectrum document or a resolved request becomes the carriers handed to the constructor
    # (SpectrumDocument.tla: partition arithmetic, defaults, labels, which stage refuses what)
    from harness import spectrumdoc_util
    spectrumdoc_util.run_part(chk)
    # B1 and the emission for B2 in one exhaustive run: all clauses as invariants, every finished walk printed
    base = '\n'.join(ln for ln in cfg(3, emit=False).splitlines() if not ln.startswith('INVARIANT'))
    witnesses = ('WitnessMultiSplit', 'WitnessDropped', 'WitnessThreeBands')
    with ThreadPoolExecutor(max_workers=3) as pool:                   # the short witness runs overlap the main run
        ws = {w: pool.submit(tlc.run, 'MC_ChannelSet', cfg_text=base + f'\nINVARIANT {w}\n', timeout=600, workers=1,
                             tag='c07-witness') for w in witnesses}
        r2 = tlc.run('MC_ChannelSet', cfg_text=cfg(maxlaunch, emit=True), timeout=3000, tag='c07-mc')
    chk.add_mc(f'MC_ChannelSet MaxLaunch={maxlaunch} (all clauses + emission)', r2)
    for w, fut in ws.items():
        if fut.result().violated != w:
            raise Machinery(f'vacuous model: {w} is not reachable')
    if not any(js['status'] == 'SpectrumError' for js in r2.emitted) or not any(js['status'] == 'NoChannel' for js in r2.emitted):
        raise Machinery('vacuous model: no rejected / no empty launch among the emitted walks')
    chk.exhaustive = True
    bench = Bench()
    seen_inputs = set()
    walks = launches = 0
    statuses = {}
    ops = {}
    # (TLC's workers print the walks in no particular order: replayed in a fixed one)
    for js in sorted(r2.emitted, key=lambda js: ([c['label'] for c in js['input']], js['pid'])):
        key_in = tuple(c['label'] for c in js['input'])
        # through the real elements: every list (every order) up to `through` channels, and - one order per set, the order
        # being gone once the spectrum is launched - lists long enough to put a channel in every band of the path's
        # widest amplifier at once
        deep = len(js['input']) <= through or (len(js['input']) <= bench.max_bands[js['pid']] and list(key_in) == sorted(key_in))
        if not deep:
            if key_in in seen_inputs:
                continue                       # longer lists: construction only, once per list
        seen_inputs.add(key_in)
        good = replay_walk(bench, js, chk, through_elements=deep)
        statuses[js['status']] = statuses.get(js['status'], 0) + 1
        walks += 1 if deep else 0
        launches += 1
        if deep and js['status'] == 'filtered':
            op = OPERATING_POINTS[(sum(key_in) + js['pid']) % len(OPERATING_POINTS)]
            ops[op] = ops.get(op, 0) + 1
        chk.case((key_in, js['pid'] if deep else 0), nontrivial=js['status'] != 'SpectrumError' or len(js['input']) > 1)
        if good:
            chk.traces += 1
        if deep and js['status'] == 'filtered' and js['pid'] == 3 and 0 < len(js['kept']) < len(js['input']):
            chk.sample(dict(kind='B2 walk replayed on real amplifiers of the multi-band library', launch=js['input'],
                            path='Multiband_amplifier, Fiber, Edfa(std_low_gain_bis)', kept=js['kept']), limit=1)
    chk.cov['b2_walks_through_real_elements'] = walks
    chk.cov['b2_constructions'] = launches
    chk.cov['b2_model_outcomes'] = statuses
    chk.cov['b2_walks_per_operating_point'] = ops
    if len(ops) < len(OPERATING_POINTS):
        raise Machinery(f'operating points not all exercised: {ops}')
    traces = run_b3(chk, pu.C07_CLAUSES, 'C07')
    chk.cov['b3_rejected_requests'] = sum(1 for t in traces if t['outcome'] == 1)
    chk.cov['b3_permuted_pairs'] = sum(1 for t in traces if t['ref']['f'])
    chk.assume('frequencies, slot widths and baud rates are whole MHz and slot widths an even number of MHz (band-edge '
               'comparisons are then exact in float64); labels stand for (label, tx_power, tx_osnr, roll_off, delta_pdb)')
    chk.assume('a spectrum with no channel inside the common amplifier band is refused (ValueError) - not judged further; '
               'uniform-grid requests are judged from the carrier list the constructor is handed')
    chk.assume('"the band common to all amplifiers": a channel is kept iff some band of EVERY amplifier of the path holds '
               'its whole slot; with no amplifier on the path the SI default band is used')
    chk.assume('trusted base: harness.record.Recording wrappers, the integer projections in harness.propagation_util, TLC')


# ------------------------------------------------------------------------------------------------------ mutants
def _mut_band_edges_exclusive():
    import gnpy.core.info as info

    def is_in_band(frequency, slot_width, band):          # a slot touching the band edge is thrown out
        return (frequency - slot_width / 2 > band['f_min']) * (frequency + slot_width / 2 < band['f_max']) == 1
    info.is_in_band = is_in_band


def _rewrite(cls, name, old, new):
    """re-compile a method of the anchored code with one expression replaced (in-process only)"""
    import inspect
    import sys
    import textwrap
    src = textwrap.dedent(inspect.getsource(getattr(cls, name)))
    if old not in src:
        raise Machinery(f'mutant: text to replace not found in {cls.__name__}.{name}')
    ns = {}
    exec(compile(src.replace(old, new), f'<mutant {cls.__name__}.{name}>', 'exec'), sys.modules[cls.__module__].__dict__, ns)
    setattr(cls, name, ns[name])


def _mut_overlap_uses_left_width():
    import gnpy.core.info as info
    # overlap test takes the left neighbour's width on both sides: wrong as soon as slot widths differ
    _rewrite(info.SpectralInformation, '__init__', 'self._frequency[1:] - self._slot_width[1:] / 2',
             'self._frequency[1:] - self._slot_width[:-1] / 2')


def _mut_label_not_sorted():
    import gnpy.core.info as info
    orig = info.SpectralInformation.__init__

    def init(self, *a, **k):                               # one attribute array keeps the caller's order
        orig(self, *a, **k)
        self._label = k['label']
    info.SpectralInformation.__init__ = init


def _mut_multiband_forgets_a_band():
    import gnpy.core.elements as el
    from gnpy.core.info import demuxed_spectral_information

    def call(self, spectral_info):                         # only the first band that carries channels comes back
        for _, amp in self.amplifiers.items():
            si = demuxed_spectral_information(spectral_info, amp.params.bands[0])
            if si:
                return amp(si)
        raise ValueError('Defined propagation band does not match amplifiers band.')
    el.Multiband_amplifier.__call__ = call


def _mut_baud_check_tolerant():
    import gnpy.core.info as info
    from gnpy.core.exceptions import SpectrumError
    orig = info.SpectralInformation.__init__

    def init(self, *a, **k):                               # baud rate slightly wider than the slot is let through
        try:
            orig(self, *a, **k)
        except SpectrumError as e:
            if 'baud rate' not in str(e) or np.any(k['baud_rate'] > 1.01 * k['slot_width']):
                raise
            orig(self, *a, **dict(k, baud_rate=np.minimum(k['baud_rate'], k['slot_width'])))
            self._baud_rate = k['baud_rate'][np.argsort(k['frequency'])]
    info.SpectralInformation.__init__ = init


def _mut_common_range_first_amp_only():
    import gnpy.topology.request as rq
    from gnpy.core.elements import Edfa, Multiband_amplifier
    from gnpy.core.utils import find_common_range

    def find_elements_common_range(el_list, equipment):    # the path is filtered on its first amplifier only
        amp_bands = [n.params.bands for n in el_list if isinstance(n, (Edfa, Multiband_amplifier))][:1]
        return find_common_range(amp_bands, equipment['SI']['default'].f_min, equipment['SI']['default'].f_max,
                                 equipment['SI']['default'].spacing)
    rq.find_elements_common_range = find_elements_common_range


def _spectrumdoc_mutant(name):
    def f():
        from harness import spectrumdoc_util
        spectrumdoc_util.MUTANTS[name]()
    return f


MUTANTS = {'spectrumdoc_count_without_plus_one': _spectrumdoc_mutant('count_without_plus_one'),
           'spectrumdoc_comb_starts_at_fmin': _spectrumdoc_mutant('comb_starts_at_fmin'),
           'band_edges_exclusive': _mut_band_edges_exclusive, 'overlap_uses_left_width': _mut_overlap_uses_left_width,
           'label_not_sorted': _mut_label_not_sorted, 'multiband_forgets_a_band': _mut_multiband_forgets_a_band,
           'baud_check_tolerant': _mut_baud_check_tolerant,
           'common_range_first_amp_only': _mut_common_range_first_amp_only}
