"""C09 - designed gains close the power budget and follow the documented power rule.

B1  TLC explores MC_DesignPower: every (configuration, OMS profile) pair is one initial state, a behaviour designs the
    OMS amplifier by amplifier (targets -> reduction -> VOA); the clauses Closure, RefChannelAtTarget, PowerRule,
    ZeroBeforeRoadm, ReductionOnlyAsNeeded, OperatorOffsetKept, OperatorGainKept, VoaKept, NeverAboveMaxOutput are
    invariants, including profiles with rounding ties, an automatic VOA and a binding extended maximum gain.
B2  every complete design of the replayable profiles is emitted by TLC with the expected (gain, dp, voa) of every
    amplifier; each is concretised (equipment JSON with a fixed-gain library + two-ROADM line: fibres, fused, connectors,
    EOL, padding, operator settings) and designed by the real designed_network in the configuration's mode; the
    designed settings must equal the expectation.  The same designs, with the design load propagated through the real
    elements, are judged a second time by Trace_DesignPower (clause names, DesignLoadReproduces).
    The grid includes a delta_power_range whose bounds are not multiples of its step ([-1.3, 2.2, 0.5]: round, THEN
    clamp) and profiles designed with out_voa_auto models (an amplifier that optimises its own output VOA followed by
    further amplifiers): there the model's admissible designs differ only by the VOA, so gain - voa and dp - voa are
    compared and Closure on the next amplifier is TLC's.
    The designed line lives on (DesignPower.tla: Use, DesignAgain): a share of the replayed lines is then USED AGAIN - a
    what-if load 3 dB above the design load, then the design load, are propagated through the same elements; the settings
    the network exports afterwards and the powers of this later propagation must still be the model's design (stage
    "used") - and DESIGNED AGAIN for the same reference channel, before or after such use (stages "redesigned",
    "used-then-redesigned"; operator settings from the configuration as loaded): the second design must be the model's too.
B3  (primary) every OMS of every shipped network is designed in power mode and in gain mode under run-time recorders
    and judged by Trace_DesignPower on integer projections: Closure, the rule, the reduction, kept operator settings,
    p_max and the reproduction law at every amplifier and egress ROADM.  Three networks are also designed with placeholder
    amplifiers and the library option out_voa_auto switched on for every model.  Some networks are used again (name~used)
    and designed a second time (name~redesigned, also with automatic output VOAs in place) and judged by the same clauses.
    The power sweep of transmission_simulation (Transmission.tla / harness.sweep), which designs the path's amplifiers
    again at every step, also runs on a line whose amplifier models optimise their output VOA.
"""
import inspect
import json
import math
import zlib

from harness import tlc
from harness.core import Machinery
from harness import designpower_util as U
from harness.gnpy_util import NONE

BOUNDS = {
    # tier -> list of MC runs (MaxSpans, LossSet, MultiUser, Rich, replay stride for profiles with >1 span)
    'quick': [dict(max_spans=2, losses='MCLossesQuick', multi=False, rich=True, stride1=6, stride2=30, propagate_every=3)],
    'thorough': [dict(max_spans=3, losses='MCLossesQuick', multi=False, rich=True, stride1=1, stride2=8, propagate_every=3),
                 dict(max_spans=2, losses='MCLossesFull', multi=False, rich=False, stride1=1, stride2=3, propagate_every=3),
                 dict(max_spans=1, losses='MCLossesFull', multi=True, rich=False, stride1=3, stride2=1, propagate_every=3)],
}
TOL = 3            # micro-dB, B2 equality of a designed setting with TLC's expectation
CLAUSES = ['Closure', 'RefChannelAtTarget', 'PowerRule', 'ZeroBeforeRoadm', 'ReductionOnlyAsNeeded',
           'OperatorOffsetKept', 'OperatorGainKept', 'VoaKept', 'NeverAboveMaxOutput']


def mc_cfg(b):
    inv = '\n'.join(f'INVARIANT {c}' for c in ['TypeOK'] + CLAUSES + ['DesignedAgainIsTheSame', 'NoTieOnGrid', 'Emit'])
    inv += '\nPROPERTY UseKeepsTheDesign'
    return (f'CONSTANTS\n  Configs <- MCConfigs\n  Profiles <- MCProfiles\n  VoaGrid <- MCVoaGrid\n  Followed <- MCFollowed\n'
            f'  LossSet <- {b["losses"]}\n  MaxSpans = {b["max_spans"]}\n  MultiUser = {"TRUE" if b["multi"] else "FALSE"}\n'
            f'  Rich = {"TRUE" if b["rich"] else "FALSE"}\n  EmitStride1 = {b["stride1"]}\n  EmitStride2 = {b["stride2"]}\nINIT Init\nNEXT Next\n{inv}\n')


# ------------------------------------------------------------------------------------------------ B2 concretiser
FG = [dict(type_variety='fg_user', type_def='fixed_gain', gain_flatmax=40, gain_min=0, p_max=12, nf0=5,
           out_voa_auto=False, allowed_for_design=False),
      dict(type_variety='fg_auto', type_def='fixed_gain', gain_flatmax=40, gain_min=0, p_max=12, nf0=5.5,
           out_voa_auto=False, allowed_for_design=True)]
SI = dict(f_min=193.0e12, f_max=193.5e12, spacing=50e9, baud_rate=32e9, power_dbm=0, tx_power_dbm=0,
          use_si_channel_count_for_design=True)        # 10 channels at 0 dBm: total design power 10 dBm


def db(x):
    return x / 1e6


FG2 = dict(type_variety='fg_auto2', type_def='fixed_gain', gain_flatmax=40, gain_min=0, p_max=12.2, nf0=6,
           out_voa_auto=False, allowed_for_design=True)      # noisier, 0.2 dB more power than fg_auto


def via_args_power(oms):
    """the reference power of the profile reaches the design through designed_network(args_power=...) (the --power
    option) instead of SI power_dbm: lines that start at a transceiver transmitting -2 dBm, reference power -1 dBm"""
    return oms['ing'] == 1 and oms['dpref'] != 0 and oms['tx'] != 0


DESIGN_BAND_13 = [{'f_min': 193.0e12, 'f_max': 193.5e12, 'spacing': 37.5e9}]     # 13 channels (SI grid: 10)


def equipment_for(cfg, oms):
    lib = list(FG)
    if oms['rich'] == 5:
        lib.append(FG2)                   # two models eligible for auto-selection, p_max within 0.3 dB of each other
    if oms['rich'] == 1:
        lib = [dict(m, out_voa_auto=True) for m in lib]
    si = dict(SI, power_dbm=0 if via_args_power(oms) else db(oms['dpref']),
              tx_power_dbm=db(oms['tx']) if oms['ing'] == 1 else 0)
    if oms['rich'] == 7:
        si['use_si_channel_count_for_design'] = False          # the channel count is that of the design band's own grid
    return U.synthetic_equipment(lib, span=dict(power_mode=cfg['mode'] == 1,
                                               delta_power_range_db=[db(cfg['lo']), db(cfg['hi']), db(cfg['step'])],
                                               power_slope=cfg['slope'] / 1000, span_loss_ref=db(cfg['ref']),
                                               padding=10, EOL=0.5, con_in=0.25, con_out=0.25,
                                               target_extended_gain=3, max_length=150, length_units='km'), si=si)


def spans_for(oms):
    """raw span loss R (dB) -> real line elements.  Odd spans: one fibre; even spans: fibre + 0.5 dB Fused + fibre (EOL
    only on the last fibre); a span below the padding of a profile with the -17.5 dBm ROADM target carries an
    operator att_in of 1.5 dB; the lumped part of the raw loss is a lumped_losses entry at the middle of the (last)
    fibre.  Default connectors 2 x 0.25 dB per fibre, EOL 0.5 dB."""
    spans, att = [], False
    behind = oms['amps'] if oms['ing'] == 1 else oms['amps'][1:]        # amplifiers that have a span in front of them
    for k, a in enumerate(behind, start=1):
        r = db(a['raw'])
        att_in = 1.5 if (r < 10 and oms['t0'] != -20000000) else 0
        att = att or att_in > 0
        lump = db(a.get('lump', 0))          # part of the raw loss that sits inside the fibre as a lumped loss

        def lumped(km):
            return [{'position': round(km / 2, 3), 'loss': lump}] if lump > 0 else None
        if k % 2 == 1:
            km = (r - 1.0 - att_in - lump) / 0.2
            spans.append([dict(kind='fiber', length_km=km, att_in=att_in, lumped_losses=lumped(km))])
        else:
            tot = (r - 2.0 - att_in - lump) / 0.2
            # the 0.5 dB between the two fibres is one Fused element, or two chained ones of 0.25 dB
            fused = [dict(kind='fused', loss=0.5)] if oms['t0'] == -20000000 else \
                [dict(kind='fused', loss=0.25), dict(kind='fused', loss=0.25)]
            spans.append([dict(kind='fiber', length_km=0.4 * tot, att_in=att_in)] + fused +
                         [dict(kind='fiber', length_km=0.6 * tot, lumped_losses=lumped(0.6 * tot))])
    return spans, att


def amps_for(oms):
    amps = {}
    for k, a in enumerate(oms['amps'], start=oms['ing']):          # a line starting at a transceiver has no amplifier 0
        def opt(v):
            return None if v == NONE else db(v)
        if a['kind'] == 0:
            if k % 2 == 1:
                amps[k] = {}                                   # bare Edfa element, everything left to auto-design
            continue                                           # even positions: no element at all (auto-inserted)
        cfg = {'operational': {'gain_target': opt(a['uGain']), 'delta_p': opt(a['uDp']), 'out_voa': opt(a['uVoa']),
                               'in_voa': db(a['inVoa']), 'tilt_target': 0}}
        if a['uVar']:
            cfg['type_variety'] = 'fg_user'
        amps[k] = cfg
    return amps




def pos_of(oms, k):
    if k == len(oms['amps']) - 1 and (k > 0 or oms.get('ing') == 1):
        return 'preamp'
    return 'booster' if k == 0 and oms.get('ing') != 1 else 'inline'


REUSE_DB = 3.0       # the what-if load of the "used again" scenario is this much above the design load


def compare(t, exp, oms, cfg, name, att, amps_ctx, dev):
    """the designed settings of trace `t` against TLC's expectation `exp`: None when equal, else a dict describing the
    first amplifier that differs (reported by `report_b2` together with the clause names TLC finds for the same design)"""
    auto = oms['rich'] == 1                 # library models with out_voa_auto: the design may add v to gain, dp and voa
    for k, (e, x) in enumerate(zip(t['ev'], exp)):
        a = oms['amps'][k]
        if abs(e['L'] - a['L']) > TOL or (a['nxt'] == 1 and abs(e['Ln'] - a['Ln']) > TOL):
            # the line as built does not have the span loss the profile asked for (padding is part of the property)
            return dict(name=name, cfg=cfg, oms=oms, att=att, k=k, fields=['span-loss'], amps=amps_ctx,
                        profile=dict(L=a['L'], Ln=a['Ln']), line=dict(L=e['L'], Ln=e['Ln']))
        bad = []
        if auto and a['uVoa'] == NONE:
            # the size of the automatic VOA is not decided by the property: compare what every admissible design of
            # the model has in common, the gain and the offset net of the VOA (and the VOA must not be negative)
            pairs = [('gain-voa', e['gain'] - e['voa'], x['gain'] - x['voa']),
                     ('dp-voa', e['dp'] - e['voa'], x['dp'] - x['voa']), ('voa>=0', min(e['voa'], 0), 0)]
        else:
            pairs = [(f, e[f], x[f]) for f in ('gain', 'dp', 'voa')]
        for f, got, want in pairs:
            d = abs(got - want)
            if d > TOL:
                bad.append(f)
            else:
                dev[0] = max(dev[0], d)
        if bad:
            return dict(name=name, cfg=cfg, oms=oms, att=att, k=k, fields=bad, expected=x,
                        designed={g: e[g] for g in ('gain', 'dp', 'voa')}, amps=amps_ctx)
    return None


def replay(behaviours, chk, traces, ctxs, dev, propagate, reuse=False, again=True, life=None):
    """design the concretised OMS with the real code and compare with TLC's expectation.  Returns None when the
    design equals the expectation, else a dict describing the first amplifier that differs (reported by `report_b2`
    together with the clause names TLC finds for the same design).

    The designed line is a state that lives on, so the SAME network objects are then taken through what the tools do
    with a designed network, and the model's design must still be what is observed (stage = suffix of the trace name):
      ~used        (reuse) a what-if load REUSE_DB above the design load, then the design load again, are propagated
                   through the line; the settings the network exports after that and the powers of this later
                   propagation of the design load are judged;
      ~redesigned  (again) the line is designed a second time for the same reference channel (as every step of a power
                   sweep and the planner's redesign do); the operator settings are those of the configuration as loaded.
    The first stage that differs is returned (a later stage inherits an earlier one's deviation)."""
    js = behaviours[0]
    cfg, oms, exp = js['cfg'], js['oms'], js['out']
    eq = equipment_for(cfg, oms)
    spans, att = spans_for(oms)
    ra = {'params': {'target_pch_out_db': db(oms['dpref'] + oms['t0'])}}
    amps = amps_for(oms)
    if oms['rich'] == 7:
        # the operator declares the design band of this degree, on its own 37.5 GHz grid (the degree is named after its
        # first element, so the booster is an explicit element here)
        amps.setdefault(0, {})
        ra['params']['per_degree_design_bands'] = {'amp 0': DESIGN_BAND_13}
    topo = U.line_topology(spans, roadm_a=ra,
                           amps=amps, ingress='trx' if oms['ing'] == 1 else 'roadm')
    key = json.dumps([cfg, oms], sort_keys=True)
    name = 'B2#' + format(zlib.crc32(key.encode()), '08x')
    only = ('trx A' if oms['ing'] == 1 else 'roadm A', 'roadm B')
    try:
        net, ref, rec = U.design_json(topo, eq, args_power=db(oms['dpref']) if via_args_power(oms) else None)
    except Exception as e:                                               # noqa  an exception on a valid OMS
        return dict(name=name, cfg=cfg, oms=oms, att=att, k=0, fields=[f'EXC-{type(e).__name__}'], exception=str(e))
    tr, cx = U.oms_traces(net, eq, ref, rec, name, cfg['mode'] == 1, only=only, propagate=propagate,
                          reuse_db=REUSE_DB if reuse and propagate else None)
    if len(tr) < 1 or len(tr[0]['ev']) != len(exp):
        raise Machinery(f'synthetic line designed {len(tr[0]["ev"]) if tr else "no"} amplifiers, expected {len(exp)}')
    t = tr[0]
    # the model's design for the amplifier models actually in place (their p_max is read from the designed amplifiers)
    match = [b for b in behaviours if all(abs(o['pmax'] - e['pmax']) <= TOL for o, e in zip(b['out'], t['ev']))]
    if not match:
        raise Machinery(f'{name}: no model design for the p_max in place {[e["pmax"] for e in t["ev"]]}')
    exp = match[0]['out']
    stages = [('', t, cx[0])] + [(U.USED, u, c) for u, c in zip(tr[1:], cx[1:])]
    if again:
        stage = (U.USED if propagate else '') + '~redesigned'          # designed again after having been propagated, or not
        try:
            rec2 = U.redesign(net, eq, ref, rec)
        except Exception as e:                                           # noqa  an exception on a valid OMS
            return dict(name=name + stage, cfg=cfg, oms=oms, att=att, k=0, fields=[f'EXC-{type(e).__name__}'],
                        exception=str(e), stage=stage)
        # the design load is propagated through the second design where an automatic output VOA may be in place
        tr2, cx2 = U.oms_traces(net, eq, ref, rec2, name, cfg['mode'] == 1, only=only,
                                propagate=propagate and oms['rich'] == 1)
        if len(tr2) != 1 or len(tr2[0]['ev']) != len(exp):
            raise Machinery(f'{name}: the second design of the line shows {len(tr2[0]["ev"]) if tr2 else "no"} amplifiers')
        stages.append((stage, tr2[0], cx2[0]))
    first = None
    for stage, t, c in stages:
        t['b2'] = 1
        t['name'] = name + stage
        traces.append(t)
        ctxs[t['name']] = dict(c, cfg=cfg, oms=oms, expected=exp, att=att, stage=stage)
        m = compare(t, exp, oms, cfg, t['name'], att, c['amps'], dev)
        if m is not None and first is None:
            first = dict(m, stage=stage)
    if life is not None:
        v1 = [e['voa'] > 0 and e['uVoa'] == NONE for e in stages[0][1]['ev']]
        pm = [abs(stages[0][1]['prefTot'] + e['dp'] - e['pmax']) <= TOL for e in stages[0][1]['ev']]
        life['designed_again'] += again
        life['designed_again_with_automatic_voa_in_place'] += again and any(v1)
        life['used_again'] += len(tr) > 1
        life['used_again_with_an_amplifier_at_its_maximum'] += len(tr) > 1 and any(pm)
        life['designed_again_after_use'] += again and propagate
        life['designed_again_in_gain_mode'] += again and cfg['mode'] == 0
    return first


def report_b2(mism, verdicts, chk):
    """one violation per replayed design that differs from the model, signed by its root: mode, operator-setting kind
    and position of the first amplifier that differs, the fields that differ and the clauses TLC names there.  A
    profile whose padded span carries an operator att_in is signed as such (the root is upstream of the amplifier)."""
    for m in mism:
        k, oms, cfg = m['k'], m['oms'], m['cfg']
        v = verdicts.get(m['name'], [])
        clauses = sorted({c for step, c in v if step == k + 1}) or sorted({c for _, c in v})
        mode = 'power' if cfg['mode'] == 1 else 'gain'
        if m.get('stage'):
            # the first design equals the model; the line differs from it after it has been used / designed again: the
            # class of failing input is the mode and the stage of the line's life
            chk.violation(f'B2|{mode}|{m["stage"].strip("~").replace("~", "-then-")}' +
                          (f'|{m["fields"][0]}' if m['fields'][0].startswith('EXC-') else ''),
                          dict(m, position=pos_of(oms, k), clauses_named_by_TLC=clauses))
            continue
        if m['att'] and oms['amps'][k]['kind'] != 9:
            sig = f'B2|{mode}|operator-att_in-on-padded-span'
        else:       # kind 9 (saturating operator gain behind an input VOA) keeps its own signature on att profiles too
            sig = f'B2|{mode}|kind={oms["amps"][k]["kind"]}|{"+".join(clauses) or "+".join(m["fields"])}'
        chk.violation(sig, dict(m, position=pos_of(oms, k), clauses_named_by_TLC=clauses))


# ---------------------------------------------------------------------------------------------- trace judging
def tlc_verdicts(traces, chk, tag):
    """one TLC (Trace_DesignPower) pass over the traces, in batches: {trace name: verdict}"""
    verdicts = {}
    for lo in range(0, len(traces), 4000):
        batch = traces[lo:lo + 4000]
        res = tlc.run('Trace_DesignPower', extra_files={'trace.ndjson': U.ndjson(batch)},
                      env={'TRACE_FILE': 'trace.ndjson'}, workers=1, timeout=1800, tag=f'c09-{tag}')
        if not res.ok:
            raise Machinery(f'trace validation run failed: {res.error or res.violated}\n{res.out[-2000:]}')
        chk.states += res.distinct
        chk.transitions += res.generated
        verdicts.update({v['name']: v for v in res.emitted})
    return verdicts


def judge(traces, ctxs, chk, tag, verdict_map=None, pre=None):
    """second pass: TLC (Trace_DesignPower) judges every recorded OMS; returns number of clean traces.
    B3 traces: every failing clause is a violation.  B2 traces: the verdicts are returned in verdict_map and reported
    by report_b2 together with the comparison against the model's expectation."""
    if not traces:
        return 0
    ok = 0
    verdicts = pre if pre is not None else tlc_verdicts(traces, chk, tag)      # pre: verdicts of a shared TLC pass
    if True:
        for t in traces:
            v = verdicts.get(t['name'])
            if v is None or v['n'] != len(t['ev']):
                raise Machinery(f'no complete verdict for trace {t["name"]}')
            if not v['viol']:
                ok += 1
                continue
            if verdict_map is not None:
                verdict_map[t['name']] = [tuple(x) for x in v['viol']]
                continue
            for step, clause in v['viol'][:4]:
                e = t['ev'][step - 1] if step >= 1 else {}
                c = ctxs.get(t['name'], {})
                user = ''.join(s for s, f in (('G', 'uGain'), ('P', 'uDp'), ('V', 'uVoa')) if e.get(f, NONE) != NONE)
                sig = (f'B3|{t["name"].split("|")[0]}|{"power" if t["mode"] else "gain"}|{clause}|'
                       f'user={user or "-"}|uvar={e.get("uVar")}|nxt={e.get("nxt")}')
                chk.violation(sig, dict(trace=t['name'], step=step, clause=clause, event=e,
                                        config={k: t[k] for k in ('mode', 'slope', 'ref', 'lo', 'hi', 'step',
                                                                  'prefTot', 'pref', 't0')},
                                        amplifier=(c.get('amps') or [{}])[step - 1] if step >= 1 else None,
                                        roadm=t['rd'] if 'Roadm' in clause else None))
    return ok


def measured_deviations(traces):
    """worst residuals on the recorded designs, in micro-dB, for the evidence (the verdicts are TLC's): Closure residual
    over judged amplifiers; overshoot of the propagated signal above the target and of the target above the
    propagated total power"""
    clo = over = under = 0
    for t in traces:
        prev = t['t0']
        for e in t['ev']:
            if e['jc']:
                r = abs(e['gain'] - (e['L'] + e['dev'] + e['inVoa'] + e['dp'] - prev))
                clo = max(clo, r if r < 1000 else 0)             # genuine violations are not "noise"
            if e['tot'] != NONE:
                tgt = t['pref'] + e['dp'] - e['voa']
                o, u = e['sig'] - tgt, tgt - e['tot']
                over = max(over, o if o < 1000 else 0)
                under = max(under, u if u < 1000 else 0)
            prev = e['dp'] - e['voa']
    return dict(closure_residual=clo, signal_above_target=over, target_above_total=under)


def corrupted_traces(traces):
    """binding of the trace specification itself: corrupted copies of conforming traces must be rejected with the
    right clause (guards against a monitor that accepts everything)"""
    base = next((t for t in traces if len(t['ev']) >= 2 and all(e['jc'] and e['tot'] != NONE for e in t['ev'])), None)
    if base is None:
        return []
    import copy
    muts = []
    m = copy.deepcopy(base); m['name'] = 'corrupt-gain'; m['ev'][1]['gain'] += 100000; muts.append((m, 'Closure'))
    m = copy.deepcopy(base); m['name'] = 'corrupt-pmax'; m['ev'][0]['pmax'] = m['prefTot'] + m['ev'][0]['dp'] - 50000
    muts.append((m, 'NeverAboveMaxOutput'))
    m = copy.deepcopy(base); m['name'] = 'corrupt-power'; m['ev'][1]['sig'] += 200000; m['ev'][1]['tot'] += 200000
    muts.append((m, 'DesignLoadReproduces'))
    return muts


def check_corrupted(muts, verdicts, chk):
    got = {n: {c for _, c in v['viol']} for n, v in verdicts.items()}
    for m, clause in muts:
        if clause not in got.get(m['name'], set()):
            raise Machinery(f'Trace_DesignPower accepted a corrupted trace ({m["name"]}: expected {clause}, got {got.get(m["name"])})')
    chk.cov['monitor_selfcheck'] = sorted(f'{m["name"]}->{c}' for m, c in muts)


# ------------------------------------------------------------------------------------------------------- B3
def multiband_line():
    """auto-designed C+L line on the tests' multiband library (the shipped multiband network only has operator-chosen
    multiband amplifiers): Multiband_amplifier placeholders, design bands declared on the ingress ROADM"""
    bands = [{'f_min': 191.3e12, 'f_max': 196.0e12, 'spacing': 50e9}, {'f_min': 187.0e12, 'f_max': 190.0e12, 'spacing': 50e9}]
    spans = [[dict(kind='fiber', length_km=L)] for L in (70, 105, 50)]
    amps = {k: {'amplifiers': []} for k in range(4)}
    return U.line_topology(spans, roadm_a={'params': {'design_bands': bands}}, amps=amps, amp_type='Multiband_amplifier')


# networks of the corpus whose designed elements are used again after the first propagation of the design load (amplifiers
# designed at their maximum output: multiband, td_twohops, td_bugfixiterator) / that are
# designed a second time (with and without automatic output VOAs, placeholders and operator-set amplifiers)
USED_AGAIN = {'meshV2', 'edfa_example', 'multiband', 'td_twohops', 'td_bugfixiterator'}
DESIGNED_AGAIN = {'meshV2-autovoa', 'td_testTopology-autovoa', 'CORONET_CONUS-autovoa', 'edfa_example', 'td_twohops',
                  'fused_roadm', 'td_perdegree_auto'}


def collect_b3(chk):
    from harness.gnpy_util import TD
    traces, ctxs, stats = [], {}, {}
    n_amp = 0
    skipped = []
    # every shipped network as shipped; some also with the documented library option out_voa_auto switched on for every
    # model and the amplifiers turned into placeholders (no shipped library uses the option)
    corpus = [(n, t, e, x, tier, False, None, None) for n, t, e, x, tier in U.SHIPPED]
    # lumped losses (splices, taps) inside every second fibre: no shipped topology has any
    corpus += [(n + '-lumped', t, e, x, tier, 'lumped', None, None) for n, t, e, x, tier in U.SHIPPED
               if n in ('meshV2', 'td_long', 'CORONET_CONUS')]
    corpus += [(n + '-autovoa', t, e, x, tier, True, {'out_voa_auto': True}, None) for n, t, e, x, tier in U.SHIPPED
               if n in ('meshV2', 'td_testTopology', 'CORONET_CONUS')]
    # lines that start at a transceiver, designed for a reference power that differs from the transmit power
    corpus += [(n + '-ref+1dBm-tx0dBm', t, e, x, tier, False, None, {'power_dbm': 1, 'tx_power_dbm': 0})
               for n, t, e, x, tier in U.SHIPPED if n in ('edfa_example', 'td_test_network', 'raman_edfa_example')]
    # ROADM design bands on their own 37.5 GHz grid while the SI grid is 50 GHz (channel count from the design band)
    corpus += [(n + '-designband-37.5GHz', t, e, x, tier, 'bands', None, {'use_si_channel_count_for_design': False})
               for n, t, e, x, tier in U.SHIPPED if n in ('meshV2', 'td_long')]
    # reference power given through designed_network(args_power) on lines that start at a transceiver
    corpus += [(n + '-args_power+2dBm', t, e, x, tier, 'args', None, {'tx_power_dbm': -1})
               for n, t, e, x, tier in U.SHIPPED if n in ('edfa_example', 'td_test_network')]
    for name, topo, eqf, extra, tier, strip, attrs, si in corpus:
        if tier == 'thorough' and chk.tier == 'quick':
            continue
        for mode in (True, False):
            if strip and not mode and chk.tier == 'quick' and strip != 'args':
                continue                        # generalised variants in gain mode: thorough tier only
            try:
                bands = None
                if strip == 'bands':
                    si0 = U.load_equipment(eqf, extra)['SI']['default']
                    bands = [{'f_min': si0.f_min, 'f_max': si0.f_max, 'spacing': 37.5e9}]
                net, eq, ref, rec = U.design(topo, eqf, extra, power_mode=mode, strip=strip is True, lumped=strip == 'lumped',
                                             edfa_attrs=attrs, si=si, roadm_bands=bands,
                                             args_power=2.0 if strip == 'args' else None)
            except U.LoadError as e:
                chk.cov.setdefault('b3_not_loadable', []).append(f'{name}: {str(e)[:80]}')
                continue
            except Exception as e:                                           # noqa
                chk.violation(f'B3|{name}|design-exception|{type(e).__name__}',
                              dict(network=name, power_mode=mode, exception=f'{type(e).__name__}: {e}'))
                continue
            if not U.step_in_domain(eq['Span']['default'].delta_power_range_db[2]):
                skipped.append(name)
                continue
            # the designed network lives on: on some networks every OMS is crossed again by a heavier what-if load and
            # then by the design load, and observed a second time (trace name~used: the settings the network exports
            # after that use, the powers of the later propagation of the design load) ...
            tr, cx = U.oms_traces(net, eq, ref, rec, name, mode, stats=stats, reuse_db=REUSE_DB if name in USED_AGAIN else None)
            if name in DESIGNED_AGAIN and mode:
                # ... and some are designed a second time for the same reference channel (name~redesigned), the operator
                # settings being the ones of the files as loaded (power mode; gain mode: B2)
                try:
                    rec2 = U.redesign(net, eq, ref, rec)
                except Exception as e:                                       # noqa
                    chk.violation(f'B3|{name}~redesigned|design-exception|{type(e).__name__}',
                                  dict(network=name, power_mode=mode, exception=f'{type(e).__name__}: {e}'))
                else:
                    tr2, cx2 = U.oms_traces(net, eq, ref, rec2, name + '~redesigned', mode, stats=stats)
                    tr, cx = tr + tr2, cx + cx2
            traces += tr
            ctxs.update({c['name']: c for c in cx})
            n_amp += sum(len(t['ev']) for t in tr)
    for mode in (True, False):
        eq = U.load_equipment(TD / 'eqpt_config_multiband.json', power_mode=mode)
        try:
            net, ref, rec = U.design_json(multiband_line(), eq)
            tr, cx = U.oms_traces(net, eq, ref, rec, 'synthetic_multiband_line', mode, stats=stats)
            traces += tr
            ctxs.update({c['name']: c for c in cx})
            n_amp += sum(len(t['ev']) for t in tr)
        except Exception as e:                                               # noqa
            chk.violation(f'B3|synthetic_multiband_line|design-exception|{type(e).__name__}',
                          dict(power_mode=mode, exception=f'{type(e).__name__}: {e}'))
    return traces, ctxs, n_amp, stats


def finish_b3(chk, traces, ctxs, n_amp, stats, pre=None):
    ok = judge(traces, ctxs, chk, 'b3', pre=pre)
    chk.traces += ok
    chk.cov['b3_oms_traces'] = len(traces)
    chk.cov['b3_amplifiers'] = n_amp
    chk.cov['b3_amplifiers_propagated'] = sum(1 for t in traces for e in t['ev'] if e['tot'] != NONE)
    chk.cov['b3_roadm_outputs_judged'] = sum(t['rd']['judged'] for t in traces)
    chk.cov['b3_oms_observed_again_after_use'] = sum(1 for t in traces if U.USED in t['name'])
    chk.cov['b3_oms_designed_a_second_time'] = sum(1 for t in traces if '~redesigned' in t['name'])
    chk.cov['b3_amplifiers_with_automatic_voa_designed_again'] = sum(
        1 for t in traces if '~redesigned' in t['name'] for e in t['ev'] if e['uVoa'] == NONE and e['voa'] > 0)
    chk.cov['b3_amplifiers_with_automatic_voa'] = sum(1 for t in traces for e in t['ev'] if e['uVoa'] == NONE and e['voa'] > 0)
    chk.cov['b3_stats'] = {k: (v[:5] if isinstance(v, list) else v) for k, v in stats.items()}
    chk.cov['b3_user_settings'] = {f: sum(1 for t in traces for e in t['ev'] if e[f] != NONE) for f in ('uGain', 'uDp', 'uVoa')}
    chk.cov['b3_reduced_amplifiers'] = sum(1 for t in traces for e in t['ev'] if abs(t['prefTot'] + e['dp'] - e['pmax']) <= 10)
    for t in traces:
        chk.case(t['name'], nontrivial=len(t['ev']) > 0)
    if traces:
        t = next((x for x in traces if len(x['ev']) >= 2), traces[0])
        chk.sample(dict(kind='B3 OMS of a real design judged by Trace_DesignPower', name=t['name'],
                        config={k: t[k] for k in ('mode', 'slope', 'ref', 'lo', 'hi', 'step', 'prefTot', 't0')},
                        first_events=t['ev'][:2], roadm=t['rd']))
    return traces


def run(chk):
    dev = [0]
    mism = []
    b2_traces, b2_ctx = [], {}
    n_cases = n_ok = 0
    exercised = dict(reduced=0, offset_kept=0, gain_kept=0, user_voa=0, padded=0, zero_before_roadm=0, in_voa=0,
                     bound_off_step=0, auto_voa_followed_by_amplifier=0, starts_at_transceiver=0,
                     tx_power_differs_from_reference=0, two_auto_models_above_both_pmax=0, lumped_loss_in_span=0,
                     design_band_on_its_own_grid=0, reference_power_via_args_power=0, two_chained_fused=0)
    life = dict(designed_again=0, designed_again_with_automatic_voa_in_place=0, used_again=0,
                used_again_with_an_amplifier_at_its_maximum=0, designed_again_after_use=0, designed_again_in_gain_mode=0)
    for b in BOUNDS[chk.tier]:
        r = tlc.run('MC_DesignPower', cfg_text=mc_cfg(b), timeout=2400, tag='c09-mc')
        chk.add_mc(f'MC_DesignPower MaxSpans={b["max_spans"]} {b["losses"]} MultiUser={b["multi"]} Rich={b["rich"]}', r)
        seen = {}
        for js in r.emitted:
            k = json.dumps([js['cfg'], js['oms']], sort_keys=True)
            seen.setdefault(k, []).append(js)
        for k, v in sorted(seen.items()):
            js = v[0]
            if js['oms']['rich'] in (0, 6) and len(v) != 1:
                raise Machinery('replayable profile with more than one admissible design')
            inv = {json.dumps([[o['gain'] - o['voa'], o['dp'] - o['voa'], o['pmax']] for o in w['out']]) for w in v}
            if len(inv) != len({json.dumps([o['pmax'] for o in w['out']]) for w in v}):
                raise Machinery('admissible designs differ by more than the automatic VOA / the model in place')
            n_cases += 1
            pe = b.get('propagate_every', 1)
            # gain mode: a line with an input VOA is not designed again - the second design applies the test of the known
            # finding (saturation test of an amplifier whose model and gain are in place ignores in_voa) to what the
            # first design had selected itself
            reuse = n_cases % (3 * pe) == 0
            again = (n_cases % 6 == 1 or reuse or js['oms']['rich'] == 1) and not (
                js['cfg']['mode'] == 0 and any(a['inVoa'] != 0 for a in js['oms']['amps']))
            m = replay(v, chk, b2_traces, b2_ctx, dev, propagate=(n_cases % pe == 0), reuse=reuse, again=again, life=life)
            if m is None:
                n_ok += 1
            else:
                mism.append(m)
            cfg = js['cfg']
            o6 = js['oms']
            exercised['starts_at_transceiver'] += o6['ing'] == 1
            exercised['design_band_on_its_own_grid'] += o6['rich'] == 7
            exercised['reference_power_via_args_power'] += via_args_power(o6)
            exercised['two_chained_fused'] += o6['t0'] != -20000000 and len(o6['amps']) - (0 if o6['ing'] == 1 else 1) >= 2
            exercised['tx_power_differs_from_reference'] += o6['ing'] == 1 and o6['tx'] != o6['dpref']
            exercised['two_auto_models_above_both_pmax'] += o6['rich'] == 5 and any(
                not a['uVar'] and cfg['prefTot'] + o6['dpref'] + o6['dload'] + o['dp'] == min(a['pmaxSet']) and
                any(w['out'][k]['pmax'] != o['pmax'] for w in v)
                for k, (a, o) in enumerate(zip(o6['amps'], js['out'])))
            exercised['bound_off_step'] += cfg['step'] > 0 and (cfg['lo'] % cfg['step'] != 0 or cfg['hi'] % cfg['step'] != 0)
            first = next((t for t in reversed(b2_traces) if t['name'] == 'B2#' + format(zlib.crc32(k.encode()), '08x')), None)
            if js['oms']['rich'] == 1 and first is not None:
                ev = first['ev']
                exercised['auto_voa_followed_by_amplifier'] += any(e['voa'] > 0 and e['uVoa'] == NONE for e in ev[:-1])
            for a, o in zip(js['oms']['amps'], js['out']):
                gk = cfg['mode'] == 0 and a['uGain'] != NONE
                exercised['reduced'] += cfg['prefTot'] + js['oms']['dpref'] + js['oms']['dload'] + o['dp'] == o['pmax']
                exercised['offset_kept'] += a['uDp'] != NONE and not gk
                exercised['gain_kept'] += gk
                exercised['user_voa'] += a['uVoa'] != NONE
                exercised['padded'] += a['L'] != a['raw']
                exercised['zero_before_roadm'] += a['nxt'] == 0 and a['uDp'] == NONE and not gk
                exercised['in_voa'] += a['inVoa'] != 0
                exercised['lumped_loss_in_span'] += a.get('lump', 0) > 0
            chk.case(k, nontrivial=True)
            if len(chk.samples) < 2 and any(a['kind'] in (5, 7) for a in js['oms']['amps']):
                chk.sample(dict(kind='B2 TLC-designed OMS replayed into designed_network', cfg=cfg,
                                amps=[{f: a[f] for f in ('L', 'Ln', 'nxt', 'uGain', 'uDp', 'uVoa', 'uVar', 'kind')}
                                      for a in js['oms']['amps']], expected=js['out']))
    if any(v == 0 for v in exercised.values()) or any(v == 0 for v in life.values()):
        raise Machinery(f'vacuous replay set: {exercised} {life}')
    chk.exhaustive = True
    chk.cov['b2_designs_replayed'] = n_cases
    chk.cov['b2_designs_equal_to_model'] = n_ok
    chk.cov['b2_clauses_exercised'] = exercised
    chk.cov['b2_life_of_the_designed_line'] = life
    chk.cov['tolerance_b2_udb'] = TOL
    chk.cov['worst_deviation_b2_udb'] = dev[0]
    # ONE TLC pass judges the replayed designs (B2), the recorded designs of the corpus (B3) and the corrupted copies
    b3_traces, b3_ctx, b3_namp, b3_stats = collect_b3(chk)
    muts = corrupted_traces(b3_traces + b2_traces)
    pre = tlc_verdicts(b2_traces + b3_traces + [m for m, _ in muts], chk, 'traces')
    verdicts = {}
    ok = judge(b2_traces, b2_ctx, chk, 'b2', verdict_map=verdicts, pre=pre)
    chk.traces += ok
    report_b2(mism, verdicts, chk)
    # a design that equals the model but that the trace specification rejects: model and monitor disagree
    named = {m['name'].split('~')[0] for m in mism}       # a later stage of a reported case inherits its deviation
    for nm, v in verdicts.items():
        if nm.split('~')[0] not in named:
            c = b2_ctx[nm]
            step, clause = v[0]
            if clause.startswith('DesignLoadReproduces'):
                st = c['stage'].strip('~').replace('~', '-then-')
                chk.violation(f'B2|{"power" if c["cfg"]["mode"] == 1 else "gain"}|{st + "|" if st else ""}{clause}|'
                              f'kind={c["oms"]["amps"][max(step, 1) - 1]["kind"]}',
                              dict(trace=nm, viol=v, cfg=c['cfg'], oms=c['oms'], amps=c['amps']))
            else:
                raise Machinery(f'design equal to the model is rejected by Trace_DesignPower: {nm} {v}')
    chk.cov['b2_traces_judged'] = len(b2_traces)
    b3 = finish_b3(chk, b3_traces, b3_ctx, b3_namp, b3_stats, pre=pre)
    check_corrupted(muts, pre, chk)
    # the budget must also close at every step of a power sweep (transmission flow: redesign per step, Transmission.tla)
    from harness import sweep
    sweep.run(chk)
    chk.cov['tolerance_trace_udb'] = dict(TolEq=10, TolRep=100, TieZone=1000)
    chk.cov['worst_deviation_trace_udb'] = measured_deviations(b3 + b2_traces)
    chk.cov['rule'] = ('B2: one case = one (configuration, OMS profile) design emitted by TLC (mode x range x slope x ROADM '
                       'target x span losses x operator settings per amplifier), distinct by that key, all non-trivial '
                       '(the design of >= 2 amplifiers is compared with the model); B3: one case = one OMS x design band of '
                       'a real designed network, non-trivial when it holds at least one amplifier')
    chk.assume('delta_power_range step is 0 (0.01 dB resolution) or a multiple of 0.1 dB; range lower bound <= upper bound')
    chk.assume('the rule is judged where the amplifier is followed by a span or by the egress ROADM (amplifier directly '
               'followed by an amplifier / transceiver: Closure and limits only); spans holding a RamanFiber: rule and '
               'Closure unjudged (the compensated loss is the design\'s own Raman estimate) and reproduction unjudged from there '
               'on (propagated Raman gain depends on SimParams); multiband tilt deviation '
               'is taken from the design call as an input')
    chk.assume('for an auto-selected model a reduction down to the model\'s extended maximum gain is admitted as well as '
               'the reduction to p_max (the property text does not mention the former)')
    chk.assume('DesignLoadReproduces: channel-average powers per design band; the design comb is the one '
               'create_input_spectral_information builds for the band at the reference power; OMS without a transceiver on '
               'the ingress ROADM are designed and judged but not propagated')
    chk.assume('power sweep (B3|sweep): lines of 1-4 fibre spans between ROADMs, shipped library, no Raman, no VOA; the budget '
               'closes within 0.3 dB (noise accumulated on the line; worst measured 0.03 dB)')
    chk.assume('life of the designed line: "used again" = a what-if load of the design comb with every carrier 3 dB above the '
               'design load, then the design load, through the same elements (OMS holding a RamanFiber are not used again); '
               'the designed settings after use are the ones the network exports (to_json; in gain mode the offset is the '
               'design\'s own _delta_p); "designed again" = design_network on the designed graph for the same reference channel, '
               'operator settings taken from the configuration as loaded; in gain mode a B2 line with an input VOA is not '
               'designed again (the second design meets the known finding: the saturation test of an amplifier whose model '
               'and gain are in place ignores in_voa) and the networks of the corpus are designed again in power mode only')
    chk.assume('B2 library: two fixed-gain models (no NF subtlety), Raman off, 10 channels at 0 dBm, padding 10 dB, '
               'EOL 0.5 dB, connectors 0.25 dB')


# ------------------------------------------------------------------------------------------------------ mutants
def _patch_source(name, old, new, count=1):
    """re-define gnpy.core.network.<name> from its own source with one fragment replaced"""
    import gnpy.core.network as N
    src = inspect.getsource(getattr(N, name))
    if src.count(old) < 1:
        raise Machinery(f'mutant: fragment not found in {name}: {old!r}')
    exec(compile(src.replace(old, new, count), f'<mutant {name}>', 'exec'), N.__dict__)


def _mut_round_floor():          # step rounding by truncation instead of to the nearest multiple
    import gnpy.core.network as N
    N.round2float = lambda number, step: (round(math.floor(number / round(step, 1) + 1e-9) * round(step, 1), 1)
                                          if round(step, 1) >= 0.01 else round(number, 2))


def _mut_voa_sign():             # wrong sign of the VOA term when the operator set an output VOA
    _patch_source('compute_gain_power_and_tilt_target', 'equipment, deviation_db) + voa', 'equipment, deviation_db) - voa')


def _mut_sat_per_channel():      # saturation test on the per-channel instead of the total design power
    _patch_source('set_one_amplifier', 'power_reduction = min(0, p_max - (pref_total_db + dp))',
                  'power_reduction = min(0, p_max - (pref_ch_db + dp))')


def _mut_prev_voa_dropped():     # the previous amplifier's VOA is forgotten in the gain
    _patch_source('compute_gain_power_and_tilt_target', 'dp - prev_dp + prev_voa + in_voa', 'dp - prev_dp + in_voa')


def _mut_roadm_target_ignored():  # the ROADM egress target is not used as the starting offset
    _patch_source('set_egress_amplifier', 'prev_dp[band_name] = this_node_out_power - pref_ch_db',
                  'prev_dp[band_name] = 0.0')


def _mut_reduce_with_margin():   # reduction applied although not needed (1 dB safety margin)
    _patch_source('set_one_amplifier', 'power_reduction = min(0, p_max - (pref_total_db + dp))',
                  'power_reduction = min(0, p_max - 1 - (pref_total_db + dp))')


def _mut_clamp_low_only():       # the upper bound of delta_power_range is not applied
    _patch_source('target_power', 'dp = min(dp_range[1], dp)', 'dp = dp')


def _mut_sweep_stale_zero():      # the 0 dB step of a power sweep is propagated on the previous step's design
    import gnpy.tools.worker_utils as W
    src = inspect.getsource(W.transmission_simulation)
    old = 'if len(power_range) > 1:'
    if src.count(old) != 1:
        raise Machinery('mutant: fragment not found in transmission_simulation')
    exec(compile(src.replace(old, 'if len(power_range) > 1 and dp_db != 0:'), '<mutant sweep>', 'exec'), W.__dict__)


MUTANTS = {'sweep_stale_zero': _mut_sweep_stale_zero, 'round_floor': _mut_round_floor, 'voa_sign': _mut_voa_sign, 'sat_per_channel': _mut_sat_per_channel,
           'prev_voa_dropped': _mut_prev_voa_dropped, 'roadm_target_ignored': _mut_roadm_target_ignored,
           'reduce_with_margin': _mut_reduce_with_margin, 'clamp_low_only': _mut_clamp_low_only}


def run_b3(chk):
    """B3 alone (collect + judge), kept for interactive use"""
    return finish_b3(chk, *collect_b3(chk))
