"""C15 - every designed network yields a consistent OMS partition and spectrum map.

B1  MC_OmsMap (Build -> Occupy* -> Align state machine, alignment clauses), MC_OmsBands (all band layouts; the two
    formulations of "usable" agree), MC_OmsPartition (all 3-site line graphs, one pair of sites possibly joined by two
    parallel routes; partition and pairing clauses on the oracle).
B2  (a) every aligned state emitted by TLC is replayed on real OMS/Bitmap objects through align_grids and compared;
    (b) every band layout is put on a real designed line network and (c) every topology is designed for real;
    build_oms_list's result is projected and judged by Trace_OmsMap.
B3  build_oms_list on every shipped network with its equipment library, judged by the same Trace_OmsMap clauses.
"""
import copy
import json
import math
import random

from harness import tlc
from harness.core import Machinery
from harness.gnpy_util import equipment, line_or_mesh_json, designed, node_map, EX, TD

F0 = 193.1e12
GRID = 6.25e9


def fidx(f, edge='lo'):
    """band edge (Hz) -> 6.25 GHz index by the PROPERTY's rule: slot n (centre 193.1 THz + n * 6.25 GHz) is inside a
    band iff its centre lies in [f_min, f_max]: lowest index = ceil for a lower edge, highest = floor for an upper one
    (float noise removed first)"""
    x = round((f - F0) / GRID, 6)
    return math.ceil(x) if edge == 'lo' else math.floor(x)


def freq(n, edge=None):
    """frequency of index n; as a band edge it is placed OFF the grid, three quarters of a slot outwards, in the sign
    combinations where the code's int() truncation agrees with the property's rule (lower edge below 193.1 THz, upper
    edge above it); the other band edges are placed exactly on the grid (see DESIGN, C15 domain)"""
    if edge == 'lo' and n < 0:
        return F0 + (n - 0.75) * GRID
    if edge == 'hi' and n > 0:
        return F0 + (n + 0.75) * GRID
    if edge in ('lo', 'hi'):
        return F0 + n * GRID            # exactly on the grid (exact in double precision at these magnitudes)
    return F0 + n * GRID + (0.25 * GRID if n > 0 else -0.25 * GRID if n < 0 else 0.0)


def runs_of(bm):
    from gnpy.topology.spectrum_assignment import BitmapValue
    name = {BitmapValue.FREE: 'F', BitmapValue.OCCUPIED: 'O', BitmapValue.UNUSABLE: 'U'}
    runs = []
    for n, v in zip(bm.freq_index, bm.bitmap):
        if runs and runs[-1][1] == n - 1 and runs[-1][2] == name[v]:
            runs[-1][1] = n
        else:
            runs.append([n, n, name[v]])
    return runs


def bands_of(e):
    """the band(s) an amplifier element really amplifies: a multiband node is the amplifiers it holds (a partly equipped
    node amplifies less than its type could), a single amplifier its configured band(s)"""
    from gnpy.core.elements import Multiband_amplifier
    if isinstance(e, Multiband_amplifier):
        return [{'f_min': a.params.f_min, 'f_max': a.params.f_max} for a in e.amplifiers.values()]
    return e.params.bands


def project(name, net, oms_list, expect=None):
    """observed state of build_oms_list as integers/strings (no judgement here)"""
    from gnpy.core.elements import Edfa, Multiband_amplifier
    nodes = list(net.nodes())
    ix = {n.uid: i + 1 for i, n in enumerate(nodes)}
    rec = dict(name=name, nodes=[dict(t=type(n).__name__) for n in nodes],
               edges=[[ix[a.uid], ix[b.uid]] for a, b in net.edges()], oms=[], maps=[], amps=[], expect=[])
    pos = {id(o): k + 1 for k, o in enumerate(oms_list)}
    allb = []
    for o in oms_list:
        rec['oms'].append(dict(els=[ix[u] for u in o.el_id_list],
                               rev=pos[id(o.reversed_oms)] if getattr(o, 'reversed_oms', None) is not None else 0))
        bm = o.spectrum_bitmap
        rec['maps'].append(dict(runs=runs_of(bm), n=len(bm.bitmap), nmin=bm.n_min, nmax=bm.n_max, naxis=len(bm.freq_index)))
        amps = [[[fidx(b['f_min'], 'lo'), fidx(b['f_max'], 'hi')] for b in sorted(bands_of(e), key=lambda x: x['f_min'])]
                for e in o.el_list if isinstance(e, (Edfa, Multiband_amplifier))]
        rec['amps'].append(amps)
    for n in nodes:
        if isinstance(n, (Edfa, Multiband_amplifier)):
            allb += [[fidx(b['f_min'], 'lo'), fidx(b['f_max'], 'hi')] for b in bands_of(n)]
    rec['ext'] = [min(b[0] for b in allb), max(b[1] for b in allb)]
    for (a, b, must) in expect or []:
        rec['expect'].append({'from': ix[a], 'to': ix[b], 'must': [ix[u] for u in must]})
    return rec


def judge(records, chk, kind):
    if not records:
        return 0
    data = '\n'.join(json.dumps(r) for r in records) + '\n'
    res = tlc.run('Trace_OmsMap', extra_files={'trace.ndjson': data}, env={'TRACE_FILE': 'trace.ndjson'}, workers=1,
                  timeout=1800, tag='c15-trace')
    if not res.ok:
        raise Machinery(f'Trace_OmsMap run failed: {res.error or res.violated}\n{res.out[-2500:]}')
    chk.states += res.distinct
    chk.transitions += res.generated
    verdicts = {v['name']: v for v in res.emitted}
    ok = 0
    for r in records:
        v = verdicts.get(r['name'])
        if v is None:
            raise Machinery(f'no verdict for {r["name"]}')
        if v['viol']:
            for c in sorted(v['viol']):
                chk.violation(f'{kind}|{c}|{r.get("sig", r["name"])}', dict(trace=r['name'], clause=c,
                              maps=[(m['nmin'], m['nmax'], m['n'], m['runs'][:6]) for m in r['maps'][:4]],
                              amps=r['amps'][:4], ext=r['ext']))
        else:
            ok += 1
    return ok


# --------------------------------------------------------------------------------------------- B2 (a) alignment
def replay_alignment(cases, chk):
    from gnpy.topology.spectrum_assignment import OMS, BitmapValue, align_grids
    val = {'F': BitmapValue.FREE, 'O': BitmapValue.OCCUPIED, 'U': BitmapValue.UNUSABLE}
    name = {v: k for k, v in val.items()}
    ok = 0
    for c in cases:
        oms_list = []
        try:
            for i, b in enumerate(c['before']):
                o = OMS(oms_id=i, el_id_list=[], el_list=[])
                # FlexGrid.AxisOf: a map given the frequencies of indices lo..hi (a quarter slot off the grid, away from the
                # anchor, where the truncation keeps the index) spans exactly lo..hi
                o.update_spectrum(freq(b['lo']), freq(b['hi']), guardband=0.0, grid=GRID,
                                  existing_spectrum=[val[x] for x in b['val']])
                if (o.spectrum_bitmap.n_min, o.spectrum_bitmap.n_max) != (b['lo'], b['hi']):
                    raise ValueError(f'extent {o.spectrum_bitmap.n_min}..{o.spectrum_bitmap.n_max} for {b["lo"]}..{b["hi"]}')
                oms_list.append(o)
        except Exception as e:                                  # noqa
            chk.violation(f'B2|update_spectrum|AxisOf|{type(e).__name__}', dict(before=c['before'], exception=f'{type(e).__name__}: {e}'))
            continue
        key = tuple((b['lo'], b['hi'], ''.join(b['val'])) for b in c['before'])
        chk.case(('align',) + key, nontrivial=len({(b['lo'], b['hi']) for b in c['before']}) > 1)
        try:
            align_grids(oms_list)
            # occupancy written AFTER the alignment must land at its frequency: position of index n through geti()
            for o, post in zip(oms_list, c.get('post', [[]] * len(oms_list))):
                b = o.spectrum_bitmap
                for a, z in post:
                    b.bitmap[b.geti(a):b.geti(z) + 1] = [BitmapValue.OCCUPIED] * (z - a + 1)
            got = [dict(lo=o.spectrum_bitmap.n_min, hi=o.spectrum_bitmap.n_max, idx=list(o.spectrum_bitmap.freq_index),
                        val=[name[v] for v in o.spectrum_bitmap.bitmap],
                        pos=[o.spectrum_bitmap.geti(n) for n in o.spectrum_bitmap.freq_index]) for o in oms_list]
        except Exception as e:                                  # noqa
            got = f'EXC {type(e).__name__}: {e}'
        if got != c['after']:
            side = set()
            for b in c['before']:
                if b['lo'] > min(x['lo'] for x in c['before']):
                    side.add('left')
                if b['hi'] < max(x['hi'] for x in c['before']):
                    side.add('right')
            chk.violation(f'B2|align_grids|widen-{"+".join(sorted(side))}', dict(before=c['before'], model=c['after'], code=got))
        else:
            ok += 1
    return ok


def realign_records(chk):
    """B3 for the alignment clause on the maps build_oms_list itself produces: build, occupy a few slots, give ONE map another
    extent through OMS.update_spectrum, align the whole list (Trace_Align judges what comes out)"""
    from gnpy.tools.json_io import load_network
    from gnpy.tools.worker_utils import designed_network
    from gnpy.topology.spectrum_assignment import build_oms_list, align_grids, BitmapValue
    recs = []
    plans = [(0, 3, 2), (5, 0, 4), (2, 6, 0), (7, -2, 5)] if chk.tier == 'thorough' else [(0, 3, 2), (5, 0, 4)]
    eq = equipment()
    for which, left, right in plans:
        net = designed_network(eq, load_network(EX / 'meshTopologyExampleV2.json', eq))[0]
        oms_list = build_oms_list(net, eq)
        for k, o in enumerate(oms_list[:6]):
            o.assign_spectrum(-200 + 16 * k, 4)
        o = oms_list[which % len(oms_list)]
        b = o.spectrum_bitmap
        lo, hi = b.n_min - left, b.n_max + right            # a negative `left` shrinks the map from below
        keep = [v for n, v in zip(b.freq_index, b.bitmap) if lo <= n <= hi]
        newmap = [BitmapValue.UNUSABLE] * max(0, b.n_min - lo) + keep + [BitmapValue.UNUSABLE] * max(0, hi - b.n_max)
        try:
            o.update_spectrum(freq(lo), freq(hi), guardband=b.guardband, grid=GRID, existing_spectrum=newmap)
        except Exception as e:                                  # noqa  (FlexGrid.AxisOf: the map of indices lo..hi has hi-lo+1 slots)
            chk.violation(f'B3|update_spectrum|AxisOf|{type(e).__name__}', dict(lo=lo, hi=hi, exception=f'{type(e).__name__}: {e}'))
            continue
        before = [dict(lo=x.spectrum_bitmap.n_min, hi=x.spectrum_bitmap.n_max, runs=runs_of(x.spectrum_bitmap)) for x in oms_list]
        name = f'meshTopologyExampleV2.json[map {which} re-ranged by -{left}/+{right}, then aligned]'
        chk.case(('realign', which, left, right))
        try:
            align_grids(oms_list)
        except Exception as e:                                  # noqa
            chk.violation(f'B3|align_grids-raises|{type(e).__name__}', dict(network=name, exception=f'{type(e).__name__}: {e}'))
            continue
        after = [dict(lo=x.spectrum_bitmap.n_min, hi=x.spectrum_bitmap.n_max, n=len(x.spectrum_bitmap.bitmap),
                      naxis=len(x.spectrum_bitmap.freq_index), uniq=len(set(x.spectrum_bitmap.freq_index)),
                      runs=runs_of(x.spectrum_bitmap)) for x in oms_list]
        recs.append(dict(name=name, before=before, after=after))
    if not recs:
        return 0
    data = '\n'.join(json.dumps(r) for r in recs) + '\n'
    res = tlc.run('Trace_Align', extra_files={'trace.ndjson': data}, env={'TRACE_FILE': 'trace.ndjson'}, workers=1,
                  timeout=900, tag='c15-realign')
    if not res.ok:
        raise Machinery(f'Trace_Align failed: {res.error or res.violated}\n{res.out[-2000:]}')
    chk.states += res.distinct
    chk.transitions += res.generated
    verdicts = {v['name']: v for v in res.emitted}
    ok = 0
    for r in recs:
        v = verdicts.get(r['name'])
        if v is None:
            raise Machinery(f'Trace_Align: no verdict for {r["name"]}')
        if v['viol']:
            for c in sorted(v['viol']):
                chk.violation(f'B3|realign|{c}', dict(network=r['name'], clause=c))
        else:
            ok += 1
    return ok


# ------------------------------------------------------------------------------------------------ B2 (b) bands
class BandBench:
    def __init__(self):
        self.eq = equipment()
        # link A-B is long enough to be split by the design: its OMS carry three amplifiers (booster, in-line, preamp)
        self.net, _, _ = designed(line_or_mesh_json('ABC', [('A', 'B', 200), ('B', 'C', 80)]), self.eq)

    def run(self, lay, name):
        from gnpy.topology.spectrum_assignment import build_oms_list
        from gnpy.core.elements import Edfa, Roadm
        # group 1: A->B and C->B, group 2: B->C and B->A (amplifiers in the other order on the way back): the two directions of
        # a link carry different amplifier sets whenever the two groups differ
        nodes = node_map(self.net)
        def three(x, y, z, fallback):
            # domain: the amplifiers of an OMS share at least one slot (the model's layouts guarantee it per group; a mix
            # across groups that shares nothing falls back to the group's own pair with its first amplifier in line)
            def has(amp, n):
                return any(lo <= n <= hi for lo, hi in amp)
            if any(all(has(a, n) for a in (x, y, z)) for n in range(-80, 41)):
                return [x, y, z]
            return [fallback[0], fallback[0], fallback[1]]
        groups = {('roadm A', 'roadm B'): three(lay[0][0], lay[1][0], lay[0][1], lay[0]),
                  ('roadm B', 'roadm A'): three(lay[1][1], lay[0][0], lay[1][0], lay[1][::-1]),
                  ('roadm B', 'roadm C'): lay[1], ('roadm C', 'roadm B'): lay[0][::-1]}
        for (a, b), amps in groups.items():
            chain = []
            n = next(x for x in self.net.successors(nodes[a]) if f'to {b[6:]}' in x.uid or f'{a[6:]} -> {b[6:]}' in x.uid
                     or b[6:] in x.uid.split('to')[-1])
            while not isinstance(n, Roadm):
                chain.append(n)
                n = next(self.net.successors(n))
            if n.uid != b:
                raise Machinery(f'band bench: chain from {a} reaches {n.uid}, not {b}')
            edfas = [x for x in chain if isinstance(x, Edfa)]
            if len(edfas) != len(amps):
                raise Machinery(f'band bench expects {len(amps)} amplifiers on {a} -> {b}, got {len(edfas)}')
            for e, amp in zip(edfas, amps):
                e.params = copy.copy(e.params)
                e.params.bands = [{'f_min': freq(lo, 'lo'), 'f_max': freq(hi, 'hi')} for lo, hi in amp]
        oms_list = build_oms_list(self.net, self.eq)
        return project(name, self.net, oms_list)


# -------------------------------------------------------------------------------------------- B2 (c) partition
def topo_from_case(c):
    """TLC case {'links': {'<<a, b, route>>': [types...]}} -> topology JSON and the expected per-link element lists
    (route 2 = a second, longer line between the same two ROADMs, on its own degrees)"""
    keys = {k: [int(x) for x in k.strip('<>').split(',')] for k in c['links']}
    sites = sorted({x for abr in keys.values() for x in abr[:2]})
    els, cx, expect = [], [], []
    for s in sites:
        els += [{'uid': f'trx {s}', 'type': 'Transceiver'}, {'uid': f'roadm {s}', 'type': 'Roadm'}]
        cx += [{'from_node': f'trx {s}', 'to_node': f'roadm {s}'}, {'from_node': f'roadm {s}', 'to_node': f'trx {s}'}]
    for k, chain in sorted(c['links'].items()):
        a, b, route = keys[k]
        prev = f'roadm {a}'
        must = []
        for i, t in enumerate(chain):
            uid = f'{t.lower()} ({a} -> {b}) #{i}' + ('' if route == 1 else f' route {route}')
            if t == 'Fiber':
                els.append({'uid': uid, 'type': 'Fiber', 'type_variety': 'SSMF',
                            'params': {'length': 60 + 10 * i + 25 * (route - 1), 'length_units': 'km', 'loss_coef': 0.2,
                                       'con_in': None, 'con_out': None}})
            elif t == 'Fused':
                els.append({'uid': uid, 'type': 'Fused', 'params': {'loss': 1}})
            elif t == 'Edfa':
                els.append({'uid': uid, 'type': 'Edfa', 'type_variety': 'std_medium_gain',
                            'operational': {'gain_target': None, 'tilt_target': 0, 'out_voa': None}})
            cx.append({'from_node': prev, 'to_node': uid})
            prev = uid
            must.append(uid)
        cx.append({'from_node': prev, 'to_node': f'roadm {b}'})
        expect.append((f'roadm {a}', f'roadm {b}', must))
    return {'elements': els, 'connections': cx}, expect


# ----------------------------------------------------------------------------------------------------- B3
SHIPPED = [
    ('meshTopologyExampleV2.json', 'eqpt_config.json'), ('CORONET_Global_Topology.json', 'eqpt_config.json'),
    ('CORONET_CONUS_Topology.json', 'eqpt_config.json'), ('edfa_example_network.json', 'eqpt_config.json'),
    ('fused_roadm_example_network.json', 'eqpt_config.json'), ('raman_edfa_example_network.json', 'eqpt_config.json'),
    ('Sweden_OpenROADMv4_example_network.json', 'eqpt_config_openroadm_ver4.json'),
    ('Sweden_OpenROADMv5_example_network.json', 'eqpt_config_openroadm_ver5.json'),
    ('multiband_example_network.json', 'eqpt_config_multiband.json'),
    ('meshTopologyExampleV2.json', 'eqpt_config_multiband.json'),
]


def shipped_records(chk):
    from gnpy.tools.json_io import load_network
    from gnpy.tools.worker_utils import designed_network
    from gnpy.topology.spectrum_assignment import build_oms_list
    recs = []
    names = SHIPPED if chk.tier == 'thorough' else [s for s in SHIPPED if 'CORONET' not in s[0]]
    for netf, eqf in names:
        eq = equipment(eqf)
        try:
            net = load_network(EX / netf, eq)
            net = designed_network(eq, net)[0]
        except Exception as e:                                  # noqa  (design problems are C08's business)
            chk.cov.setdefault('b3_skipped', []).append(f'{netf}+{eqf}: {type(e).__name__}')
            continue
        name = f'{netf}+{eqf}'
        from gnpy.core.elements import Roadm
        if not any(isinstance(n, Roadm) for n in net.nodes()):
            # the property speaks of OMS running from one ROADM to the next: point-to-point lines are outside it
            chk.cov.setdefault('b3_skipped', []).append(f'{name}: no ROADM in the network')
            continue
        chk.case(('shipped', name))
        try:
            oms_list = build_oms_list(net, eq)
        except Exception as e:                                  # noqa
            chk.violation(f'B3|build_oms_list-raises|{type(e).__name__}|{name}',
                          dict(network=netf, equipment=eqf, exception=f'{type(e).__name__}: {e}',
                               note='C15: for every designed network the OMS list can be built'))
            continue
        recs.append(project(name, net, oms_list))
    # multiband line with a partly equipped site: the L-band module of one multiband amplifier is not installed
    from gnpy.tools.json_io import load_json, network_from_json
    eq = equipment('eqpt_config_multiband.json')
    base = load_json(EX / 'multiband_example_network.json')
    multi = [e['uid'] for e in base['elements'] if e['type'] == 'Multiband_amplifier' and len(e.get('amplifiers', [])) > 1]
    for uid in (multi if chk.tier == 'thorough' else multi[1:3]):
        data = copy.deepcopy(base)
        el = next(e for e in data['elements'] if e['uid'] == uid)
        el['amplifiers'] = [a for a in el['amplifiers'] if not str(a.get('type_variety', '')).endswith('_L')]
        name = f'multiband_example_network.json[{uid}: C module only]'
        chk.case(('partial', uid))
        try:
            net = designed_network(eq, network_from_json(data, eq))[0]
        except Exception as e:                                  # noqa  (design problems are C08's business)
            chk.cov.setdefault('b3_skipped', []).append(f'{name}: {type(e).__name__}')
            continue
        try:
            oms_list = build_oms_list(net, eq)
        except Exception as e:                                  # noqa
            chk.violation(f'B3|build_oms_list-raises|{type(e).__name__}|partly-equipped-multiband',
                          dict(network=name, exception=f'{type(e).__name__}: {e}'))
            continue
        recs.append(project(name, net, oms_list))
    # the OMS list of a network that was already used: built once, a link taken out of service, built again on the same
    # network object (whatever an earlier build left on the elements must not reach the next one)
    from gnpy.core.elements import Roadm
    eq = equipment()
    for cut in range(2 if chk.tier == 'quick' else 6):
        net = designed_network(eq, load_network(EX / 'meshTopologyExampleV2.json', eq))[0]
        name = f'meshTopologyExampleV2.json[rebuilt after cutting link {cut}]'
        chk.case(('rebuild', cut))
        try:
            first = build_oms_list(net, eq)
            links = sorted((o.el_id_list[0], o.el_id_list[-1]) for o in first if o.el_id_list[0] < o.el_id_list[-1])
            a, b = links[(cut * 3) % len(links)]
            gone = [e for o in first if {o.el_id_list[0], o.el_id_list[-1]} == {a, b} for e in o.el_list[1:-1]]
            net.remove_nodes_from(gone)
            if any(net.degree(n) == 0 for n in net.nodes() if isinstance(n, Roadm)):
                continue
            oms_list = build_oms_list(net, eq)
        except Exception as e:                                  # noqa
            chk.violation(f'B3|build_oms_list-raises|{type(e).__name__}|rebuilt-after-link-cut',
                          dict(network=name, exception=f'{type(e).__name__}: {e}'))
            continue
        recs.append(project(name, net, oms_list))
    return recs


def flexgrid(chk):
    """FlexGrid.tla: the ITU grid arithmetic every map rests on.  TLC checks the lemmas on a window around the anchor and
    emits one expectation per point; each is replayed into the real functions (frequencies in MHz from 193.1 THz are exact
    doubles, so equality is exact)."""
    import gnpy.topology.spectrum_assignment as sa
    r = tlc.run('MC_FlexGrid', timeout=300, tag='c15-flexgrid')
    chk.add_mc('MC_FlexGrid (grid lemmas + 823 cases emitted)', r)
    hz = lambda mhz: 193.1e12 + mhz * 1e6                                            # noqa: E731
    n = 0
    for x in r.emitted:
        c, e = x['c'], x['e']
        got = {}
        try:
            if c['k'] == 'nm':
                st, sp = sa.mvalue_to_slots(c['n'], c['m'])
                bn, bm_ = sa.slots_to_m(st, sp)
                lo, hi = sa.m_to_freq(c['n'], c['m'])
                got = dict(start=st, stop=sp, flo=round((lo - 193.1e12) / 1e6), fhi=round((hi - 193.1e12) / 1e6), backN=bn, backM=bm_,
                           f=round((sa.nvalue_to_frequency(c['n']) - 193.1e12) / 1e6))
                exact = lo == hz(e['flo']) and hi == hz(e['fhi']) and sa.nvalue_to_frequency(c['n']) == hz(e['f'])
                if not exact:
                    got['inexact'] = 1
            elif c['k'] == 'f':
                got = dict(n=sa.frequency_to_n(hz(c['f'])))
            else:
                b = sa.Bitmap(hz(c['lo']), hz(c['hi']), 6.25e9, guardband=c['g'] * 1e6)
                got = dict(nmin=b.n_min, nmax=b.n_max, len=len(b.bitmap), imin=b.freq_index_min, imax=b.freq_index_max)
                ok_axis = (b.freq_index == list(range(b.n_min, b.n_max + 1)) and len(b.freq_index) == len(b.bitmap)
                           and all(b.getn(b.geti(k)) == k for k in (b.n_min, b.n_max, (b.n_min + b.n_max) // 2)))
                if not ok_axis:
                    got['axis'] = 0
        except Exception as ex:                                                       # noqa
            got = dict(exception=type(ex).__name__)
        chk.case(('flexgrid', json.dumps(c, sort_keys=True)))
        n += 1
        if got != e:
            bad = sorted(k for k in set(got) | set(e) if got.get(k) != e.get(k))
            chk.violation(f'B2|FlexGrid|{c["k"]}|{"+".join(bad)}', dict(case=c, expected=e, observed=got))
    chk.traces += n
    chk.cov['flexgrid_cases'] = n
    chk.assume('grid arithmetic: frequencies on a 1.25 GHz raster within 9 indices of 193.1 THz, M <= 4, guard bands 0 / 6.25 / '
               '15 GHz; frequency_to_n is modelled as the truncation it is (floor above the anchor, ceiling below)')


def run(chk):
    rng = random.Random(chk.seed)
    quick = chk.tier == 'quick'
    flexgrid(chk)
    # ---- B1
    cfg = (tlc.SPEC / 'MC_OmsMap.cfg').read_text()
    r = tlc.run('MC_OmsMap', cfg_text=cfg if not quick else cfg.replace('MaxOcc = 2', 'MaxOcc = 1'), timeout=1800,
                tag='c15-align')
    chk.add_mc('MC_OmsMap (Build/Occupy/Align)', r)
    r = tlc.run('MC_OmsBands', cfg_text=(tlc.SPEC / 'MC_OmsBands.cfg').read_text() + 'INVARIANT Emit\n', timeout=900,
                tag='c15-bands')
    chk.add_mc('MC_OmsBands (all layouts)', r)
    layouts = r.emitted
    r = tlc.run('MC_OmsPartition', cfg_text=(tlc.SPEC / 'MC_OmsPartition.cfg').read_text() + 'INVARIANT Emit\n',
                timeout=900, tag='c15-part')
    chk.add_mc('MC_OmsPartition (all 3-site line graphs, at most one pair of sites joined by two parallel routes)', r)
    topos = r.emitted
    chk.exhaustive = True
    # ---- B2 (a) alignment: emission with one Occupy step (quick) / two (thorough)
    acfg = cfg.replace('MaxOcc = 2', f'MaxOcc = {1 if quick else 2}')
    acfg = '\n'.join(ln for ln in acfg.splitlines() if not ln.startswith('INVARIANT')) + '\nINVARIANT Emit\n'
    r = tlc.run('MC_OmsMap', cfg_text=acfg, timeout=900, tag='c15-emit')
    chk.add_mc('MC_OmsMap emission', r)
    cases = r.emitted
    if len(cases) > (6000 if quick else 150000):
        cases = rng.sample(cases, 6000 if quick else 150000)
    chk.traces += replay_alignment(cases, chk)
    chk.cov['b2_alignment_cases'] = len(cases)
    if cases:
        chk.sample(dict(kind='B2 alignment case replayed on real OMS objects through align_grids', case=cases[0]))
    # ---- B2 (b) band layouts on a real line network
    bench = BandBench()
    if quick and len(layouts) > 1200:
        layouts = rng.sample(layouts, 1200)
    recs = []
    for i, lay in enumerate(layouts):
        name = f'layout-{i}'
        sig = 'layout ' + '/'.join('&'.join('+'.join(f'{lo}..{hi}' for lo, hi in amp) for amp in g) for g in lay['lay'])
        chk.case(('bands', sig))
        try:
            rec = bench.run(lay['lay'], name)
        except Machinery:
            raise
        except Exception as e:                                  # noqa
            top_short = any(min(amp[-1][1] for amp in g) < lay['ext'][1] for g in lay['lay'])
            chk.violation(f'B2|build_oms_list-raises|{type(e).__name__}|{"oms-top-below-network-max" if top_short else "other"}',
                          dict(layout=lay, exception=f'{type(e).__name__}: {e}'))
            continue
        rec['sig'] = 'band-layout'
        recs.append(rec)
    chk.cov['b2_band_layouts'] = len(layouts)
    if recs:
        chk.sample(dict(kind='B2 band layout -> observed maps judged by Trace_OmsMap', layout=layouts[0],
                        observed=[m['runs'] for m in recs[0]['maps']]))
    # ---- B2 (c) topologies
    if quick and len(topos) > 120:
        # a third of the sample from the layouts with two parallel routes between one pair of ROADMs
        single, parallel = [c for c in topos if not c['par']], [c for c in topos if c['par']]
        topos = rng.sample(single, min(80, len(single))) + rng.sample(parallel, min(40, len(parallel)))
    eq = equipment()
    from gnpy.topology.spectrum_assignment import build_oms_list
    for i, c in enumerate(topos):
        js, expect = topo_from_case(c)
        shape = ' '.join(f'{k}:{"-".join(v)}' for k, v in sorted(c['links'].items()))
        chk.case(('topo', shape))
        try:
            net, _, _ = designed(js, eq)
            oms_list = build_oms_list(net, eq)
        except Exception as e:                                  # noqa
            chk.violation(f'B2|topology-raises|{type(e).__name__}', dict(case=c, exception=f'{type(e).__name__}: {e}'))
            continue
        rec = project(f'topo-{i}', net, oms_list, expect)
        rec['sig'] = 'generated-topology' + ('-parallel-routes' if c['par'] else '')
        recs.append(rec)
    chk.cov['b2_topologies'] = len(topos)
    chk.cov['b2_topologies_with_parallel_routes'] = sum(1 for c in topos if c['par'])
    chk.traces += judge(recs, chk, 'B2')
    # ---- B3 shipped networks
    srecs = shipped_records(chk)
    chk.traces += judge(srecs, chk, 'B3')
    chk.traces += realign_records(chk)
    chk.cov['b3_networks'] = len(srecs)
    chk.assume('band layouts whose amplifier bands merely touch (single common index) are outside the domain')
    chk.assume('networks without any ROADM (point-to-point transceiver lines) are outside the property: it speaks of OMS between ROADMs')
    chk.assume('every OMS has a non-empty common band; between two ROADMs joined by parallel routes every OMS must have a partner '
               'of the opposite direction, but which of the parallel opposite OMS it is is not judged (reverse pairing is by end points)')
    chk.assume('B2(b) sets Edfa.params.bands of a really designed line network to the layout (grid-aligned frequencies)')


# ------------------------------------------------------------------------------------------------------ mutants
def _mut_insert_left():
    import gnpy.topology.spectrum_assignment as sa

    def insert_left(self, newbitmap):
        self.bitmap = newbitmap + self.bitmap
        temp = list(range(self.n_min - len(newbitmap) + 1, self.n_min + 1))
        self.freq_index = temp + self.freq_index
        self.n_min = self.freq_index[0]
    sa.Bitmap.insert_left = insert_left


def _mut_free_padding():
    import gnpy.topology.spectrum_assignment as sa
    orig = sa.align_grids

    def align(oms_list):
        n_min = min(o.spectrum_bitmap.n_min for o in oms_list)
        for o in oms_list:
            if o.spectrum_bitmap.n_min - n_min > 0:
                o.spectrum_bitmap.insert_left([sa.BitmapValue.FREE] * (o.spectrum_bitmap.n_min - n_min))
        return orig(oms_list)
    sa.align_grids = align


def _mut_first_band_only():
    import gnpy.topology.spectrum_assignment as sa
    orig = sa.find_elements_common_range
    sa.find_elements_common_range = lambda el_list, equipment: orig(el_list, equipment)[:1]


def _mut_reverse_unpaired():
    import gnpy.topology.spectrum_assignment as sa
    orig = sa.reversed_oms

    def rev(oms_list):
        orig(oms_list)
        if len(oms_list) > 2:
            oms_list[-1].reversed_oms = None
    sa.reversed_oms = rev


def _mut_band_edge():
    import gnpy.topology.spectrum_assignment as sa
    orig = sa.create_oms_bitmap

    def create(oms, equipment, f_min, f_max, grid):
        bm = orig(oms, equipment, f_min, f_max, grid)
        for i in range(1, len(bm)):
            if bm[i - 1] is sa.BitmapValue.UNUSABLE and bm[i] is sa.BitmapValue.FREE:
                bm[i] = sa.BitmapValue.UNUSABLE
                break
        return bm
    sa.create_oms_bitmap = create


def _mut_floor_index():
    """frequency_to_n 'made consistent' with floor division: below the anchor an off-grid frequency now rounds away from it"""
    import math
    import gnpy.topology.spectrum_assignment as sa
    sa.frequency_to_n = lambda freq, grid=sa.DEFAULT_GRID: math.floor((freq - 193.1e12) / grid)


MUTANTS = {'floor_index': _mut_floor_index, 'insert_left': _mut_insert_left, 'free_padding': _mut_free_padding, 'first_band_only': _mut_first_band_only,
           'reverse_unpaired': _mut_reverse_unpaired, 'band_edge': _mut_band_edge}
