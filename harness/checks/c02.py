"""C02 - signal quality never improves along a path; passive elements leave it unchanged.

B1  TLC explores every behaviour of <= MaxDepth ledger operations of MC_PowerLedger with the action properties
    KeepsOsnr (Scale, AddNLI, Demux, Mux), KeepsNli (Scale, AddASE, Demux, Mux), LowersOsnr (AddASE, strictly when
    noise is really added), LowersNli (AddNLI), NeverImprovesGsnr (every operation) and OthersUntouched.
B2  every behaviour emitted by TLC is replayed on a real SpectralInformation through its public methods and the
    figures of merit THE CODE derives (snr_lin, snr_nli, gsnr) are compared after every step with the exact
    reciprocal figures 1/OSNR_ASE, 1/SNR_NLI, 1/GSNR TLC printed for that step.
B3  real propagate() runs on the shipped networks (single / multi band, OpenROADM, fused, Raman on), recorded per
    element, are judged by Trace_Propagation: OpGrammar (the primitive operations an element of that class may
    apply: Fused = Scale; Roadm = Scale Scale; Fiber = Scale AddNLI Scale Scale; Edfa = [Scale] AddASE Scale;
    RamanFiber = Scale AddNLI AddASE Scale Scale; Multiband_amplifier = nested Edfa crossings; Transceiver = none),
    NeverImprovesGsnr / NeverImprovesOsnr / NeverImprovesNli for every channel over every element, PassiveUnchanged
    (Roadm, Fused, Transceiver), KeepsNli (amplifiers), KeepsOsnr (non-Raman fibre) - keyed by channel frequency.
    NLI methods: gn_model_analytic, ggn_approx with nli_params.computed_channels (a list) and with
    nli_params.computed_number_of_channels (that many channels spread over the comb, the others interpolated),
    the latter on combs made of blocks of carriers launched 3 to 12 dB apart.
"""
from harness import propagation_util as pu
from harness.ledger_util import BOUNDS, model_check, emitted_behaviours, replay, run_b3

C02_MODEL_CLAUSES = ('INVARIANT TypeOK', 'INVARIANT SharesInUnitInterval', 'PROPERTY MCKeepsOsnr', 'PROPERTY MCKeepsNli',
                     'PROPERTY MCLowersOsnr', 'PROPERTY MCLowersNli', 'PROPERTY MCNeverImprovesGsnr',
                     'PROPERTY MCOthersUntouched')


def run(chk):
    b1_depth, emit_depth, sim_num, sim_depth = BOUNDS[chk.tier]
    model_check(chk, b1_depth, C02_MODEL_CLAUSES, 'c02')
    replay(chk, emitted_behaviours(chk, emit_depth, sim_num, sim_depth, 'c02'), what='figures')
    run_b3(chk, pu.C02_CLAUSES, 'C02')
    chk.assume('"unchanged" and "not higher" are judged at 10 micro-dB (figures are recorded rounded to 1 micro-dB; the '
               'largest change measured over passive elements / amplifier NLI / fibre OSNR on the unchanged tree is in '
               'coverage.b3_measured_deviation)')
    chk.assume('a figure that is +inf before and after (no ASE before the first amplifier, no NLI before the first fibre) '
               'counts as unchanged; RamanFiber may lower both OSNR and SNR_NLI')
    chk.assume('per-channel launch power <= +10 dBm; trusted base: harness.record.Recording wrappers, the integer '
               'projections in harness.propagation_util, TLC')


# ------------------------------------------------------------------------------------------------------ mutants
def _mut_fused_adds_noise():
    import gnpy.core.elements as el

    def propagate(self, spectral_info):            # a passive element that leaves a little noise behind
        spectral_info.apply_attenuation_db(self.loss)
        spectral_info.add_ase(spectral_info.pch * 1e-5)
    el.Fused.propagate = propagate


def _mut_ase_inverted_factor():
    import gnpy.core.info as info

    def add_ase(self, ase):                         # signal share rescaled with the inverse factor
        pch = self.pch + ase
        self._signal_ratio *= pch / self.pch
        self._nli_ratio *= self.pch / pch
        self._ase_ratio = (self._ase_ratio * self.pch + ase) / pch
        self.pch = pch
    info.SpectralInformation.add_ase = add_ase


def _mut_attenuation_hits_signal_twice():
    import gnpy.core.info as info

    def apply_attenuation_lin(self, attenuation_lin):     # loss applied to the total and once more to the signal share
        self.pch *= attenuation_lin
        self._signal_ratio = self._signal_ratio * attenuation_lin ** 0.01
    info.SpectralInformation.apply_attenuation_lin = apply_attenuation_lin


def _mut_mux_swaps_nli():
    import gnpy.core.info as info
    from numpy import append
    orig = info.SpectralInformation.__add__

    def add(self, other):                            # per-channel NLI shares appended in the wrong order on merge
        out = orig(self, other)
        out._nli_ratio = append(self._nli_ratio, other._nli_ratio)
        return out
    info.SpectralInformation.__add__ = add


def _mut_nli_sign():
    import gnpy.core.info as info

    def add_nli(self, nli):                          # sign error: power moves from NLI back to the signal
        nli_ratio = nli / self.pch
        self._signal_ratio *= (1 + nli_ratio)
        self._ase_ratio *= (1 - nli_ratio)
        self._nli_ratio = (self._nli_ratio * (1 - nli_ratio) + nli_ratio)
    info.SpectralInformation.add_nli = add_nli


def _mut_edfa_touches_nli():
    import gnpy.core.elements as el
    orig = el.Edfa.propagate

    def propagate(self, spectral_info):              # amplifier "cleans" a little NLI
        orig(self, spectral_info)
        spectral_info._nli_ratio = spectral_info._nli_ratio * 0.999
    el.Edfa.propagate = propagate


MUTANTS = {'fused_adds_noise': _mut_fused_adds_noise, 'ase_inverted_factor': _mut_ase_inverted_factor,
           'attenuation_hits_signal_twice': _mut_attenuation_hits_signal_twice, 'mux_swaps_nli': _mut_mux_swaps_nli,
           'nli_sign': _mut_nli_sign, 'edfa_touches_nli': _mut_edfa_touches_nli}
