"""pytest plugin: records the element crossings the REPOSITORY'S OWN TEST-SUITE performs (DESIGN 2.6, source 4).

    cd /repo && VERIF_PYTEST_TRACE=<out.ndjson> PYTHONPATH=/verif /venv/bin/python -m pytest -p harness.pytest_plugin ...

Nothing in the tests changes: the wrappers of harness.record call the originals.  Every top-level element crossing
(Transceiver / Roadm / Fused / Fiber / RamanFiber / Edfa / Multiband_amplifier `__call__`) becomes one small trace in the
format of Trace_Propagation - the spectrum the element was handed ("Launch"/"Filter" stand for it), the nested crossings of
a multiband amplifier, the spectrum it returned - so that the clauses that hold for ARBITRARY pre-states (the ledger
balance, the share range, the operation grammar of the class, "never improves", "passive unchanged", amplifier keeps
SNR_NLI, fibre keeps OSNR) are judged by TLC on executions the maintainers' tests already exercise but do not assert.
Volume is bounded: crossings with the same (test file, class, number of channels, rounded total power) digest are recorded
once, at most PER_TEST per test.
"""
import json
import os
import zlib

OUT = os.environ.get('VERIF_PYTEST_TRACE')
if OUT and os.environ.get('PYTEST_XDIST_WORKER'):
    OUT = f"{OUT}.{os.environ['PYTEST_XDIST_WORKER']}"          # one file per xdist worker, concatenated by the caller
PER_TEST = int(os.environ.get('VERIF_PYTEST_PER_TEST', '40'))
MAX_TOTAL = int(os.environ.get('VERIF_PYTEST_MAX', '12000'))
_state = dict(rec=None, fh=None, n=0, seen=set(), tests=0, dropped=0, errors=0)


def _safe(fn):
    def w(x):
        try:
            return fn(x)
        except Exception:                                   # noqa: a test handed something that is not a spectrum
            return None
    return w


def pytest_configure(config):
    if not OUT:
        return
    from harness import record
    record.snapshot = _safe(record.snapshot)
    rec = record.Recording(keep_element=False)
    rec.__enter__()
    _state['rec'] = rec
    _state['fh'] = open(OUT, 'w')


def _digest(ev, nodeid):
    import numpy as np
    pre = ev['pre']
    tot = float(np.sum(pre['pch'])) if len(pre['pch']) else 0.0
    key = (nodeid.split('::')[0], ev['cls'], len(pre['frequency']), round(tot * 1e6, 3),
           round(float(np.sum(ev['post']['pch'])) * 1e6, 3))
    return zlib.crc32(repr(key).encode())


def _emit(nodeid):
    rec = _state['rec']
    if rec is None:
        return
    events = rec.take()
    if not events:
        return
    from harness import propagation_util as pu
    kept = 0
    nested = []
    for ev in events:
        if ev['pre'] is None or ev['post'] is None:
            nested = []
            _state['errors'] += 1
            continue
        if ev['depth'] > 0:
            nested.append(ev)
            continue
        mine, nested = nested, []
        if kept >= PER_TEST or _state['n'] >= MAX_TOTAL:
            _state['dropped'] += 1
            continue
        d = _digest(ev, nodeid)
        if d in _state['seen']:
            continue
        _state['seen'].add(d)
        try:
            labels = pu.Labels()
            pre = ev['pre']
            keys = [pu.Labels.key(pre['label'][k], pre['tx_power'][k], pre['tx_osnr'][k], pre['roll_off'][k],
                                  pre['delta_pdb_per_channel'][k]) for k in range(len(pre['frequency']))]
            labels.declare(keys)
            p0 = pu.project_spectrum(pre, labels)
            evs = [dict(cls='Launch', d=0, ops=[], **p0), dict(cls='Filter', d=0, ops=[], **p0)]
            for m in mine:
                evs.append(dict(cls=m['cls'], d=1, ops=list(m['ops']), **pu.project_spectrum(m['post'], labels)))
            evs.append(dict(cls=ev['cls'], d=0, ops=list(ev['ops']), **pu.project_spectrum(ev['post'], labels)))
            req = [[p0['f'][k], p0['w'][k], p0['b'][k], p0['lab'][k]] for k in range(len(p0['f']))]
            lo = min(p0['f'], default=0) - 10000000
            hi = max(p0['f'], default=0) + 10000000
            tr = dict(name=f'suite:{nodeid}#{kept}:{ev["cls"]}:{ev["uid"]}'[:240], outcome=4, req=req, amps=[], dflt=[lo, hi],
                      ev=evs, rx=dict(f=[], snr=[], osnr=[], onli=[], isnr=[], iosnr=[], inli=[], lab=[]),
                      ref=dict(f=[], snr=[], osnr=[], onli=[]))
            _state['fh'].write(json.dumps(tr, separators=(',', ':')) + '\n')
            _state['n'] += 1
            kept += 1
        except Exception:                                   # noqa: a spectrum the projection cannot express (counted)
            _state['errors'] += 1


def pytest_runtest_teardown(item, nextitem):
    if OUT:
        _state['tests'] += 1
        _emit(item.nodeid)


def pytest_unconfigure(config):
    if not OUT or _state['fh'] is None:
        return
    _state['fh'].close()
    with open(OUT + '.stats', 'w') as f:
        json.dump(dict(traces=_state['n'], tests=_state['tests'], dropped_by_cap=_state['dropped'],
                       not_projectable=_state['errors']), f)
    if _state['rec'] is not None:
        _state['rec'].__exit__(None, None, None)
