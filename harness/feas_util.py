"""C13 helpers: benches (designed networks with a configurable add/drop OSNR), constructed transceiver libraries,
the receiver recorder (wrappers on Transceiver.__call__ / update_snr / calc_penalties installed at run time), pristine
per-mode propagation with the implementation's own propagate(), and the integer projections used by
Trace_Feasibility (micro-dB, reciprocal 1e-9 units, impairments in table units (CD ps/nm, PMD fs, PDL 1e-4 dB)).

Nothing here decides whether an outcome is right: Python measures, builds inputs and converts units; the verdicts are
computed by TLC (spec/FeasibilityOps.tla via MC_Feasibility emission or Trace_Feasibility).
"""
import contextlib
import copy
import json
import math

import numpy as np

from harness.core import Machinery
from harness.gnpy_util import EX, INF, udb

TRX = 'C13-trx'
LOG2 = 10 * math.log10(2)
UNIT = {'chromatic_dispersion': 1.0, 'pmd': 1000.0, 'pdl': 10000.0}    # ps/nm, fs, 1e-4 dB
SHORT = {'chromatic_dispersion': 'cd', 'pmd': 'pmd', 'pdl': 'pdl'}


# ------------------------------------------------------------------------------------------------------ projection
def inv9(db):
    """dB -> reciprocal linear value in units of 1e-9 (integer)"""
    if db is None:
        return 0
    v = 10 ** (-float(db) / 10) * 1e9
    if v >= INF:
        raise Machinery(f'reciprocal figure out of range for {db} dB')
    return int(round(v))


def mhz(f):
    """Hz -> integer MHz (carrier frequencies and range boundaries are only compared)"""
    v = float(f) / 1e6
    if abs(v - round(v)) > 1e-3:
        raise Machinery(f'frequency not representable in MHz: {f}')
    return int(round(v))


def arr_udb(a, n):
    a = np.broadcast_to(np.asarray(a, dtype=float), (n,))
    return [udb(x) for x in a]


def table_int(tab, impairment):
    """normalised penalty table of a loaded mode ({'up_to_boundary': [...], 'penalty_value': [...]}) -> integer table"""
    if not tab:
        return {'x': [], 'y': []}
    u = UNIT[impairment]
    xs = [x * u for x in tab['up_to_boundary']]
    if any(abs(x - round(x)) > 1e-6 for x in xs):
        raise Machinery(f'penalty knot not representable in table units: {tab["up_to_boundary"]}')
    return {'x': [int(round(x)) for x in xs], 'y': [udb(y) for y in tab['penalty_value']]}


def points_int(penalties_list, impairment):
    """the points of one impairment exactly as WRITTEN in the equipment JSON (list of {impairment: x, penalty_value: y},
    any order) -> [{'x': int, 'y': int}, ...] in the same order; ordering / the 0 boundary are the specification's job"""
    u = UNIT[impairment]
    out = []
    for p in penalties_list or []:
        if impairment in p:
            x = p[impairment] * u
            if abs(x - round(x)) > 1e-6:
                raise Machinery(f'penalty boundary not representable in table units: {p}')
            out.append({'x': int(round(x)), 'y': udb(p['penalty_value'])})
    return out


def table_of_points(pts):
    """mirror of FeasibilityOps.TableOf, used ONLY for the reported projection error (not for a verdict)"""
    pts = list(pts)
    if pts and all(p['x'] > 0 for p in pts):
        pts.append({'x': 0, 'y': 0})
    pts.sort(key=lambda p: p['x'])
    return {'x': [p['x'] for p in pts], 'y': [p['y'] for p in pts]}


# -------------------------------------------------------------------------------------------------------- recorder
class RxRecorder(contextlib.AbstractContextManager):
    """records every recomputation of receiver figures: Transceiver.update_snr followed by calc_penalties on an object
    that received a spectrum with noise.  The line-only figure is taken from the SpectralInformation handed to the
    transceiver (signal / (ase + nli) referred to 0.1 nm), not from the transceiver's own raw_* attributes."""

    def __init__(self):
        self.evals = []
        self._line = {}
        self._freq = {}
        self._nup = {}
        self._pending = {}
        self._keep = []
        self._saved = []
        self._mod_saved = []
        self._ctx = None            # request_id of the propagate / propagate_and_optimize_mode call in progress

    def __enter__(self):
        from gnpy.core.elements import Transceiver
        import gnpy.topology.request as rq
        rec = self
        for fname in ('propagate', 'propagate_and_optimize_mode'):
            orig = getattr(rq, fname)

            def mk(orig):
                def wrapped(path, req, equipment):
                    prev, rec._ctx = rec._ctx, str(req.request_id)
                    try:
                        return orig(path, req, equipment)
                    finally:
                        rec._ctx = prev
                return wrapped
            self._mod_saved.append((fname, orig))
            setattr(rq, fname, mk(orig))
        o_call, o_upd, o_pen = Transceiver.__call__, Transceiver.update_snr, Transceiver.calc_penalties

        def call(el, spectral_info):
            out = o_call(el, spectral_info)
            with np.errstate(divide='ignore', invalid='ignore'):
                noise = np.asarray(spectral_info.ase) + np.asarray(spectral_info.nli)
                line = noise / np.asarray(spectral_info.signal) * 12.5e9 / np.asarray(spectral_info.baud_rate)
            rec._line[id(el)] = np.array(line, copy=True)
            rec._freq[id(el)] = np.array(spectral_info.frequency, dtype=float, copy=True)
            rec._keep.append(el)
            return out

        def upd(el, *args):
            o_upd(el, *args)
            rec._nup[id(el)] = rec._nup.get(id(el), 0) + 1
            rec._pending[id(el)] = dict(nup=rec._nup[id(el)], nargs=sum(a is not None for a in args),
                                        rx=np.array(el.snr_01nm, dtype=float, copy=True))

        def pen(el, penalties):
            o_pen(el, penalties)
            p = rec._pending.pop(id(el), None)
            line = rec._line.get(id(el))
            if p is None or line is None or not np.any(line > 0):
                return                      # the emitting transceiver (no noise yet) or a call outside the protocol
            n = len(p['rx'])
            ev = dict(uid=el.uid, obj=id(el), req=rec._ctx, nup=p['nup'], nargs=p['nargs'], pen_id=id(penalties), line=line,
                      freq=rec._freq[id(el)],
                      rx=p['rx'], baud=float(np.asarray(el.baud_rate).flat[0]),
                      cd=np.array(el.chromatic_dispersion, dtype=float, copy=True),
                      pmd=np.array(el.pmd, dtype=float, copy=True), pdl=np.array(el.pdl, dtype=float, copy=True),
                      pens={k: np.broadcast_to(np.asarray(v, dtype=float), (n,)).copy() for k, v in el.penalties.items()},
                      tot=np.broadcast_to(np.asarray(el.total_penalty, dtype=float), (n,)).copy())
            rec.evals.append(ev)

        for name, orig, new in (('__call__', o_call, call), ('update_snr', o_upd, upd), ('calc_penalties', o_pen, pen)):
            self._saved.append((name, orig))
            setattr(Transceiver, name, new)
        return self

    def __exit__(self, *exc):
        from gnpy.core.elements import Transceiver
        import gnpy.topology.request as rq
        for fname, orig in self._mod_saved:
            setattr(rq, fname, orig)
        self._mod_saved = []
        for name, orig in self._saved:
            setattr(Transceiver, name, orig)
        self._saved = []
        return False

    def take(self):
        ev, self.evals = self.evals, []
        return ev


def project_eval(ev, mode_idx, direction, kind):
    """one recomputation of receiver figures -> integer record for Trace_Feasibility"""
    n = len(ev['rx'])
    out = dict(ran=1, kind=kind, mode=mode_idx, dir=direction, nup=ev['nup'],
               line=[int(round(float(x) * 1e9)) for x in ev['line']], freq=[mhz(x) for x in ev['freq']],
               rx=[inv9(x) for x in ev['rx']], rxdb=[udb(x) for x in ev['rx']],
               cd=[int(round(float(x) * UNIT['chromatic_dispersion'])) for x in ev['cd']],
               pmd=[int(round(float(x) * UNIT['pmd'])) for x in ev['pmd']],
               pdl=[int(round(float(x) * UNIT['pdl'])) for x in ev['pdl']],
               tot=arr_udb(ev['tot'], n))
    for imp, short in SHORT.items():
        out['p' + short] = arr_udb(ev['pens'][imp], n) if imp in ev['pens'] else [0] * n
    return out


NOT_RUN = dict(ran=0, kind=0, mode=0, dir=0, nup=0, line=[], freq=[], rx=[], rxdb=[], cd=[], pmd=[], pdl=[], tot=[],
               pcd=[], ppmd=[], ppdl=[])


def worst_db(ev):
    """float worst channel of an evaluation: used ONLY to place thresholds around the measured metric"""
    with np.errstate(invalid='ignore'):
        return float(np.min(ev['rx'] - ev['tot']))


# ----------------------------------------------------------------------------------------------------------- bench
def service(rid, src, dst, mode, bidir, spacing, trx=TRX, via=()):
    """via: ROADM uids the route must include (STRICT), in order"""
    d = {'request-id': str(rid), 'source': src, 'destination': dst, 'src-tp-id': src, 'dst-tp-id': dst,
         'bidirectional': bool(bidir),
         'path-constraints': {'te-bandwidth': {'technology': 'flexi-grid', 'trx_type': trx, 'trx_mode': mode,
                                               'spacing': spacing, 'path_bandwidth': 100e9}}}
    if via:
        d['explicit-route-objects'] = {'route-object-include-exclude': [
            {'explicit-route-usage': 'route-include-ero', 'index': i,
             'num-unnum-hop': {'node-id': node, 'link-tp-id': 'link-tp-id is not used', 'hop-type': 'STRICT'}}
            for i, node in enumerate(via)]}
    return d


def spectrum_partitions(baud, slot, tx_osnrs, f0=191.4e12, width=2.0e12, gap=0.1e12):
    """user-defined spectrum (the JSON form of a spectrum file): consecutive partitions of `width` Hz, one per tx_osnr"""
    return [{'f_min': f0 + k * (width + gap), 'f_max': f0 + k * (width + gap) + width, 'baud_rate': baud,
             'slot_width': slot, 'roll_off': 0.15, 'tx_osnr': t, 'label': f'part{k}'} for k, t in enumerate(tx_osnrs)]


def spectrum_carriers_tx(partitions):
    """reciprocal transmitter OSNR per carrier, in frequency order, read from the spectrum AS WRITTEN (one carrier
    every slot_width from f_min to f_max of each partition)"""
    out = []
    for part in sorted(partitions, key=lambda q: q['f_min']):
        n = int((part['f_max'] - part['f_min']) // part['slot_width']) + 1
        out += [inv9(part.get('tx_osnr', 40))] * n
    return out


def load_spectrum(partitions):
    """the implementation's own loader of a spectrum description"""
    from gnpy.tools.json_io import _spectrum_from_json
    return _spectrum_from_json(copy.deepcopy(partitions))


BAND = {'lower-frequency': 191.3e12, 'upper-frequency': 196.1e12}


def osnr_profiles(listed):
    """[(id, 'add'|'drop', osnr), ...] in LISTED order -> roadm-path-impairments of an equipment Roadm entry.
    osnr: a value in dB (one range covering the band) or the frequency ranges of the profile AS LISTED,
    [(lower Hz, upper Hz, osnr dB or None), ...] - they may overlap"""
    def ranges(osnr):
        if not isinstance(osnr, (list, tuple)):
            return [{'frequency-range': dict(BAND), 'roadm-osnr': osnr}]
        return [dict({'frequency-range': {'lower-frequency': lo, 'upper-frequency': hi}},
                     **({} if o is None else {'roadm-osnr': o})) for lo, hi, o in osnr]
    return [{'roadm-path-impairments-id': i, f'roadm-{kind}-path': ranges(osnr)} for i, kind, osnr in listed]


class Bench:
    """one designed network; the transceiver library and the system margin are swapped per scenario by rebuilding the
    equipment dictionary from the (modified) equipment JSON with the real loader - neither enters the design."""

    def __init__(self, name, eqpt_file, topo_file, add_drop_osnr=None, detailed_sites=(), detailed_osnr=(39.0, 43.0),
                 extra_fibers=(), roadm_profiles=None, per_degree=None):
        """topo_file: a file name under example-data or a topology dict (synthetic networks)
        roadm_profiles: roadm-path-impairments given to the default ROADM type (see osnr_profiles)
        per_degree: {roadm uid: [{'from_degree', 'to_degree', 'impairment_id'}, ...]} written into the topology"""
        from gnpy.tools.json_io import load_json, network_from_json
        from gnpy.tools.worker_utils import designed_network
        from gnpy.topology.spectrum_assignment import build_oms_list
        self.name = name
        self.ej = load_json(EX / eqpt_file)
        self.ej.pop('library-information', None)
        self.ej['Fiber'] = list(self.ej['Fiber']) + [dict(f) for f in extra_fibers]
        for r in self.ej['Roadm']:
            if roadm_profiles is not None and 'type_variety' not in r:
                r['roadm-path-impairments'] = copy.deepcopy(roadm_profiles)
                continue
            if add_drop_osnr is not None and not r.get('roadm-path-impairments'):
                r['add_drop_osnr'] = add_drop_osnr
            for prof in r.get('roadm-path-impairments', []):
                for key, val in (('roadm-add-path', detailed_osnr[0]), ('roadm-drop-path', detailed_osnr[1])):
                    for band in prof.get(key, []):
                        band['roadm-osnr'] = val
        topo = copy.deepcopy(topo_file) if isinstance(topo_file, dict) else load_json(EX / topo_file)
        for e in topo['elements']:
            if e['type'] == 'Roadm' and e['uid'] in detailed_sites:
                e['type_variety'] = 'detailed_impairments'
            if e['type'] == 'Roadm' and e['uid'] in (per_degree or {}):
                e.setdefault('params', {})['per_degree_impairments'] = copy.deepcopy(per_degree[e['uid']])
        self.topo = topo
        self.roadm_type = {e['uid']: e.get('type_variety', 'default') for e in topo['elements'] if e['type'] == 'Roadm'}
        self.eq0 = self.equipment([], None)
        self.net = network_from_json(topo, self.eq0)
        self.net, _, _ = designed_network(self.eq0, self.net)
        build_oms_list(self.net, self.eq0)
        self.default_margin = self.ej['SI'][0]['sys_margins']       # as written (shipped libraries: one SI entry)
        self.roll_off = self.eq0['SI']['default'].roll_off
        self._paths = {}
        self._pristine = {}

    def si_entries(self, sys_margins=None, si_layout='file'):
        """the SI list written into the equipment JSON.  'file': as shipped (margin replaced when given); 'named': two
        entries, both explicitly named, the documented default (first listed) with the wanted margin and a second one
        with 4 dB more; 'default-second': an entry with 4 dB more listed first, the one named "default" second"""
        base = copy.deepcopy(self.ej['SI'])
        m = base[0]['sys_margins'] if sys_margins is None else sys_margins
        base[0]['sys_margins'] = m
        if si_layout == 'file':
            return base
        other = dict(copy.deepcopy(base[0]), sys_margins=m + 4.0)
        if si_layout == 'named':
            return [dict(base[0], type_variety='cband'), dict(other, type_variety='lband')]
        return [dict(other, type_variety='lband'), dict(base[0], type_variety='default')]

    def equipment(self, modes, sys_margins, si_layout='file'):
        from gnpy.tools.json_io import _equipment_from_json, DEFAULT_EXTRA_CONFIG
        # the loader rewrites Transceiver entries only (measured): everything else can be shared between calls
        ej = dict(self.ej)
        ej['SI'] = self.si_entries(sys_margins, si_layout)
        ej['Transceiver'] = copy.deepcopy([t for t in self.ej['Transceiver'] if t['type_variety'] != TRX])
        ej['Transceiver'].append({'type_variety': TRX, 'frequency': {'min': 191.35e12, 'max': 196.1e12},
                                  'mode': copy.deepcopy(modes)})
        return _equipment_from_json(ej, DEFAULT_EXTRA_CONFIG)

    def trx_uids(self):
        from gnpy.core.elements import Transceiver
        return sorted(n.uid for n in self.net.nodes() if isinstance(n, Transceiver))

    def path(self, src, dst, spacing, via=()):
        """the route the implementation computes for the pair, possibly constrained to include ROADMs (elements of
        the designed network); [] when the router finds none"""
        from gnpy.tools.json_io import requests_from_json
        from gnpy.topology.request import compute_path_dsjctn, correct_json_route_list
        key = (src, dst, tuple(via))
        if key not in self._paths:
            eq = self.equipment([base_mode('probe', 32e9, 100e9, 37.5e9)], None)
            rqs = requests_from_json({'path-request': [service(0, src, dst, 'probe', False, 50e9, via=via)]}, eq)
            rqs = correct_json_route_list(self.net, rqs)
            self._paths[key] = compute_path_dsjctn(self.net, eq, rqs, [])[0]
        return self._paths[key]

    def alternative_routes(self, src, dst):
        """include-node constraints (one ROADM) that make the router take a route other than the shortest"""
        from gnpy.core.elements import Roadm
        base = [e.uid for e in self.path(src, dst, 50e9)]
        out, seen = [], {tuple(base)}
        for r in sorted(n.uid for n in self.net.nodes() if isinstance(n, Roadm)):
            if r in base[:2] or r in base[-2:]:
                continue
            try:
                p = [e.uid for e in self.path(src, dst, 50e9, via=(r,))]
            except Exception:                                    # noqa - the router refuses the constraint
                continue
            if p and tuple(p) not in seen:
                seen.add(tuple(p))
                out.append((r,))
        return out

    def stages(self, path):
        """CONFIGURATION of every add / drop stage on the path, for FeasibilityOps.StageInv: read from the equipment
        JSON (profiles of the ROADM's type as listed, default add_drop_osnr) and the topology JSON (profile selected
        for the pair of degrees), by the position of the ROADM on the path (right after / before a transceiver)"""
        from gnpy.core.elements import Roadm, Transceiver
        from harness.gnpy_util import NONE
        topo_el = {e['uid']: e for e in self.topo['elements']}
        out = []
        for k, el in enumerate(path):
            if not isinstance(el, Roadm):
                continue
            kind = 'add' if isinstance(path[k - 1], Transceiver) else 'drop' if isinstance(path[k + 1], Transceiver) \
                else None
            if kind is None:
                continue
            tv = self.roadm_type[el.uid]
            entry = next(r for r in self.ej['Roadm'] if r.get('type_variety', 'default') == tv)
            profiles = []
            for prof in entry.get('roadm-path-impairments', []):
                for pk in ('add', 'drop', 'express'):
                    bands = prof.get(f'roadm-{pk}-path')
                    if bands:
                        profiles.append({'id': prof['roadm-path-impairments-id'], 'kind': pk, 'ranges': [
                            {'lo': mhz(b['frequency-range']['lower-frequency']),
                             'hi': mhz(b['frequency-range']['upper-frequency']),
                             'inv': inv9(b['roadm-osnr']) if b.get('roadm-osnr') is not None else NONE}
                            for b in bands]})       # the ranges as listed
            sel = NONE
            for pd in topo_el[el.uid].get('params', {}).get('per_degree_impairments', []):
                if pd['from_degree'] == path[k - 1].uid and pd['to_degree'] == path[k + 1].uid:
                    sel = pd['impairment_id']
            out.append({'kind': kind, 'sel': sel, 'profiles': profiles,
                        'dflt': inv9(entry.get('add_drop_osnr', 100) + LOG2)})
        return out

    def pristine(self, src, dst, direction, spacing, mode_json, via=(), spectrum=None):
        """mode propagated ALONE on a fresh deepcopy of the (reverse) path with the implementation's propagate();
        cached by everything that can influence the figures (thresholds and min_spacing cannot)"""
        from gnpy.tools.json_io import requests_from_json
        from gnpy.topology.request import propagate, find_reversed_path
        phys = {k: mode_json.get(k) for k in ('baud_rate', 'roll_off', 'tx_osnr', 'equalization_offset_db', 'penalties')}
        key = (src, dst, tuple(via), direction, spacing, json.dumps(phys, sort_keys=True),
               json.dumps(spectrum, sort_keys=True))
        if key not in self._pristine:
            m = dict(copy.deepcopy(mode_json), format='solo', OSNR=0, min_spacing=min(mode_json['min_spacing'], spacing))
            eq = self.equipment([m], None)
            req = requests_from_json({'path-request': [service('solo', src, dst, 'solo', False, spacing)]}, eq)[0]
            if spectrum:
                req.initial_spectrum = load_spectrum(spectrum)
            p = self.path(src, dst, spacing, via)
            p = fresh_copy(find_reversed_path(p) if direction else p)
            with RxRecorder() as rec:
                propagate(p, req, eq)
            evs = rec.take()
            if len(evs) != 1 or evs[0]['uid'] != (src if direction else dst):
                raise Machinery(f'pristine propagation of {src}->{dst} recorded {len(evs)} receiver evaluations')
            self._pristine[key] = evs[0]
        return self._pristine[key]


def fresh_copy(path):
    """fresh copies of the elements of a path (what propagation reads and writes); the OMS bookkeeping objects the
    elements point to (spectrum assignment, not touched by propagation) are shared instead of being copied with the
    whole network they reference"""
    memo = {id(el.oms): el.oms for el in path if hasattr(el, 'oms')}
    return copy.deepcopy(path, memo)


def line_topology(sites, hops):
    """legacy topology JSON of a line of ROADM sites.  hops[k] = (spans towards the next site, spans back), each a list
    of (km, fibre type_variety, extra fibre params): the two directions may differ (lengths, types, dispersion slope)"""
    els, cx = [], []
    for s in sites:
        els.append({'uid': f'trx {s}', 'type': 'Transceiver'})
        els.append({'uid': f'roadm {s}', 'type': 'Roadm'})
        cx += [(f'trx {s}', f'roadm {s}'), (f'roadm {s}', f'trx {s}')]
    for k, (fwd, back) in enumerate(hops):
        for a, b, spans in ((sites[k], sites[k + 1], fwd), (sites[k + 1], sites[k], back)):
            prev = f'roadm {a}'
            for j, (km, variety, extra) in enumerate(spans):
                uid = f'fiber ({a} -> {b}) {j}'
                els.append({'uid': uid, 'type': 'Fiber', 'type_variety': variety,
                            'params': dict({'length': km, 'length_units': 'km', 'loss_coef': 0.2, 'con_in': 0.5,
                                            'con_out': 0.5}, **extra)})
                cx.append((prev, uid))
                prev = uid
            cx.append((prev, f'roadm {b}'))
    return {'elements': els, 'connections': [{'from_node': a, 'to_node': b} for a, b in cx]}


# ------------------------------------------------------------------------------------------------------- libraries
def base_mode(fmt, baud, rate, min_spacing, osnr=0.0, tx_osnr=40.0, offset=0.0, penalties=None, roll_off=0.15):
    d = dict(format=fmt, baud_rate=baud, OSNR=osnr, bit_rate=rate, roll_off=roll_off, tx_osnr=tx_osnr,
             min_spacing=min_spacing, cost=1)
    if offset:
        d['equalization_offset_db'] = offset
    if penalties:
        d['penalties'] = penalties
    return d


def penalties_json(cd=None, pmd=None, pdl=None, listing='asc', rng=None):
    """[(x, y), ...] per impairment -> the list-of-dicts form of the equipment file.  listing: the order in which the
    points of each impairment are written ('asc', 'desc', 'shuffled'); 'mixed' also interleaves the impairments"""
    out = []
    for name, pts in (('chromatic_dispersion', cd), ('pmd', pmd), ('pdl', pdl)):
        pts = list(pts or [])
        if listing == 'desc':
            pts.reverse()
        elif listing in ('shuffled', 'mixed'):
            rng.shuffle(pts)
        for x, y in pts:
            out.append({name: x, 'penalty_value': y})
    if listing == 'mixed':
        rng.shuffle(out)
    return out


def run_request(bench, eq, src, dst, fixed_format, bidir, spacing):
    """the real thing: requests_from_json + compute_path_with_disjunction (what worker_utils.planning runs) under
    the receiver recorder.  Returns (request, evaluations, exception text or None)"""
    from gnpy.tools.json_io import requests_from_json
    from gnpy.topology.request import compute_path_with_disjunction, correct_json_route_list
    rqs = requests_from_json({'path-request': [service('r', src, dst, fixed_format, bidir, spacing)]}, eq)
    rqs = correct_json_route_list(bench.net, rqs)
    pths = [bench.path(src, dst, spacing)]
    exc = None
    with RxRecorder() as rec:
        try:
            compute_path_with_disjunction(bench.net, eq, rqs, pths)
        except Exception as e:                                   # noqa - an exception on a valid request is a finding
            exc = f'{type(e).__name__}: {e}'
    return rqs[0], rec.take(), exc


def run_batch(bench, eq, src, dst, fixed_format, flags, spacing, vias, spectrum=None):
    """the services of ONE service file - identical but for their route constraint (vias[i]) and their bidirectional
    flag (flags[i]) - through the steps of worker_utils.planning up to the verdict: requests_from_json,
    correct_json_route_list, requests_aggregation, then compute_path_with_disjunction on the routes of the resulting
    requests.  Returns (requests after aggregation, [index of the request serving service i], evaluations tagged with
    the request id, exception text, the three result lists)"""
    from gnpy.tools.json_io import requests_from_json
    from gnpy.topology.request import compute_path_with_disjunction, correct_json_route_list, requests_aggregation
    rqs = requests_from_json({'path-request': [service(f'r{i}', src, dst, fixed_format, f, spacing, via=v)
                                               for i, (v, f) in enumerate(zip(vias, flags))]}, eq)
    rqs = correct_json_route_list(bench.net, rqs)
    exc, res, serving = None, None, list(range(len(vias)))
    with RxRecorder() as rec:
        try:
            rqs, _ = requests_aggregation(rqs, [])
            ids = [str(r.request_id).split(' | ') for r in rqs]
            serving = [next(k for k, group in enumerate(ids) if f'r{i}' in group) for i in range(len(vias))]
            if spectrum:
                for r in rqs:
                    r.initial_spectrum = load_spectrum(spectrum)
            pths = [bench.path(src, dst, spacing, vias[serving.index(k)]) for k in range(len(rqs))]
            res = compute_path_with_disjunction(bench.net, eq, rqs, pths)
        except Exception as e:                                   # noqa - an exception on a valid request is a finding
            exc = f'{type(e).__name__}: {e}'
    return rqs, serving, rec.take(), exc, res


def project_reported(receiver, mode_idx):
    """the receiver figures of the reverse path RETURNED for a request (what its verdict was taken on)"""
    n = len(receiver.snr_01nm)
    return dict(kind=2, mode=mode_idx, dir=1, rxdb=[udb(x) for x in receiver.snr_01nm],
                tot=arr_udb(receiver.total_penalty, n))


def si_int(entries):
    """SI entries as WRITTEN -> [{'dflt': bool, 'margin': micro-dB}] for FeasibilityOps.DefaultMargin"""
    return [{'dflt': e.get('type_variety', 'default') == 'default', 'margin': udb(e['sys_margins'])} for e in entries]


def stage_inv(st, f):
    """mirror of FeasibilityOps.StageInv, used ONLY for the reported composition deviation (not for a verdict)"""
    from harness.gnpy_util import NONE
    if st['sel'] != NONE:
        prof = next(p for p in st['profiles'] if p['id'] == st['sel'])
    else:
        same = [p for p in st['profiles'] if p['kind'] == st['kind']]
        if not same:
            return st['dflt']
        prof = same[0]
    return next((r['inv'] for r in prof['ranges'] if r['lo'] <= f <= r['hi'] and r['inv'] != NONE), 0)


def outcome_of(req, eq, exc):
    """(selected mode index (1-based, 0 none), blocking reason or 'none')"""
    if exc:
        return 0, 'EXC ' + exc.split(':')[0]
    formats = [m['format'] for m in eq['Transceiver'][TRX].mode]
    sel = formats.index(req.tsp_mode) + 1 if req.tsp_mode in formats else 0
    return sel, getattr(req, 'blocking_reason', None) or 'none'
