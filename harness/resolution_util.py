"""Request resolution (spec/RequestResolution.tla): service request document + equipment library -> resolved PathRequest.

B1  MC_RequestResolution: every request over a small vocabulary against a two-transceiver library, the lemmas of
    RequestResolution.tla as invariants, witnesses for every rule / lemma antecedent / recorded surprise as ASSUMEs.
B2  TLC emits the library once (Header) and one `[c |-> case, e |-> expected outcome]` per case.  Each case is turned
    into a real equipment dict (an equipment JSON document derived from example-data/eqpt_config.json whose Transceiver
    list and SI entry come from the emitted library, loaded by gnpy.tools.json_io._equipment_from_json) and a real service
    document, resolved by the real gnpy.tools.json_io.requests_from_json, projected into the specification's integer
    record and compared with TLC's expectation field by field.  Python only encodes and projects.

Run alone:  PYTHONPATH=/verif /venv/bin/python -m harness.resolution_util [--mutant NAME]
"""
import json
import math
import os
import tempfile
from pathlib import Path

from harness import tlc
from harness.core import Check, Machinery
from harness.gnpy_util import EX, NONE, INF

NO_NAME = '-'
MHZ = 1e6
# the part of an exception's text that names the rule which refused the request (projection of the message)
RULE_TEXT = (('has no transceiver type defined', 'NoType'),
             ('greater than min_spacing', 'BaudAboveMinSpacing'),
             ('with mode', 'UnknownMode'),
             ('Could not find transponder', 'UnknownType'),
             ('has spacing below transponder', 'SpacingBelowMin'),
             ('is not consistent with frequency range', 'TooManyChannels'),
             ('nb of channels while', 'NotEnoughSlots'),
             ('overlap', 'Overlap'))


# ---- spec -> gnpy: concretisation --------------------------------------------------------------------------------
def equipment_document(lib, si):
    """the example equipment document with the emitted transceiver library and SI powers"""
    doc = json.loads((EX / 'eqpt_config.json').read_text())
    trxs = []
    for name, t in sorted(lib.items()):
        modes = []
        for mname, m in sorted(t['modes'].items()):
            mode = {'format': mname, 'baud_rate': m['baud'] * MHZ, 'OSNR': m['osnr'] / 1e6, 'bit_rate': m['bitrate'] * 1e9,
                    'roll_off': m['rolloff'] / 1000, 'tx_osnr': m['txosnr'] / 1e6, 'min_spacing': m['minsp'] * MHZ,
                    'cost': m['cost']}
            if m['offset'] != 0:                                  # 0 is the loader's default: leave the key out
                mode['equalization_offset_db'] = m['offset'] / 1e6
            modes.append(mode)
        trxs.append({'type_variety': name, 'frequency': {'min': t['fmin'] * MHZ, 'max': t['fmax'] * MHZ}, 'mode': modes})
    doc['Transceiver'] = trxs
    entry = dict(doc['SI'][0])
    entry['power_dbm'] = si['power'] / 1e6
    entry.pop('tx_power_dbm', None)
    if si['txpower'] != NONE:
        entry['tx_power_dbm'] = si['txpower'] / 1e6
    doc['SI'] = [entry]
    return doc


def load_library(lib, si):
    """write the document under build/, read it back and build the equipment dict with the real loader.  The in-memory
    entry (_equipment_from_json, what load_eqpt_topo_from_json calls) is used rather than load_equipment: the YANG
    validation load_equipment applies to FILES refuses a mode whose baud rate exceeds its min_spacing, which would leave
    the library sanity rule of trx_mode_params out of reach."""
    from gnpy.tools.json_io import load_json, _equipment_from_json
    from gnpy.tools.default_edfa_config import DEFAULT_EXTRA_CONFIG
    tlc.BUILD.mkdir(exist_ok=True)
    fd, name = tempfile.mkstemp(prefix='rr-eqpt-', suffix='.json', dir=tlc.BUILD)
    try:
        with os.fdopen(fd, 'w') as fh:
            json.dump(equipment_document(lib, si), fh)
        return _equipment_from_json(load_json(Path(name)), DEFAULT_EXTRA_CONFIG)
    finally:
        os.unlink(name)


def dbm_to_watt(udbm):
    return 10 ** (udbm / 1e6 / 10) * 1e-3


def service_document(c, variant):
    """one request; `variant` alternates between leaving an optional key out and writing null (same model input)"""
    te = {'technology': 'flexi-grid', 'trx_type': None if c['type'] == NO_NAME else c['type'],
          'spacing': c['spacing'] * MHZ, 'path_bandwidth': c['bw'] * 1e9}
    null_style = variant % 2 == 1

    def optional(key, absent, value):
        if not absent:
            te[key] = value
        elif null_style:
            te[key] = None
    optional('trx_mode', c['mode'] == NO_NAME, c['mode'])
    optional('max-nb-of-channel', c['nch'] == NONE, c['nch'])
    optional('output-power', c['power'] == NONE, dbm_to_watt(c['power']))
    optional('tx_power', c['txpower'] == NONE, dbm_to_watt(c['txpower']))
    if c['sk'] == 'null':
        te['effective-freq-slot'] = None
    elif c['sk'] == 'list':
        te['effective-freq-slot'] = [{k: (None if s[k] == NONE else s[k]) for k in ('N', 'M')} for s in c['slots']]
    return {'path-request': [{'request-id': '0', 'source': 'trx a', 'destination': 'trx b', 'src-tp-id': 'trx a',
                              'dst-tp-id': 'trx b', 'bidirectional': False, 'path-constraints': {'te-bandwidth': te}}]}


# ---- gnpy -> spec: projection -------------------------------------------------------------------------------------
class Projector:
    def __init__(self):
        self.inexact = []
        self.power_dev = 0.0          # worst distance of an observed power from the micro-dBm raster, in micro-dB

    def q(self, name, x, unit):
        if x is None:
            return NONE
        v = x / unit if unit >= 1 else x * round(1 / unit)
        r = round(v)
        if abs(v - r) > 1e-6:
            self.inexact.append(name)
        return r

    def udbm(self, watt):
        if watt is None:
            return NONE
        if not watt > 0:
            return -INF
        v = (10 * math.log10(watt) + 30) * 1e6
        self.power_dev = max(self.power_dev, abs(v - round(v)))
        return round(v)

    def request(self, pr):
        q = self.q
        has = hasattr(pr, 'N') and hasattr(pr, 'M')
        none = lambda v: NONE if v is None else v                                    # noqa: E731
        got = dict(status='ok', type=pr.tsp, mode=NO_NAME if pr.tsp_mode is None else pr.tsp_mode, format=pr.format,
                   baud=q('baud', pr.baud_rate, MHZ), minsp=q('minsp', pr.min_spacing, MHZ),
                   bitrate=q('bitrate', pr.bit_rate, 1e9), osnr=q('osnr', pr.OSNR, 1e-6), cost=q('cost', pr.cost, 1),
                   txosnr=q('txosnr', pr.tx_osnr, 1e-6), rolloff=q('rolloff', pr.roll_off, 1e-3),
                   offset=q('offset', pr.offset_db, 1e-6), spacing=q('spacing', pr.spacing, MHZ),
                   fmin=q('fmin', pr.f_min, MHZ), fmax=q('fmax', pr.f_max, MHZ), nch=q('nch', pr.nb_channel, 1),
                   power=self.udbm(pr.power), txpower=self.udbm(pr.tx_power), bw=q('bw', pr.path_bandwidth, 1e9),
                   hasSlots=has, N=[none(v) for v in pr.N] if has else [], M=[none(v) for v in pr.M] if has else [])
        return got


def project_exception(ex):
    text = str(ex)
    rule = next((r for pat, r in RULE_TEXT if pat in text), 'other')
    return dict(status='error', kind=type(ex).__name__, rule=rule)


def input_class(c):
    slots = c['sk'] if c['sk'] != 'list' else \
        f"{len(c['slots'])}slot{'' if all(s['M'] != NONE for s in c['slots']) else '-someM-absent'}"
    return f"{'mode' if c['mode'] != NO_NAME else 'nomode'},{'nch' if c['nch'] != NONE else 'auto'},{slots}"


def mismatch(c, e, got):
    """signature part naming what differs (the verdict itself is plain equality with TLC's expectation)"""
    if e['status'] != got['status']:
        return f"raises-{got['kind']}-{got['rule']}" if e['status'] == 'ok' else f"accepts-{e['rule']}"
    if e['status'] == 'error':
        return f"{e['kind']}-{e['rule']}-reported-as-{got['kind']}-{got['rule']}"
    return '+'.join(sorted(k for k in set(e) | set(got) if e.get(k) != got.get(k)))


# ---- the part -----------------------------------------------------------------------------------------------------
def run_part(chk):
    import gnpy.tools.json_io as jio
    # function-shaped, depth 1: one worker is the fastest (the initial states are computed by one thread anyway)
    r = tlc.run('MC_RequestResolution', timeout=600, workers=1, tag='request-resolution')
    chk.add_mc('MC_RequestResolution (lemmas on every request of the vocabulary + cases emitted)', r)
    heads = [x for x in r.emitted if 'lib' in x]
    cases = [x for x in r.emitted if 'c' in x]
    if len(heads) != 1 or not cases or len(cases) != r.distinct:
        raise Machinery(f'MC_RequestResolution: {len(heads)} header(s), {len(cases)} cases for {r.distinct} states')
    lib, sis = heads[0]['lib'], heads[0]['sis']
    eqpt = {}
    proj = Projector()
    n = 0
    for i, x in enumerate(cases):
        c, e = x['c'], x['e']
        if c['si'] not in eqpt:
            eqpt[c['si']] = load_library(lib, sis[c['si'] - 1])
        doc = service_document(c, i)
        proj.inexact = []
        try:
            reqs = jio.requests_from_json(doc, eqpt[c['si']])
        except Exception as ex:                                                       # noqa: any exception is an observation
            got = project_exception(ex)
        else:
            if len(reqs) != 1:
                raise Machinery(f'requests_from_json returned {len(reqs)} requests for one entry')
            got = proj.request(reqs[0])
            if proj.inexact:
                got['inexact'] = sorted(proj.inexact)
        key = json.dumps(c, sort_keys=True)
        chk.case(('request-resolution', key))
        n += 1
        if got != e:
            chk.violation(f'B2|RequestResolution|{mismatch(c, e, got)}|{input_class(c)}',
                          dict(case=c, si=sis[c['si'] - 1], expected=e, observed=got, document=doc))
        elif e['status'] == 'ok' and c['sk'] == 'list' and len(c['slots']) > 1:
            chk.sample(dict(kind='B2 request resolved by requests_from_json as RequestResolution.tla expects', case=c, outcome=e))
    chk.traces += n
    chk.cov['request_resolution_cases'] = n
    chk.cov['request_resolution_outcomes'] = {k: sum(1 for x in cases if (x['e'].get('rule') or 'ok') == k)
                                              for k in sorted({x['e'].get('rule') or 'ok' for x in cases})}
    chk.cov['request_resolution_power_tolerance_udB'] = 0.5
    chk.cov['request_resolution_power_worst_deviation_udB'] = proj.power_dev
    chk.assume('request resolution: one request per document; library = 2 transceiver types (4.75 THz and 0.4 THz ranges) with '
               '2-3 modes that all define min_spacing; spacings 37.5 / 40 / 75 GHz; max-nb-of-channel >= 1; path_bandwidth '
               'always given (100 / 300 Gbit/s); M >= 1 when given; at most 3 slots; route constraints not modelled')
    chk.assume('request resolution: frequencies, rates and spacings are exact integers of MHz / Gbit/s in doubles (equality is '
               'exact, a non-integer observation is flagged); powers are compared in micro-dBm after round() of '
               '10 log10(W) + 30 (tolerance 0.5 micro-dB; the worst measured distance from the raster is recorded); the rule '
               'that refused a request is read from the exception text')
    return n


# ---- mutants: realistic slips in the anchored code that the repository's tests do not notice -------------------------
def _rewrite(module, fname, old, new, count=1):
    import inspect
    import textwrap
    src = textwrap.dedent(inspect.getsource(getattr(module, fname)))
    if src.count(old) != count:
        raise Machinery(f'mutant: pattern {old!r} found {src.count(old)} time(s) in {fname}, expected {count}')
    ns = {}
    exec(compile(src.replace(old, new), f'<mutant {fname}>', 'exec'), module.__dict__, ns)
    setattr(module, fname, ns[fname])


def _mut_tx_power_ignores_si():
    """tx_power falls back to the request's power even when the SI defines tx_power_dbm"""
    import gnpy.tools.json_io as jio
    _rewrite(jio, 'requests_from_json', 'if default_tx_power_dbm is not None:', 'if default_tx_power_dbm is not None and False:')


def _mut_automatic_nch_plus_one():
    """automatic_nch counts the fence posts instead of the channels"""
    import gnpy.core.utils as U
    import gnpy.tools.json_io as jio

    def automatic_nch(f_min, f_max, spacing):
        return int((f_max - f_min) // spacing) + 1
    U.automatic_nch = jio.automatic_nch = automatic_nch


def _mut_min_spacing_ge():
    """a spacing equal to the mode's min_spacing is refused"""
    import gnpy.tools.json_io as jio
    _rewrite(jio, '_check_one_request', "params['min_spacing'] > params['spacing']", "params['min_spacing'] >= params['spacing']")


def _mut_overlap_strict():
    """two slots sharing exactly one index are not seen as overlapping"""
    import gnpy.tools.json_io as jio
    _rewrite(jio, '_check_one_request', 'if startn <= stop0n:', 'if startn < stop0n:')


def _mut_power_default_dbm():
    """the default power is taken from the SI in dBm and used as W"""
    import gnpy.tools.json_io as jio
    _rewrite(jio, 'requests_from_json', "params['power'] = dbm2watt(equipment['SI']['default'].power_dbm)",
             "params['power'] = equipment['SI']['default'].power_dbm")


def _mut_fmax_not_recomputed():
    """a given channel count no longer moves f_max: the comb is never compared with the transceiver's range"""
    import gnpy.tools.json_io as jio
    _rewrite(jio, 'requests_from_json', "params['f_max'] = automatic_fmax(f_min, spacing, nch)", 'pass')


def _mut_per_channel_m_floor():
    """the per-channel M is rounded down: a 40 GHz channel is counted as 3 slots of 12.5 GHz"""
    import gnpy.topology.request as R
    import gnpy.tools.json_io as jio

    def compute_spectrum_slot_vs_bandwidth(bandwidth, spacing, bit_rate, slot_width=0.0125e12):
        number_of_wavelengths = math.ceil(bandwidth / bit_rate)
        return number_of_wavelengths, int(spacing // slot_width) * number_of_wavelengths
    R.compute_spectrum_slot_vs_bandwidth = jio.compute_spectrum_slot_vs_bandwidth = compute_spectrum_slot_vs_bandwidth


MUTANTS = {'tx_power_ignores_si': _mut_tx_power_ignores_si, 'automatic_nch_plus_one': _mut_automatic_nch_plus_one,
           'min_spacing_ge': _mut_min_spacing_ge, 'overlap_strict': _mut_overlap_strict,
           'power_default_dbm': _mut_power_default_dbm, 'fmax_not_recomputed': _mut_fmax_not_recomputed,
           'per_channel_m_floor': _mut_per_channel_m_floor}


def main(argv=None):
    import argparse
    import time
    ap = argparse.ArgumentParser(description='request resolution part alone, with a throw-away Check')
    ap.add_argument('--mutant', choices=sorted(MUTANTS))
    a = ap.parse_args(argv)
    if a.mutant:
        MUTANTS[a.mutant]()
    chk = Check('C13', tier='quick')
    t0 = time.time()
    n = run_part(chk)
    sigs = {}
    for sig, _ in chk.violations:
        sigs[sig] = sigs.get(sig, 0) + 1
    mc = chk.mc_runs[0]
    print(f'request resolution{" [mutant " + a.mutant + "]" if a.mutant else ""}: cases={n} TLC states={mc["distinct"]} '
          f'TLC wall={mc["wall"]}s total wall={time.time() - t0:.1f}s violations={len(chk.violations)} '
          f'signatures={len(sigs)} worst power deviation={chk.cov["request_resolution_power_worst_deviation_udB"]:.2e} micro-dB')
    for sig, k in list(sigs.items())[:5]:
        print(f'  {sig}  ({k} case(s))')
    return 1 if chk.violations else 0


if __name__ == '__main__':
    raise SystemExit(main())
