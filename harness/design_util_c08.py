"""C08 helper: the second use of a network object.  A case of MC_DesignStructure with an extension `x` (DesignStructure.Extend)
is replayed as: designed_network() -> the announced fibre sections are spliced into the SAME networkx graph, each behind the
fibre named `at` (or behind the last of the spans that fibre was cut into) -> designed_network() again on that object.
Python only encodes (builds the elements, rewires the edge, projects); the verdict on both designs is Trace_Design's."""
from harness import design_util as du


def _last_span(net, uid):
    """the node a section announced 'behind fibre uid' is attached to: the fibre itself or its span (k/k)"""
    best = None
    for n in net.nodes():
        if n.uid == uid:
            return n
        m = du._SPLIT.match(n.uid) if isinstance(n.uid, str) else None
        if m and m.group(1) == uid and m.group(2) == m.group(3):
            best = n
    return best


def extend(net, equipment, case):
    """DesignStructure.Extend on the real graph: every section of case['x'] is loaded like any topology element
    (network_from_json of a one-element document) and put on the edge leaving the span it goes behind"""
    from gnpy.tools.json_io import network_from_json
    from harness.core import Machinery
    for x in case['x']:
        doc = du.render_topology({'g': [dict(x['e'], s=[])], 's': case['s']})
        new = next(iter(network_from_json(doc, equipment).nodes()))
        at = _last_span(net, x['at'])
        if at is None:
            raise Machinery(f"extension: no fibre {x['at']} in the designed network")
        nxt = next(net.successors(at))
        net.remove_edge(at, nxt)
        net.add_node(new)
        net.add_edge(at, new, weight=at.params.length)
        net.add_edge(new, nxt, weight=new.params.length)


def design_extend_design(topo, equipment, case, **kw):
    """returns the events of the two uses of one network object: [Design g1] judged against the loaded topology (returned as
    `before`), [Design g2 with its own inp] judged against the extended graph the second design was given"""
    from gnpy.tools.worker_utils import designed_network
    before, names, net, _, _ = du.design(topo, equipment, **kw)
    ev = [dict(op='Design', g=du.project_network(net, names))]
    extend(net, equipment, case)
    names2 = {n.uid for n in net.nodes()}
    before2 = du.project_network(net, None)
    net, _, _ = designed_network(equipment, net, **kw)
    ev.append(dict(op='Design', g=du.project_network(net, names2), inp=before2))
    return before, ev
