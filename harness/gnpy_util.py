"""helpers shared by the drivers: equipment loading, synthetic topologies, projections"""
import copy
import json
import logging
import math
from functools import lru_cache
from pathlib import Path

import os
REPO = Path(os.environ.get('VERIF_REPO', '/repo'))
EX = REPO / 'gnpy' / 'example-data'
TD = REPO / 'tests' / 'data'
INF = 2_000_000_000
NONE = -9999

logging.disable(logging.CRITICAL)


def udb(x):
    """dB float -> micro-dB integer with +/-inf sentinels"""
    if x is None:
        return NONE
    x = float(x)
    if math.isnan(x):
        return -INF + 1
    if x == math.inf or x > 1999:
        return INF
    if x == -math.inf or x < -1999:
        return -INF
    return int(round(x * 1e6))


@lru_cache(maxsize=None)
def equipment(name='eqpt_config.json', extra=()):
    from gnpy.tools.json_io import load_equipments_and_configs
    p = EX / name if (EX / name).exists() else TD / name
    return load_equipments_and_configs(p, list(extra), [])


def line_or_mesh_json(sites, links, fiber_type='SSMF', loss_coef=0.2):
    """legacy topology JSON: one Transceiver + Roadm per site, one Fiber per direction per link (a, b, km)"""
    els, cx = [], []
    for s in sites:
        els.append({'uid': f'trx {s}', 'type': 'Transceiver'})
        els.append({'uid': f'roadm {s}', 'type': 'Roadm'})
        cx += [{'from_node': f'trx {s}', 'to_node': f'roadm {s}'}, {'from_node': f'roadm {s}', 'to_node': f'trx {s}'}]
    for (a, b, km) in links:
        for (x, y) in ((a, b), (b, a)):
            fid = f'fiber ({x} -> {y})'
            els.append({'uid': fid, 'type': 'Fiber', 'type_variety': fiber_type,
                        'params': {'length': km, 'length_units': 'km', 'loss_coef': loss_coef,
                                   'con_in': None, 'con_out': None}})
            cx += [{'from_node': f'roadm {x}', 'to_node': fid}, {'from_node': fid, 'to_node': f'roadm {y}'}]
    return {'elements': els, 'connections': cx}


def designed(json_data, eqpt, **kw):
    from gnpy.tools.json_io import network_from_json
    from gnpy.tools.worker_utils import designed_network
    net = network_from_json(copy.deepcopy(json_data), eqpt)
    net, req, ref = designed_network(eqpt, net, **kw)
    return net, req, ref


def node_map(net):
    return {n.uid: n for n in net.nodes()}
