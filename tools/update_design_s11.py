#!/venv/bin/python
"""tools/update_design_s11.py: (re)write DESIGN.md section 11 'which check catches which seeded change' from seeded/*/meta.json"""
import json
import re
from pathlib import Path

rows, per = [], {}
for d in sorted(Path('/verif/seeded').iterdir(), key=lambda p: (p.name.split('-')[0], int(p.name.split('-')[1]))):
    m = json.loads((d / 'meta.json').read_text())
    ch = m.get('checks', {})
    det = [c for c, v in ch.items() if v.get('detected')]
    sig = next((v for c in det for v in ch[c].get('violations', [])[:1]), '')
    sig = re.sub(r' \(\d+ case\(s\)\)$', '', sig)
    pid = d.name.split('-')[0]
    per.setdefault(pid, [0, 0])
    per[pid][0] += 1
    per[pid][1] += bool(det)
    rows.append(f"| {d.name} | {m.get('title', '')[:110]} | {m.get('needs', '')[:110]} | "
                f"{', '.join(det) if det else '**missed**'} | `{sig[:100]}` |".replace('\n', ' '))
n = len(rows)
k = sum(v[1] for v in per.values())
head = f"""## 11. Which check catches which seeded change

Independent developers (sub-agents that saw only the text of one property and a scratch worktree, nothing of /verif) produced
changes to oopt-gnpy that break the property while the package still imports and the repository's test-suite still passes; each
kept change was confirmed here (demonstration passes on the unchanged tree and fails with the change; test-suite unchanged) and is
stored in `seeded/<id>/` (`patch.diff`, `demo.py`, `meta.json`). The table is generated from the `checks` block of every
`meta.json`, which `tools/recheck_seeds.sh` refreshes by running the QUICK tier of the property's check against the change in a
scratch worktree (`VERIF_REPO`); "detected" means exit 1 with a VIOLATION line whose signature the unchanged tree does not show.
**{k} of {n}** confirmed changes are detected by the quick tier of their own property's check
({', '.join(f'{p} {v[1]}/{v[0]}' for p, v in sorted(per.items()))}).

| seed | change | needs, in order to manifest | detected by | first violation signature |
|---|---|---|---|---|
"""
sec = head + '\n'.join(rows) + '\n'
p = Path('/verif/DESIGN.md')
s = p.read_text()
if '## 11. Which check catches which seeded change' in s:
    s = s[:s.index('## 11. Which check catches which seeded change')].rstrip('\n') + '\n\n' + sec
else:
    s = s.rstrip('\n') + '\n\n' + '-' * 99 + '\n\n' + sec
p.write_text(s)
print(f'{k} of {n} detected')
