#!/venv/bin/python
"""tools/manifest_add.py ID 'level text' 'level note' 'technique' 'design ref' - add or replace a check entry"""
import json, sys
pid, text, note, tech, ref = sys.argv[1:6]
m = json.load(open('/verif/MANIFEST.json'))
m['checks'] = [c for c in m['checks'] if c['property_id'] != pid]
m['checks'].append({"property_id": pid, "quick_cmd": f"bin/verif check {pid} --tier quick",
                    "thorough_cmd": f"bin/verif check {pid} --tier thorough",
                    "evidence_file": f"/verif/evidence/{pid}.json",
                    "replay_cmd_template": f"bin/verif check {pid} --replay {{path}}", "engine": "tlc-harness",
                    "level_claimed": {"category": "model_checking", "text": text, "design_ref": ref},
                    "level_note": note, "technique": tech})
m['checks'].sort(key=lambda c: c['property_id'])
m['engines'][0]['serves_properties'] = [c['property_id'] for c in m['checks']]
m['not_applicable'] = [n for n in m.get('not_applicable', []) if n['property_id'] != pid]
json.dump(m, open('/verif/MANIFEST.json', 'w'), indent=1)
print('checks:', [c['property_id'] for c in m['checks']])
