#!/venv/bin/python
"""print the markdown table 'which check catches which seeded change' from /verif/seeded/*/meta.json"""
import json
from pathlib import Path
rows = []
for d in sorted(Path('/verif/seeded').iterdir()):
    m = json.loads((d / 'meta.json').read_text())
    ch = m.get('checks', {})
    det = [c for c, v in ch.items() if v.get('detected')]
    viol = '; '.join(v for c in det for v in ch[c].get('violations', [])[:2])
    rows.append((d.name, m.get('title', '')[:90], ', '.join(m.get('files', []))[:60],
                 ('**' + ', '.join(det) + '**') if det else 'MISSED', viol[:160]))
print('| seed | change | file(s) | detected by | first violation signatures |')
print('|---|---|---|---|---|')
for r in rows:
    print('| ' + ' | '.join(x.replace('|', '\\|') for x in r) + ' |')
n = len(rows)
k = sum(1 for r in rows if r[3] != 'MISSED')
print(f'\n{k} of {n} confirmed seeded changes are detected by the quick tier.')
