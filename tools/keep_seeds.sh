#!/bin/sh
# tools/keep_seeds.sh <seed-dir>... : full confirmation (demo both ways, test-suite, checks) and copy to /verif/seeded/<name>/
mkdir -p /verif/build/seedres
for d in "$@"; do
  name=$(basename "$d")
  /verif/tools/seedcheck.py "$d" > /verif/build/seedres/$name.json 2>/verif/build/seedres/$name.err || { echo "$name: seedcheck failed"; continue; }
  /venv/bin/python - "$d" "$name" <<'PY'
import json, sys, shutil, pathlib
d, name = sys.argv[1], sys.argv[2]
txt = open(f'/verif/build/seedres/{name}.json').read()
res = json.loads(txt[txt.index('{'):])
ok = res.get('demo_clean_passes') and res.get('demo_patched_fails') and res.get('tests_pass_with_patch')
caught = {c: v['exit'] == 1 for c, v in res.get('checks', {}).items()}
print(name, 'confirmed' if ok else 'NOT CONFIRMED', 'caught' if any(caught.values()) else 'MISSED', {c: v['exit'] for c, v in res.get('checks', {}).items()}, res.get('tests_tail'))
if ok:
    out = pathlib.Path('/verif/seeded') / name
    out.mkdir(parents=True, exist_ok=True)
    for f in ('patch.diff', 'demo.py'):
        shutil.copy(pathlib.Path(d) / f, out / f)
    meta = json.loads((pathlib.Path(d) / 'meta.json').read_text())
    meta['confirmed'] = dict(demo_passes_on_unchanged_tree=True, demo_fails_with_change=True,
                             repository_tests_pass_with_change=res['tests_tail'],
                             ran='tools/seedcheck.py (scratch worktree: demo both ways, pytest -n 8, then bin/verif check with VERIF_REPO=<worktree>)')
    meta['checks'] = {c: dict(detected=v['exit'] == 1, violations=[x.split('#')[-1].strip() for x in v['violations'][:4]])
                      for c, v in res['checks'].items()}
    (out / 'meta.json').write_text(json.dumps(meta, indent=1))
PY
done
