#!/bin/sh
# tools/recheck_seeds.sh <name>... : re-run the checks against already-confirmed seeds in /verif/seeded/<name> (no test-suite run)
# and refresh meta.json's "checks" block.  Extra checks for a seed: NAME:C16,C19
mkdir -p /verif/build/seedres
for spec in "$@"; do
  name=${spec%%:*}; checks=""
  case "$spec" in *:*) checks="--checks ${spec#*:}";; esac
  /verif/tools/seedcheck.py /verif/seeded/$name --skip-tests $checks > /verif/build/seedres/$name.re.json 2>/verif/build/seedres/$name.re.err || { echo "$name: seedcheck failed"; continue; }
  /venv/bin/python - "$name" <<'PY'
import json, sys, pathlib
name = sys.argv[1]
txt = open(f'/verif/build/seedres/{name}.re.json').read()
res = json.loads(txt[txt.index('{'):])
p = pathlib.Path('/verif/seeded') / name / 'meta.json'
meta = json.loads(p.read_text())
meta['checks'] = {c: dict(detected=v['exit'] == 1, violations=[x.split('#')[-1].strip() for x in v['violations'][:4]])
                  for c, v in res['checks'].items()}
p.write_text(json.dumps(meta, indent=1))
print(name, {c: (v['exit'], 'detected' if v['exit'] == 1 else 'MISSED' if v['exit'] == 0 else 'MACHINERY') for c, v in res['checks'].items()}, 'demo', res.get('demo_clean_passes'), res.get('demo_patched_fails'))
PY
done
