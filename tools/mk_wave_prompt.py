#!/venv/bin/python
"""tools/mk_wave_prompt.py <ID> <prev-wave-dir> <new-wave-dir> <first-number>: next-wave seed prompt = previous prompt, renumbered,
with the titles of the seeds kept since then appended to the 'already proposed' list"""
import json, re, sys
from pathlib import Path
pid, prev, new, first = sys.argv[1], sys.argv[2], sys.argv[3], int(sys.argv[4])
txt = Path(prev, f'prompt_{pid}.txt').read_text()
txt = txt.replace(prev, new)
old_first = int(re.search(r'For each change k in (\d+)\.\.', txt).group(1))
txt = txt.replace(f'k in {old_first}..{old_first + 2} (number them {old_first}, {old_first + 1}, {old_first + 2})',
                  f'k in {first}..{first + 2} (number them {first}, {first + 1}, {first + 2})')
extra = []
for k in range(old_first, old_first + 3):
    m = Path('/verif/seeded', f'{pid}-{k}', 'meta.json')
    if m.exists():
        d = json.loads(m.read_text())
        extra.append(f" - {d.get('title')} [{', '.join(d.get('files', []))}]")
txt = txt.rstrip('\n') + '\n' + '\n'.join(extra) + '\n'
if 'never run `pkill`' not in txt:
    txt += '\nNever run `pkill`/`killall`: other people share this machine; only kill processes by the PID you started.\n'
Path(new, f'prompt_{pid}.txt').write_text(txt)
print(new, pid, len(extra), 'titles appended')
