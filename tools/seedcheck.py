#!/venv/bin/python
"""Confirm a seeded change and run the registered checks against it.

usage: tools/seedcheck.py <seed-dir> [--skip-tests] [--checks C14,C15] [--tier quick]
  <seed-dir> holds patch.diff, a demonstration (demo.py or test_demo.py) and meta.json {"property": "C14", ...}
Steps (all in a scratch worktree under /tmp, removed afterwards; /repo is patched only for the duration of the checks):
  1. demonstration passes on the unchanged tree, fails with the patch
  2. the repository's test suite passes with the patch (same failures as the recorded always-fail set)
  3. apply to /repo, run the checks, undo; report which checks raise VIOLATION
"""
import json
import os
import subprocess
import sys
import shutil
from pathlib import Path

ALWAYS_FAIL = {'test_conversion_xls', 'test_run_wrapper', 'test_auto_design_generation_fromjson',
               'test_auto_design_generation_fromxlsgainmode', 'test_commit_authors_in_author_rst'}


def sh(cmd, cwd=None, env=None, timeout=3600):
    e = dict(os.environ)
    e.update(env or {})
    return subprocess.run(cmd, shell=True, cwd=cwd, env=e, capture_output=True, text=True, timeout=timeout)


def sig_of(line):
    """VIOLATION property=.. replay=..  # <signature> (n case(s)) -> signature"""
    t = line.split('#', 1)[-1].strip()
    return t.rsplit(' (', 1)[0]


def baseline_sigs(check, tier):
    """violation signatures of the check on the UNCHANGED /repo for the current /verif tree (cached): a seed only counts
    as detected when it adds a signature the baseline does not have"""
    import hashlib
    head = sh('git -C /repo rev-parse HEAD').stdout.strip()
    vh = sh('git -C /verif rev-parse HEAD').stdout.strip()
    dirty = sh('git -C /verif status --porcelain spec harness known_findings.json').stdout
    mt = ''
    if dirty.strip():
        mt = sh("find /verif/spec /verif/harness -type f -newer /verif/.git/HEAD -printf '%p %T@\\n' | sort").stdout
    key = hashlib.sha1((head + vh + dirty + mt + tier).encode()).hexdigest()
    cache = Path('/verif/build/baseline')
    cache.mkdir(parents=True, exist_ok=True)
    f = cache / f'{check}.json'
    if f.exists():
        d = json.loads(f.read_text())
        if d.get('key') == key:
            return set(d['sigs']), d['exit']
    rc = sh(f'bin/verif check {check} --tier {tier}', cwd='/verif', timeout=7200,
            env={'VERIF_MUTANT': 'seed-baseline'})
    sigs = sorted({sig_of(ln) for ln in rc.stdout.splitlines() if ln.startswith('VIOLATION')})
    f.write_text(json.dumps(dict(key=key, sigs=sigs, exit=rc.returncode)))
    return set(sigs), rc.returncode


def demo_cmd(seed):
    if (seed / 'demo.py').exists():
        return f'/venv/bin/python {seed / "demo.py"}'
    t = next(seed.glob('test_*.py'))
    return f'/venv/bin/python -m pytest -q -p no:cacheprovider {t}'


def main():
    seed = Path(sys.argv[1]).resolve()
    args = sys.argv[2:]
    meta = json.loads((seed / 'meta.json').read_text())
    checks = meta['property'].split(',')
    tier = 'quick'
    for i, a in enumerate(args):
        if a == '--checks':
            checks = args[i + 1].split(',')
        if a == '--tier':
            tier = args[i + 1]
    wt = Path(f'/tmp/seedwt-{seed.name}')
    if wt.exists():
        sh(f'git -C /repo worktree remove --force {wt}')
    r = sh(f'git -C /repo worktree add --detach {wt} HEAD')
    assert r.returncode == 0, r.stderr
    out = dict(seed=seed.name, property=meta['property'])
    try:
        env = {'PYTHONPATH': str(wt)}
        r0 = sh(demo_cmd(seed), cwd=wt, env=env)
        out['demo_clean_passes'] = r0.returncode == 0
        r = sh(f'git apply {seed / "patch.diff"}', cwd=wt)
        assert r.returncode == 0, 'patch does not apply: ' + r.stderr
        r1 = sh(demo_cmd(seed), cwd=wt, env=env)
        out['demo_patched_fails'] = r1.returncode != 0
        if '--skip-tests' not in args:
            rt = sh('/venv/bin/python -m pytest -q -p no:cacheprovider --timeout=900 -n 8 2>&1 | tail -15', cwd=wt, env=env)
            failed = [ln for ln in rt.stdout.splitlines() if ln.startswith('FAILED') or ln.startswith('ERROR')]
            unexpected = [ln for ln in failed if not any(a in ln for a in ALWAYS_FAIL)]
            out['tests_pass_with_patch'] = not unexpected and 'passed' in rt.stdout
            out['tests_tail'] = rt.stdout.splitlines()[-1] if rt.stdout else ''
            out['unexpected_failures'] = unexpected
        if '--in-repo' not in args:
            # run the checks against the patched scratch worktree (VERIF_REPO) - /repo itself stays untouched
            out['checks'] = {}
            for c in checks:
                rc = sh(f'bin/verif check {c} --tier {tier}', cwd='/verif', timeout=7200,
                        env={'VERIF_REPO': str(wt), 'VERIF_MUTANT': 'seed-' + seed.name})
                viol = [ln for ln in rc.stdout.splitlines() if ln.startswith('VIOLATION')]
                base, bexit = baseline_sigs(c, tier)
                new = [ln for ln in viol if sig_of(ln) not in base]
                ex = rc.returncode
                if ex == 1 and not new:
                    ex = 0          # only violations the unchanged tree shows too: the seed itself is not detected
                out['checks'][c] = dict(exit=ex, raw_exit=rc.returncode, baseline_exit=bexit, violations=new[:6],
                                        tail=rc.stdout.splitlines()[-1:] + rc.stderr.splitlines()[-3:])
    finally:
        sh(f'git -C /repo worktree remove --force {wt}')
        shutil.rmtree(wt, ignore_errors=True)
    if '--in-repo' in args:
        # checks against /repo itself (apply, run, undo)
        st = sh('git -C /repo status --porcelain --untracked-files=no')
        assert st.stdout.strip() == '', '/repo has uncommitted tracked changes'
        r = sh(f'git -C /repo apply {seed / "patch.diff"}')
        assert r.returncode == 0, r.stderr
        try:
            out['checks'] = {}
            for c in checks:
                rc = sh(f'bin/verif check {c} --tier {tier}', cwd='/verif', timeout=7200,
                        env={'VERIF_MUTANT': 'seed-' + seed.name})
                viol = [ln for ln in rc.stdout.splitlines() if ln.startswith('VIOLATION')]
                out['checks'][c] = dict(exit=rc.returncode, violations=viol[:6],
                                        tail=rc.stdout.splitlines()[-1:] + rc.stderr.splitlines()[-3:])
        finally:
            sh('git -C /repo checkout -- .')
    print(json.dumps(out, indent=1))


if __name__ == '__main__':
    main()
