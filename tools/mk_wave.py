#!/venv/bin/python
"""tools/mk_wave.py <wave-name> <n-per-property> <ID>... : write the prompt of an independent seed developer per property to
build/<wave>/prompt_<ID>.txt and create its scratch worktree /tmp/<wave>/<ID> (git worktree of /repo HEAD).
The prompt carries ONLY the property text, the titles of the changes already proposed for it (so that new ones differ) and
the working rules - nothing about /verif's checks."""
import json
import subprocess
import sys
from pathlib import Path

wave, n = sys.argv[1], int(sys.argv[2])
pids = sys.argv[3:]
props = {json.loads(l)['id']: json.loads(l) for l in open('/verif/properties.jsonl')}
out = Path('/verif/build') / wave
out.mkdir(parents=True, exist_ok=True)
for pid in pids:
    p = props[pid]
    have = sorted(int(d.name.split('-')[1]) for d in Path('/verif/seeded').glob(f'{pid}-*'))
    first = (max(have) if have else 0) + 1
    titles = []
    for k in have:
        m = json.loads((Path('/verif/seeded') / f'{pid}-{k}' / 'meta.json').read_text())
        titles.append(f" - {m.get('title')} [{', '.join(m.get('files', []))}]")
    wt = f'/tmp/{wave}/{pid}'
    Path(f'/tmp/{wave}').mkdir(exist_ok=True)
    subprocess.run(f'git -C /repo worktree remove --force {wt}', shell=True, capture_output=True)
    r = subprocess.run(f'git -C /repo worktree add --detach {wt} HEAD', shell=True, capture_output=True, text=True)
    assert r.returncode == 0, r.stderr
    nums = ', '.join(str(first + i) for i in range(n))
    txt = f"""You are a developer of the open-source optical network simulator oopt-gnpy (GNPy, Python). Your own scratch git worktree of
the repository is {wt} (work ONLY there; never touch /repo or /verif, never read /verif). Python: /venv/bin/python; run
everything with PYTHONPATH={wt} and cwd {wt} so that `import gnpy` takes YOUR tree (check `gnpy.__file__` once).

Here is a semantic property that users of GNPy rely on:

  {pid} - {p['title']}
  Statement: {p['statement']}
  Quantifier: {p.get('quantifier', '')}
  Code anchors: {json.dumps(p.get('anchors', ''))}

Task: produce {n} DIFFERENT, realistic changes to the gnpy sources (the kind a maintainer could plausibly commit: a refactoring
slip, a "performance" cache, a wrong default, an off-by-one, a forgotten case, two sites that each look fine alone) such that
  (a) the package still imports and the repository's own test-suite still passes with the change:
      cd {wt} && PYTHONPATH={wt} /venv/bin/python -m pytest -q -p no:cacheprovider --timeout=900 -n 6 2>&1 | tail -15
      (on the unchanged tree exactly these tests fail for reasons unrelated to the code and may keep failing: test_conversion_xls,
      test_run_wrapper, test_auto_design_generation_fromjson, test_auto_design_generation_fromxlsgainmode,
      test_commit_authors_in_author_rst; nothing else may fail),
  (b) the change BREAKS the property above for some input, and
  (c) it needs something SPECIFIC to manifest - a particular multi-step sequence of operations, an unusual but valid input,
      a second use of the same object, a particular order, a rarely used option or element kind, or two cooperating sites -
      NOT something ordinary use (the shipped examples run once) would expose at once.
Do not edit tests or data files; change only files under gnpy/. Keep each change small (a few lines up to ~30).
Prefer changes in code paths and input classes DIFFERENT from these, which were already proposed for this property:
{chr(10).join(titles) if titles else ' (none yet)'}

For each change k in ({nums}) deliver a directory /tmp/{wave}out/{pid}-k/ containing
  patch.diff   `git diff` of the change against the unchanged worktree (must apply with `git apply` from the repository root)
  demo.py      a small standalone program using gnpy's public functions that exits 0 on the UNCHANGED tree and exits non-zero
               (assert / exception) WITH the change, because the property is violated; it must run in < 60 s with
               `cd <tree> && PYTHONPATH=<tree> /venv/bin/python /tmp/{wave}out/{pid}-k/demo.py`, find data files relative to
               the imported package (`Path(gnpy.__file__).parent / 'example-data'`, or `.parent.parent / 'tests' / 'data'`)
               and write nothing outside the system temp dir
  meta.json    {{"property": "{pid}", "title": "<one line: what the change does>", "breaks": "<which clause of the property and how>",
               "needs": "<what is required for it to manifest>", "files": ["gnpy/..."]}}
Work on ONE change at a time: make it, verify (a), (b) with the demo both ways (`git diff > /tmp/<your-own-name>.diff; git checkout -- .` to get the
unchanged tree back, `git apply` the saved diff to return - NEVER `git stash`: the stash is shared between all worktrees of the repository and other developers use them at the same time), save the three files, then `git checkout -- .` before the next change. Leave the worktree clean at the end.
Never run `pkill`/`killall`: other people share this machine; only kill processes by the PID you started.
Final answer: for each change, one paragraph - what it does, what it needs to manifest, the test-suite tail line, and the demo's
output on both trees.
"""
    (out / f'prompt_{pid}.txt').write_text(txt)
    print(pid, 'first', first, wt)
