#!/venv/bin/python
"""tools/merge_asbuilt.py: merge the developers' as-built paragraphs (build/asbuilt_*.md) into DESIGN.md §10 (replacing the
paragraph(s) that start with the same **Cxx heading ids) and their level texts (build/level_Cxx.txt) into MANIFEST.json"""
import json
import re
from pathlib import Path

root = Path('/verif')
design = (root / 'DESIGN.md').read_text()
start = design.index('## 10. As built')
head, sec = design[:start], design[start:]
# split §10 into blocks separated by blank lines; a block "belongs" to the ids named in its bold heading
blocks = sec.split('\n\n')


def ids_of(block):
    m = re.match(r'\*\*([^*]*?)(\(|\.\*\*|\*\*)', block.strip())
    if not m:
        return set()
    return set(re.findall(r'C\d\d', m.group(1)))


for f in sorted((root / 'build').glob('asbuilt_*.md')):
    text = f.read_text().strip()
    new_ids = set(re.findall(r'C\d\d', f.stem))
    kept, placed = [], False
    for b in blocks:
        bi = ids_of(b)
        if bi and bi <= new_ids:
            if not placed:
                kept.append(text)
                placed = True
            continue
        if bi & new_ids:
            # a combined paragraph (e.g. "C11 / C12") only partly covered: keep it unless fully covered
            kept.append(b)
            continue
        kept.append(b)
    if not placed:
        kept.append(text)
    blocks = kept
    print('merged', f.name, sorted(new_ids))
(root / 'DESIGN.md').write_text(head + '\n\n'.join(blocks))

m = json.loads((root / 'MANIFEST.json').read_text())
for f in sorted((root / 'build').glob('level_C*.txt')):
    pid = f.stem.split('_')[1]
    lines = [ln.strip() for ln in f.read_text().strip().splitlines() if ln.strip()]
    text = ' '.join(ln for ln in lines if not ln.startswith('NOTE:'))
    note = ' '.join(ln[5:].strip() for ln in lines if ln.startswith('NOTE:'))
    for c in m['checks']:
        if c['property_id'] == pid:
            c['level_claimed']['text'] = text
            if note:
                c['level_note'] = note
            print('level', pid, len(text))
(root / 'MANIFEST.json').write_text(json.dumps(m, indent=1))
