#!/bin/sh
# tools/recheck_all.sh [P]: re-run the quick check of its own property against every seed in /verif/seeded (P parallel, default 6)
# and refresh meta.json; first one seed per property (warms the per-check baseline cache), then the rest
P=${1:-6}
cd /verif
ls seeded | sort > build/all_seeds.txt
: > build/recheck_all.log
for id in $(cut -d- -f1 build/all_seeds.txt | sort -u); do grep -m1 "^$id-" build/all_seeds.txt; done > build/first_seeds.txt
grep -v -x -f build/first_seeds.txt build/all_seeds.txt > build/rest_seeds.txt
cat build/first_seeds.txt | xargs -P $P -I{} sh -c 'tools/recheck_seeds.sh {} >> build/recheck_all.log 2>&1'
cat build/rest_seeds.txt | xargs -P $P -I{} sh -c 'tools/recheck_seeds.sh {} >> build/recheck_all.log 2>&1'
echo "done: $(grep -c detected build/recheck_all.log) detected, $(grep -c MISSED build/recheck_all.log) missed, $(grep -c MACHINERY build/recheck_all.log) machinery, $(grep -c 'seedcheck failed' build/recheck_all.log) failed"
